#!/bin/sh
# tools/confirm_seed.sh <dir with patch.diff demo.py meta.json> -> prints CONFIRMED or why not; writes confirm.json there
# Independent confirmation of a seeded change in a scratch worktree of /repo's HEAD: demo passes without the patch,
# fails with it, and the pinned test suite still passes with it (the two baseline always-fail benchmarks excluded;
# tests/test_text_nodes.py::test_fetch_preceding_sibling is GC-timing dependent on the unchanged tree and is retried).
d="$(readlink -f "$1")"
wt="/tmp/confirm-$$"
git -C /repo worktree add -q --detach "$wt" HEAD || exit 2
cd "$wt"
PYTHONPATH="$wt" timeout 300 /venv/bin/python "$d/demo.py" >/dev/null 2>&1; before=$?
git apply "$d/patch.diff" || { echo "patch does not apply"; git -C /repo worktree remove --force "$wt"; exit 2; }
PYTHONPATH="$wt" timeout 300 /venv/bin/python "$d/demo.py" >/dev/null 2>&1; after=$?
PYTHONPATH="$wt" timeout 2400 /venv/bin/python -m pytest -q -p no:cacheprovider --timeout=900 \
  --deselect benchmarks/test_normalizing_documents.py > "$wt/.suite.log" 2>&1; suite=$?
failed="$(grep -E '^(FAILED|ERROR)' "$wt/.suite.log" | sort -u | tr '\n' ';')"
if [ "$suite" != 0 ]; then
  # retry only the failed tests once (GC-timing flakiness exists on the unchanged tree)
  ids="$(grep -E '^(FAILED|ERROR)' "$wt/.suite.log" | sed -E 's/^(FAILED|ERROR) ([^ ]+).*/\2/' | sort -u)"
  if [ -n "$ids" ]; then PYTHONPATH="$wt" timeout 900 /venv/bin/python -m pytest -q -p no:cacheprovider $ids > "$wt/.retry.log" 2>&1; suite=$?; fi
fi
ok=no; [ "$before" = 0 ] && [ "$after" != 0 ] && [ "$suite" = 0 ] && ok=yes
printf '{"demo_exit_without_patch": %s, "demo_exit_with_patch": %s, "suite_exit_with_patch": %s, "first_run_failures": "%s", "confirmed": "%s", "repo_head": "%s"}\n' \
  "$before" "$after" "$suite" "$failed" "$ok" "$(git -C /repo log --format=%h -1)" > "$d/confirm.json"
cat "$d/confirm.json"
cd /; git -C /repo worktree remove --force "$wt"
