#!/usr/bin/env python3
"""Regenerate seeded/README.md from seeded/<id>/{meta.json,confirm.json,detection.txt}."""
import glob
import json
import os
import re

HERE = os.path.dirname(os.path.dirname(os.path.abspath(__file__)))
NOTES = {  # what a seed taught (checks strengthened because it was first missed, or caught by another property's check)
    "C07-3": "first missed: node-loader and TagNode.parse routes added to the C07 check",
    "C19-3": "first missed: un-reduced source text (leading/trailing/inner whitespace) added to the C19 generator",
    "C01-2": "first missed: documents mixing a default and a prefixed namespace on moved nodes added",
    "C01-3": "a GC-callback change: caught by ./check C04 (the C01 harness runs with the collector disabled by design)",
    "C10-1": "first missed: 0-3 distinguishable prologue/epilogue nodes, order compared on clones",
    "C10-2": "first missed: clones now also taken under the caller's normal default filters",
    "C13-2": "first missed: caller prefixes that are near-misses of the global prefixes (xmldsig, xmlx, xm, ...) added",
    "C17-1": "first missed: XML route with namespaces bound to prefixes and un-namespaced attributes added",
    "C18-3": "first missed: nesting deeper than 8 levels and sub-trees at every depth added",
    "C02-2": "first missed (caught by C13): targeted generator for prefixed root + caller default namespace + later un-namespaced node",
    "C06-2": "first missed: stacked predicates where an earlier one filters and a later one uses last()/position()",
    "C06-3": "first missed: explicit empty namespaces mapping and xmlns=\"\" islands added",
    "C15-2": "first missed: steps with 3-4 bracket predicates incl. a non-locatable one in the middle",
    "C09-1": "first missed: documents with a childless root and one prologue/epilogue node offered elsewhere",
    "C09-2": "first missed: parentless text targets with offered comment/PI",
    "C09-3": "was caught (root re-assignment before the guarded calls); harmless on the current HEAD since fix e27f40b returns early on self-assignment, so nothing is reported now - correctly",
    "C11-2": "caught as a broken tie against the HEAD it was written for; no longer applies after fix commits rewrote _etree_key",
    "C16-3": "first only a broken translator obligation: nesting-depth sweep over three expression shapes added",
    "C05-5": "a yield under altered_default_filters: the stack discipline is C08's subject (all_balanced no longer proves; dynamic failures)",
    "C05-6": "a GC-callback change (held appended tail text): C04's subject",
    "C01-6": "a GC-callback change (held appended tail text): C04's subject; the C01 harness runs with the collector disabled by design",
    "C03-5": "a change to reduce_whitespace (merge after instead of before): C07's subject (its idempotence/merge theorems and search)",
    "C03-6": "a change to reduce_whitespace (early return before recursing into a nested xml:space=default): C07's subject",
    "C02-6": "first only a broken tie: namespace names containing '&' added to the generators",
    "C06-4": "first only a broken tie: direct document-order search on nested same-name elements and CSS child/descendant combinators added",
    "C07-5": "first missed: histories (loaded with the option, edited through the API, reduced by the method) added to the C07 check",
    "C19-4": "first missed: text spread over several adjacent (API-made) text nodes added to the C19 generator",
    "C19-5": "first missed: same generator extension as C19-4",
    "C04-4": "first only a broken tie: operations that raise inside a locked region and are handled, then the release clause",
    "C04-5": "first missed: blanked appended text nodes in front of a held chain member",
    "C04-6": "first missed: indented and wrapped serializations observed before/after collections",
    "C09-4": "first missed: illegal offers now also under the stock default filters; parentless comment/PI chains",
    "C09-5": "first only a broken tie: negative item indexes",
    "C09-6": "first missed: replace_with on parentless comment/PI targets",
    "C10-4": "first missed: documents loaded with reduce_whitespace and edited before cloning",
    "C10-5": "first missed: prefixed-namespace elements with plain and twin attributes",
    "C10-6": "first missed: wide nodes (800 / 1200 children)",
    "C12-4": "first missed: one ParserOptions object reused across loads while its attributes change",
    "C13-4": "first missed: declaration clauses also on formatted serializations of roots and sub-trees",
    "C15-5": "first only a broken tie: number literals in both operand orders on steps that must be created",
    "C15-6": "first only a broken tie: cases under ambient filters; existing targets must be returned",
    "C16-4": "first missed: termination probe in a child process with a watchdog; pinned STRING pattern",
    "C16-6": "first missed: the same expression string under different namespace mappings, cached vs fresh",
    "C17-4": "first missed: one side un-namespaced attribute, other side namespace bound to default and prefix",
    "C18-6": "first missed: serialize, add root siblings through the node API, serialize again",
    "C01-8": "first missed: add_preceding_siblings of element-like nodes on text after comment/PI under the stock filters",
    "C05-7": "first only a broken tie: the direct search is now strict under every ambient filter for the unguarded routines",
    "C09-9": "first only a broken tie: attached nodes of unbound trees offered to the root setter",
    "C10-7": "first missed: empty strings behind comments/PIs before cloning (works on the unchanged code, so unclassified)",
    "C10-9": "first only a broken tie: clones under several ambient filters; any exception is a failure",
    "C12-8": "first only a broken tie: new roots carrying their own root-level comments/PIs",
    "C16-7": "first only a broken tie: parsing under a lowered interpreter int-digit limit",
    "C16-9": "first only a broken tie: literal-on-the-left expressions through fetch_or_create, cached vs fresh",
    "C11-9": "first missed: pairs of nodes reached by different routes (parsed / created / moved in) compared ten ways; store spellings k vs {d}k",
    "C06-7": "first only a broken tie: the same expression string evaluated repeatedly under different prefix mappings (state_search)",
    "C19-7": "first missed: whole output tied byte for byte to Ws/Wrap.v, one-line form checked against the width, near-fit generator with escaped characters; found the open finding C19-oneline-boundary-whitespace",
    "C01-11": "a GC-callback change: C04's subject (caught there); C01 now has a targeted scenario editing through a held chain member after a collection",
    "C05-10": "a GC-callback change: C04's subject (caught there); C05 now holds a later member of a tail chain across a collection",
    "C05-11": "first missed: histories - every relation queried on held objects, tree edited (move/detach/re-attach at another level), queried again on the same objects",
    "C05-12": "filters held across a yield: C08's subject (caught there); C05 now re-queries len/index/first_child in the body of loops over nine generators",
    "C02-12": "a refused assignment that leaves its value behind: C09's subject (caught there with failing inputs)",
    "C03-11": "first missed: siblings with identical content (twins) next to an element, fixed cases and generator",
    "C06-10": "first missed: and/or/comparisons mixed at one level without parentheses; found the open finding C06-q (chained comparisons associate to the right)",
    "C06-11": "first only a broken tie: prefixed attributes in predicates under a sequence of mappings",
    "C14-11": "first missed: history_search - paths read and evaluated from the same node objects before and after ancestors are detached / attached elsewhere, both orders",
    "C17-11": "first missed: histories - compare, edit through every API route on objects taken before, compare again, both argument orders",
    "C18-10": "first only a broken tie: white space outside ASCII in and around texts; a parsed-with-reduction root must be in normal form",
    "C18-12": "order of xmlns:* declarations on the start tag: stated by neither C18 nor C13; reported as a broken tie (declared_attributes) by ./check C13",
    "C04-11": "first only a broken tie: release clause on a multi-tree reference graph (held chained text node of an earlier tree, 3 / 25 dropped documents)",
    "C08-11": "first only a broken tie: iterators started under one ambient setting and resumed under another",
    "C09-10": "first only a broken tie: the stated rule for comment content kept as an independent spec (Conc/SetterSpec.v), multi-line contents",
    "C11-10": "first only a broken tie: '{}name' accessors on nodes with a non-empty own namespace",
    "C12-10": "first only a broken tie: texts containing ']]>' (also split over adjacent text nodes)",
    "C16-10": "first only a broken tie: axis names that coincide with attributes of Axis objects, underscore spellings; parse() and xpath() must both reject",
    "C16-11": "first only a broken tie: history independence - every string parsed four times in two fresh interpreters in opposite orders",
    "C19-10": "first only a broken tie: white space outside ASCII between words",
    "C19-11": "first only a broken tie: xml:space set during a first serialization and removed before the second, same node",
    "C01-14": "first missed: clone=True with a detached offered node (24 fixed cases: inserted node is not the offered one, offered node stays usable)",
    "C09-14": "first missed: the Document(node) constructor route with attached nodes of document-less trees",
    "C06-13": "first missed: ancestor axes from several context nodes followed by a child/self step; any duplicate in a result is a failure",
    "C14-13": "first missed: the document root replaced and put back; old tree, new root and replaced root each addressed within their own tree",
    "C14-15": "first missed: a tag node behind 2000 comments / PIs (boundary_search)",
    "C02-15": "first only a broken tie: ']]>' straddling adjacent text nodes in API-built trees",
    "C16-14": "first only a broken tie: registered extension functions that are not plain Python functions (callable instances, partial, bound method, C callable)",
    "C18-13": "a namespace name escaped twice in the xmlns declarations: C02's and C13's subject (caught there with failing inputs)",
    "C03-1": "caught as a broken tie; generator bias for preserved nested children that fit the line requested",
}
rows = []
for d in sorted(glob.glob(os.path.join(HERE, "seeded", "C*-*")), key=lambda p: (p.split("/")[-1].split("-")[0], p)):
    sid = os.path.basename(d)
    meta = json.load(open(os.path.join(d, "meta.json"))) if os.path.exists(os.path.join(d, "meta.json")) else {}
    conf = json.load(open(os.path.join(d, "confirm.json"))) if os.path.exists(os.path.join(d, "confirm.json")) else {}
    det = open(os.path.join(d, "detection.txt")).read() if os.path.exists(os.path.join(d, "detection.txt")) else ""
    if "VIOLATION" in det:
        how = "VIOLATION, tie/proof broken, no failing input" if "no-failing-input-found" in det else "VIOLATION with failing input"
        m = re.search(r'"what": "([^"]{0,110})', det)
        if m:
            how += ": " + m.group(1)
        b = re.search(r"broken= (\[\[.*?\]\])", det)
        if b and "proof" in b.group(1):
            how += " (+ a lemma no longer closes)"
        elif b and "translator" in b.group(1):
            how += " (+ translator obligation)"
    elif "harmless" in det or "no longer applies" in det:
        how = "see note (patch superseded by later fix: commits)"
    elif det:
        how = "not caught by its own property's check"
        for other in sorted(glob.glob(os.path.join(d, "detection_C*.txt"))):
            if "VIOLATION" in open(other).read():
                how += "; caught by ./check %s" % os.path.basename(other)[len("detection_"):-4]
    else:
        how = "(not run yet)"
    summary = re.sub(r"\s+", " ", meta.get("summary", ""))[:230]
    rows.append("| %s | %s | %s | %s | %s |" % (sid, summary.replace("|", "/"), conf.get("confirmed", "?"), how.replace("|", "/"), NOTES.get(sid, "")))
out = ["# Seeded changes: which check catches which change\n",
       "Each directory holds `patch.diff`, `demo.py` (passes without, fails with the patch), `meta.json` (what it needs to manifest),",
       "`confirm.json` (independent confirmation by `tools/confirm_seed.sh`: demo exit codes, pinned suite passing with the patch) and",
       "`detection.txt` (output of `tools/mutcheck.sh <patch> <property>` at the time of the last matrix run). The changes were written by",
       "sub-agents that saw only the property text and a scratch worktree. Apply with `git -C /repo apply seeded/<id>/patch.diff`, run",
       "`./check <property>`, undo with `git -C /repo checkout -- .` (or use `tools/mutcheck.sh`, which works on scratch copies).",
       "A patch is against /repo HEAD at the time it was written; later `fix:` commits may make a few of them apply with offsets.\n",
       "| id | change | confirmed | detection by its property's check | note |", "|---|---|---|---|---|"] + rows
open(os.path.join(HERE, "seeded", "README.md"), "w").write("\n".join(out) + "\n")
print(len(rows), "seeds")
