#!/usr/bin/env python3
"""Write MANIFEST.json from the registry below (one entry per claimed property)."""
import json
import os

HERE = os.path.dirname(os.path.dirname(os.path.abspath(__file__)))

def load_claimed():
    """harness/props/<id>.meta.json: {"text":..., "design_ref":..., "note":..., "technique":..., ["category":...]}"""
    out = {}
    d = os.path.join(HERE, "harness", "props")
    for f in sorted(os.listdir(d)):
        if f.endswith(".meta.json"):
            with open(os.path.join(d, f)) as fh:
                out[f[:-len(".meta.json")].upper()] = json.load(fh)
    return out


CLAIMED = load_claimed()
PENDING_REASON = "not yet claimed: the model and theorems for this property are still being built (see DESIGN.md section 9)"


def main():
    props = [json.loads(l)["id"] for l in open(os.path.join(HERE, "properties.jsonl"))]
    checks = []
    for pid in props:
        if pid not in CLAIMED:
            continue
        c = CLAIMED[pid]
        checks.append({
            "property_id": pid,
            "quick_cmd": "./check %s --tier quick" % pid,
            "thorough_cmd": "./check %s --tier thorough" % pid,
            "evidence_file": "/verif/evidence/%s.json" % pid,
            "replay_cmd_template": "./check %s --replay {path}" % pid,
            "engine": "coq-delb",
            "level_claimed": {"category": c.get("category", "proof"), "text": c["text"], "design_ref": c["design_ref"]},
            "level_note": c["note"],
            "technique": c["technique"],
        })
    m = {
        "version": 1,
        "setup_cmd": "./setup.sh",
        "hooks": {"guard": "DELB_PY_VERIF", "enable": "no source hooks are needed; checks set DELB_PY_VERIF=1 for uniformity",
                  "baseline_off_cmd": "cd /repo && /venv/bin/python -m pytest -ra -q -p no:cacheprovider --timeout=900 --continue-on-collection-errors",
                  "source_commits": [], "add_only": True},
        "engines": [{"name": "coq-delb", "path": "/verif/coq", "serves_properties": sorted(CLAIMED),
                     "kind_free_text": "Coq 8.16 development (models + theorems), translator from the Python source, "
                                       "correspondence harness evaluating the models with vm_compute against the implementation"}],
        "checks": checks,
        "not_applicable": [{"property_id": p, "reason": PENDING_REASON} for p in props if p not in CLAIMED],
        "notes": "fix: commits in /repo are listed in known_findings.json as 'fixed' entries.",
    }
    with open(os.path.join(HERE, "MANIFEST.json"), "w") as f:
        json.dump(m, f, indent=1)


if __name__ == "__main__":
    main()
