#!/bin/sh
# tools/seed_matrix.sh <seed ids...>: run each seed's own property check against the patched scratch copy;
# writes seeded/<id>/detection.txt
cd "$(dirname "$0")/.."
for s in "$@"; do
  p="${s%%-*}"
  tools/mutcheck.sh "seeded/$s/patch.diff" "$p" > "seeded/$s/detection.txt" 2>&1
  if grep -q "^VIOLATION" "seeded/$s/detection.txt"; then echo "$s DETECTED $(grep -c no-failing-input-found seeded/$s/detection.txt | sed 's/0//;s/1/(no-failing-input-found)/')"; else echo "$s MISSED"; fi
done
