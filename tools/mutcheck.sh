#!/bin/sh
# tools/mutcheck.sh <patch.diff> <Cxx> [Cyy ...]
# Runs checks against a scratch copy of /repo's HEAD with the patch applied, from a scratch copy of /verif
# (so that neither /repo nor /verif/coq is disturbed while other work is going on).  Prints each check's
# exit status and VIOLATION/KNOWN-FINDING lines; removes the scratch copies afterwards.
set -e
patch="$(readlink -f "$1")"; shift
here="$(cd "$(dirname "$0")/.." && pwd)"
tag="mutcheck-$$"
wt="/tmp/$tag-repo"; vf="/tmp/$tag-verif"
cleanup() { git -C /repo worktree remove --force "$wt" 2>/dev/null; rm -rf "$vf"; }
trap cleanup EXIT
git -C /repo worktree add -q --detach "$wt" HEAD
# later fix: commits may have moved the context of an older patch: fall back to a 3-way apply, then to fuzz
if ! git -C "$wt" apply "$patch" 2>/dev/null; then
  if ! git -C "$wt" apply -3 "$patch" 2>/dev/null || grep -rq '^<<<<<<< ' "$wt/_delb" "$wt/delb"; then
    git -C "$wt" reset -q --hard
    if ! (cd "$wt" && patch -p1 --fuzz=3 -s < "$patch" >/dev/null 2>&1); then
      echo "patch does not apply to the current HEAD"; exit 2
    fi
  fi
fi
mkdir -p "$vf"
rsync -a --exclude .git --exclude build/run --exclude build/replay --exclude evidence --exclude design_probes --exclude seeded "$here/" "$vf/"
mkdir -p "$vf/evidence" "$vf/build/run" "$vf/build/replay"
for p in "$@"; do
  echo "== $p against $(basename "$patch")"
  set +e
  ( cd "$vf" && DELB_REPO="$wt" timeout 1500 ./check "$p" --tier "${VERIF_TIER:-quick}" > .mutcheck.out 2>&1; grep -E "^VIOLATION" .mutcheck.out | head -3; echo "known_finding_lines=$(grep -c '^KNOWN-FINDING' .mutcheck.out)"; grep -E "Traceback" .mutcheck.out | head -2; )
  ( cd "$vf" && /venv/bin/python -c "
import json;e=json.load(open('evidence/$p.json'));print('violations=',e['violations'],'broken=',e['coverage']['broken'][:3])
import glob
for f in glob.glob('build/replay/${p}_*.json'):
    r=json.load(open(f)); print('replay:', json.dumps(r)[:700])" 2>&1 | head -8 )
  set -e
done
