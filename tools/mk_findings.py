#!/usr/bin/env python3
"""Assemble known_findings.json (the committed file the checks read) from findings.d/Cxx.json.
Run by hand after editing a findings.d file; never run by a check."""
import glob
import json
import os

HERE = os.path.dirname(os.path.dirname(os.path.abspath(__file__)))
out = []
for p in sorted(glob.glob(os.path.join(HERE, "findings.d", "*.json"))):
    with open(p) as f:
        out += json.load(f)["findings"]
for f in out:
    assert f["status"] in ("open", "fixed") and f["property"] and f["id"] and f["what"], f
    if f["status"] == "open":
        assert "cls" in f and "witness" in f, f
doc = {"comment": "Committed list of genuine defects of delb-py found by the checks. 'open' entries are printed as "
                  "KNOWN-FINDING by the check of their property and suppress only failures inside their class (cls); "
                  "'fixed' entries suppress nothing. Assembled from findings.d/ by tools/mk_findings.py; never written at run time.",
       "findings": out}
with open(os.path.join(HERE, "known_findings.json"), "w") as f:
    json.dump(doc, f, indent=1)
print(len(out), "findings")
