#!/bin/sh
# tools/seed_robust.sh <seed number> <seed ids...>: is each seeded change caught with a failing input under another VERIF_SEED?
cd "$(dirname "$0")/.."
n="$1"; shift
for s in "$@"; do
  p="${s%%-*}"
  out=$(VERIF_SEED=$n tools/mutcheck.sh "seeded/$s/patch.diff" "$p" 2>&1)
  if echo "$out" | grep -q "^VIOLATION.*json$"; then r="failing-input"; elif echo "$out" | grep -q "^VIOLATION"; then r="tie-only"; elif echo "$out" | grep -q "does not apply"; then r="n/a"; else r="MISSED"; fi
  echo "seed=$n $s $r"
done
