#!/bin/sh
# tools/run_all.sh [tier] [props...] : run checks one after the other; print status and wall time per property
cd "$(dirname "$0")/.."
tier="${1:-quick}"; shift 2>/dev/null
props="$*"
[ -n "$props" ] || props="$(ls harness/props/*.meta.json | sed 's|.*/c\([0-9]*\)\.meta\.json|C\1|' | sort)"
for p in $props; do
  s=$(date +%s)
  out=$(./check "$p" --tier "$tier" 2>/tmp/run_all_err.$$)
  st=$?
  e=$(date +%s)
  nk=$(echo "$out" | grep -c '^KNOWN-FINDING')
  nv=$(echo "$out" | grep -c '^VIOLATION')
  echo "$p exit=$st wall=$((e-s))s known=$nk violation_lines=$nv"
  [ "$st" != 0 ] && { echo "$out" | grep '^VIOLATION' | head -2; tail -3 /tmp/run_all_err.$$; }
done
rm -f /tmp/run_all_err.$$
