#!/bin/sh
# tools/coqmake.sh [targets...]   e.g. tools/coqmake.sh theories/Props/C07.vo
# Serialised (flock) make in /verif/coq after refreshing _CoqProject; always under a timeout.
here="$(cd "$(dirname "$0")/.." && pwd)"
mkdir -p "$here/build"
exec flock "$here/build/.coqlock" sh -c "cd '$here/coq' && ./mk_coqproject.sh && timeout ${COQ_TIMEOUT:-900} make -j8 $*"
