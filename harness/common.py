"""Shared machinery of the checks: translator run, Coq build, evaluation of model terms inside Coq,
evidence, known findings, verdict.  Every check module under harness/props/ uses a `Ctx`.

A check does, in this order:
  1. ctx.regen([...])            translator obligations (Gen/*.v from /repo's current source)
  2. ctx.build("Props/Cxx.vo")   proof obligations (full .vo build under a shell timeout)
  3. correspondence: model (evaluated by coqc/vm_compute) against the implementation
  4. direct search for an input on which the property itself fails on the implementation
  5. ctx.finish()                known findings, evidence, VIOLATION lines, exit status
"""
import json
import os
import random
import re
import subprocess
import sys
import time
import hashlib

VERIF = os.path.dirname(os.path.dirname(os.path.abspath(__file__)))
REPO = os.environ.get("DELB_REPO", "/repo")
COQ = os.path.join(VERIF, "coq")
RUN = os.path.join(VERIF, "build", "run")
PY = "/venv/bin/python"

TRUSTED_BASE = [
    "Coq 8.16.1 kernel (coqc), vm_compute; no native_compute; no axioms declared by the development",
    "translate/py2coq.py + translate/gen_all.py (Python ast -> Gallina for the generated leaf functions and tables)",
    "correspondence harness (harness/*.py) and its canonical encodings; /venv/bin/python 3.12",
    "modelled, not verified: lxml/libxml2, CPython string methods / regex \\s / whitespace table (regenerated from the interpreter)",
]


class Ctx:
    def __init__(self, prop, tier, seed):
        self.prop = prop
        self.tier = tier
        self.seed = seed
        self.rng = random.Random(seed)
        self.t0 = time.time()
        self.broken = []          # [(kind, name, detail)] obligations / correspondences that no longer check
        self.failing = []         # [{"what":..., "case":..., "cls":...}] property-level failures on the implementation
        self.known_hits = {}      # finding id -> count
        self.obligations = []     # names of Coq statements this property's Props file closes
        self.discharged = []
        self.checker_cmds = []
        self.cov = {"evaluations": 0, "samples": [], "distribution": {}}
        self.nontrivial = set()
        self.assumptions = []
        self.trusted = list(TRUSTED_BASE)
        self.notes = []
        os.makedirs(RUN, exist_ok=True)
        self.findings = [f for f in load_findings() if f["property"] == prop]

    # ---------------------------------------------------------------- translator
    def regen(self, files):
        # every generated file is refreshed from the current source (a Props file may depend on more of them than
        # the check lists); a translator failure is charged to this property only for the files it lists - a failing
        # file it depends on otherwise makes the build step fail
        cmd = [PY, os.path.join(VERIF, "translate", "gen_all.py")]
        env = dict(os.environ, PYTHONPATH=REPO, PYTHONHASHSEED="0", DELB_REPO=REPO)
        with coq_lock():
            p = subprocess.run(cmd, capture_output=True, text=True, env=env, timeout=300)
            subprocess.run([os.path.join(COQ, "mk_coqproject.sh")], check=False, capture_output=True)
        self.checker_cmds.append(" ".join(cmd))
        try:
            st = json.loads(p.stdout.strip().splitlines()[-1])
        except Exception:
            self.broken.append(("translator", "gen_all.py", (p.stdout + p.stderr)[-2000:]))
            return False
        ok = True
        for name, s in st.items():
            if files and name not in files:
                continue
            self.obligations.append("translate:" + name)
            if s.get("ok"):
                self.discharged.append("translate:" + name)
            else:
                ok = False
                self.broken.append(("translator", name, s.get("error", "")))
        return ok

    # ---------------------------------------------------------------- Coq build
    def build(self, target, timeout=900):
        """make one .vo (and what it needs).  Records the theorems of the Props file as obligations."""
        vfile = os.path.join(COQ, "theories", target[:-1] if target.endswith(".vo") else target)
        names = []
        if os.path.exists(vfile):
            with open(vfile) as f:
                names = re.findall(r"^(?:Theorem|Lemma|Example|Corollary)\s+([A-Za-z0-9_']+)", f.read(), re.M)
        bad = lint_coq(dependency_closure(vfile))
        self.obligations.append("lint:no Admitted/admit/Axiom/Parameter/Conjecture/unset checks in coq/theories")
        if bad:
            self.broken.append(("lint", "forbidden construct in the Coq development", "\n".join(bad[:10])))
        else:
            self.discharged.append("lint:no Admitted/admit/Axiom/Parameter/Conjecture/unset checks in coq/theories")
        cmd = ["timeout", str(timeout), "make", "-C", COQ, "-j", str(workers()),
               os.path.join("theories", target)]
        self.checker_cmds.append(" ".join(cmd))
        with coq_lock():
            p = subprocess.run(cmd, capture_output=True, text=True)
            for attempt in range(2):    # a coqc killed for want of memory says "Killed"/"Error 137", not "Error:"
                if p.returncode == 0 or re.search(r"^Error|\bError:", p.stdout + p.stderr, re.M):
                    break
                time.sleep(10)
                p = subprocess.run(cmd[:6] + ["2"] + cmd[7:], capture_output=True, text=True)
        out = p.stdout + p.stderr
        for n in names:
            self.obligations.append("coq:" + n)
        if p.returncode == 0:
            self.discharged += ["coq:" + n for n in names]
            axioms = [l.strip() for l in out.splitlines() if l.strip() and not l.startswith(("COQ", "make", "Closed"))
                      and "Closed under" not in l and not l.startswith("Axioms:")]
            if "Axioms:" in out:
                self.assumptions.append("Print Assumptions reported axioms: " + "; ".join(axioms)[:1000])
            else:
                self.assumptions.append("Print Assumptions: every theorem of %s is closed under the global context" % target)
            if self.tier == "thorough" and target.startswith("Props/") and not getattr(self, "_coqchk_done", False):
                self._coqchk_done = True
                self.coqchk("Delb." + target[:-3].replace("/", "."))
            return True
        m = re.search(r'File "([^"]+)", line (\d+)', out)
        where = "?"
        if m:
            where = locate_lemma(os.path.join(COQ, m.group(1)) if not os.path.isabs(m.group(1)) else m.group(1),
                                 int(m.group(2)))
        self.broken.append(("proof", where, out[-1500:]))
        return False

    def coqchk(self, module, timeout=1500):
        """thorough tier: re-check the compiled property file and everything it depends on with the independent
        checker, and record the axioms it reports"""
        cmd = ["timeout", str(timeout), "coqchk", "-silent", "-o", "-Q", os.path.join(COQ, "theories"), "Delb", module]
        self.checker_cmds.append(" ".join(cmd))
        with coq_lock():
            p = subprocess.run(cmd, capture_output=True, text=True)
        out = (p.stdout + p.stderr)
        self.obligations.append("coqchk:" + module)
        if p.returncode == 0:
            self.discharged.append("coqchk:" + module)
            m = re.search(r"\* Axioms:(.*?)(\n\s*\*|\Z)", out, re.S)
            self.assumptions.append("coqchk -o %s: axioms: %s" % (module, (m.group(1).strip() if m else "?")[:600]))
            return True
        self.broken.append(("coqchk", module, out[-1500:]))
        return False

    # ---------------------------------------------------------------- evaluating model terms
    def coq_eval(self, name, requires, terms, chunk=200, timeout=600):
        """Each term must have type `list N`.  Returns a list of python lists of ints (None on failure)."""
        return coq_eval(name, requires, terms, chunk, timeout)

    # ---------------------------------------------------------------- bookkeeping
    def count(self, n=1, kind=None):
        self.cov["evaluations"] += n
        if kind:
            d = self.cov["distribution"]
            d[kind] = d.get(kind, 0) + n

    def nontrivial_case(self, key):
        self.nontrivial.add(hashlib.sha1(repr(key).encode()).hexdigest())

    def sample(self, case, limit=5):
        if len(self.cov["samples"]) < limit:
            self.cov["samples"].append(case)

    def mismatch(self, name, detail):
        """model and implementation differ (the tie is broken)"""
        if len([b for b in self.broken if b[0] == "correspondence" and b[1] == name]) < 3:
            self.broken.append(("correspondence", name, detail))

    def fail(self, what, case, classify=None):
        """the property itself fails on the implementation for `case`"""
        for f in self.findings:
            if f["status"] == "open" and classify and classify(f, case):
                self.known_hits[f["id"]] = self.known_hits.get(f["id"], 0) + 1
                return
        self.failing.append({"what": what, "case": case})

    # ---------------------------------------------------------------- verdict
    def finish(self, rule, level="proof", replay_open=None, explanation=None):
        """replay_open(finding) -> True if the listed finding still fails on the implementation"""
        lines = []
        for f in self.findings:
            if f["status"] != "open":
                continue
            still = True
            if replay_open is not None:
                try:
                    still = bool(replay_open(f))
                except Exception as e:  # the witness no longer runs as recorded
                    still = False
                    self.notes.append("known finding %s: witness raised %r" % (f["id"], e))
            if still:
                lines.append("KNOWN-FINDING: property=%s %s [%s]" % (self.prop, f["what"], f["id"]))
        for l in lines:
            print(l)
        status = 0
        replay = None
        os.makedirs(os.path.join(VERIF, "build", "replay"), exist_ok=True)
        if self.failing:
            status = 1
            smallest = min(self.failing, key=lambda c: len(json.dumps(c["case"], default=str)))
            replay = os.path.join(VERIF, "build", "replay", "%s_%d.json" % (self.prop, self.seed))
            with open(replay, "w") as f:
                json.dump({"property": self.prop, "kind": "failing-input", "what": smallest["what"],
                           "case": smallest["case"], "n_failing": len(self.failing),
                           "broken": [b[:2] for b in self.broken]}, f, indent=1, default=str)
            print("VIOLATION property=%s replay=%s" % (self.prop, replay))
        elif self.broken:
            status = 1
            replay = os.path.join(VERIF, "build", "replay", "%s_%d.json" % (self.prop, self.seed))
            with open(replay, "w") as f:
                json.dump({"property": self.prop, "kind": "obligation-broken",
                           "no_longer_checks": [{"kind": k, "name": n, "detail": d} for k, n, d in self.broken]},
                          f, indent=1, default=str)
            print("VIOLATION property=%s replay=%s no-failing-input-found" % (self.prop, replay))
        cov = dict(self.cov)
        cov["distinct_nontrivial"] = len(self.nontrivial)
        cov["rule"] = rule
        cov["obligations"] = len(self.obligations)
        cov["discharged"] = len(self.discharged)
        cov["obligation_names"] = self.obligations
        cov["checker_cmd"] = " && ".join(self.checker_cmds) or "none"
        cov["trusted_base"] = self.trusted
        cov["broken"] = [list(b[:2]) for b in self.broken]
        cov["known_finding_hits"] = self.known_hits
        cov["known_findings_printed"] = lines
        if explanation:
            cov["explanation"] = explanation
        if self.notes:
            cov["notes"] = self.notes
        if not cov["samples"]:
            cov["samples"] = ["(no case reached)"]
        ev = {"property_id": self.prop, "tier": self.tier, "seed": self.seed, "level": level,
              "coverage": cov, "assumptions": self.assumptions, "wall_s": round(time.time() - self.t0, 2),
              "violations": len(self.failing) + (1 if (self.broken and not self.failing) else 0)}
        os.makedirs(os.path.join(VERIF, "evidence"), exist_ok=True)
        with open(os.path.join(VERIF, "evidence", self.prop + ".json"), "w") as f:
            json.dump(ev, f, indent=1, default=str)
        return status


class coq_lock:
    """serialises translator runs and makes in /verif/coq (several checks may run at once); re-entrant within a process"""
    depth = 0

    def __enter__(self):
        import fcntl
        coq_lock.depth += 1
        self.f = None
        if coq_lock.depth > 1:
            return
        os.makedirs(os.path.join(VERIF, "build"), exist_ok=True)
        self.f = open(os.path.join(VERIF, "build", ".coqlock"), "w")
        fcntl.flock(self.f, fcntl.LOCK_EX)

    def __exit__(self, *a):
        import fcntl
        coq_lock.depth -= 1
        if self.f is not None:
            fcntl.flock(self.f, fcntl.LOCK_UN)
            self.f.close()


def tree_reductions(t):
    """one-step reductions of a content tree: drop one child anywhere, drop one attribute, hoist a child's children"""
    if t[0] != "tag":
        return
    ns, name, attrs, kids = t[1], t[2], t[3], t[4]
    for i in range(len(kids)):
        yield ("tag", ns, name, attrs, kids[:i] + kids[i + 1:])
    for i in range(len(attrs)):
        yield ("tag", ns, name, attrs[:i] + attrs[i + 1:], kids)
    for i, k in enumerate(kids):
        if k[0] == "tag":
            yield ("tag", ns, name, attrs, kids[:i] + list(k[4]) + kids[i + 1:])
        for r in tree_reductions(k):
            yield ("tag", ns, name, attrs, kids[:i] + [r] + kids[i + 1:])
        if k[0] == "text" and len(k[1]) > 1:
            yield ("tag", ns, name, attrs, kids[:i] + [("text", k[1][:len(k[1]) // 2])] + kids[i + 1:])
            yield ("tag", ns, name, attrs, kids[:i] + [("text", k[1][len(k[1]) // 2:])] + kids[i + 1:])


def shrink(case, what, reductions, failing_whats, rounds=10, width=60):
    """greedy batch shrinking.  reductions(case) yields smaller cases; failing_whats(cases) -> list of sets of
    failure descriptions, evaluated in one batch; keeps a reduction that still fails with `what`."""
    for _ in range(rounds):
        cands = list(reductions(case))[:width]
        if not cands:
            break
        res = failing_whats(cands)
        nxt = None
        for c, w in zip(cands, res):
            if what in w:
                nxt = c
                break
        if nxt is None:
            break
        case = nxt
    return case


_FORBIDDEN = re.compile(
    r"\b(Admitted|admit|Axiom|Axioms|Parameter|Parameters|Conjecture|Conjectures)\b|Admit Obligations|"
    r"Unset\s+(Guard Checking|Positivity Checking|Universe Checking)|bypass_check|-type-in-type|-impredicative-set")


def dependency_closure(vfile):
    """the .v files a file depends on (transitively, within the Delb development), itself included"""
    seen, todo = set(), [vfile]
    pat = re.compile(r"From\s+Delb\.([A-Za-z0-9_]+)\s+Require\s+(?:Import|Export)?\s*([A-Za-z0-9_\s]+)\.")
    pat2 = re.compile(r"Require\s+(?:Import|Export)?\s*((?:Delb\.[A-Za-z0-9_.]+\s*)+)\.")
    while todo:
        f = todo.pop()
        if f in seen or not os.path.exists(f):
            continue
        seen.add(f)
        with open(f, encoding="utf-8", errors="replace") as fh:
            text = fh.read()
        for m in pat.finditer(text):
            for mod in m.group(2).split():
                todo.append(os.path.join(COQ, "theories", m.group(1), mod + ".v"))
        for m in pat2.finditer(text):
            for q in m.group(1).split():
                parts = q.split(".")[1:]
                todo.append(os.path.join(COQ, "theories", *parts) + ".v")
    return sorted(seen)


def lint_coq(paths=None):
    """forbidden constructs in the given files (default: the whole development); comments are stripped first;
    Variable/Hypothesis must be inside a Section"""
    bad = []
    if paths is None:
        paths = [os.path.join(root, fn) for root, _, files in os.walk(os.path.join(COQ, "theories"))
                 for fn in files if fn.endswith(".v")]
    for path in paths:
        if True:
            with open(path, encoding="utf-8", errors="replace") as f:
                text = f.read()
            # strip (nested) comments and string literals
            out, depth, i, in_str = [], 0, 0, False
            while i < len(text):
                if not in_str and text.startswith("(*", i):
                    depth += 1
                    i += 2
                    continue
                if not in_str and depth and text.startswith("*)", i):
                    depth -= 1
                    i += 2
                    continue
                if depth == 0:
                    if text[i] == '"':
                        in_str = not in_str
                    elif not in_str:
                        out.append(text[i])
                    if text[i] == "\n":
                        out.append("\n") if in_str else None
                i += 1
            code = "".join(out)
            for m in _FORBIDDEN.finditer(code):
                bad.append("%s: %s" % (os.path.relpath(path, COQ), m.group(0)))
            sec = 0
            for line in code.splitlines():
                st = line.strip()
                if re.match(r"(Section|Module Type)\b", st):
                    sec += 1
                elif re.match(r"End\b", st) and sec:
                    sec -= 1
                elif sec == 0 and re.match(r"(Variable|Variables|Hypothesis|Hypotheses|Context)\b", st):
                    bad.append("%s: %s outside a Section" % (os.path.relpath(path, COQ), st[:60]))
    return bad


def locate_lemma(path, line):
    try:
        with open(path) as f:
            lines = f.read().splitlines()
    except OSError:
        return "%s:%d" % (path, line)
    for i in range(min(line, len(lines)) - 1, -1, -1):
        m = re.match(r"\s*(?:Theorem|Lemma|Example|Corollary|Definition|Fixpoint)\s+([A-Za-z0-9_']+)", lines[i])
        if m:
            return "%s (%s:%d)" % (m.group(1), os.path.relpath(path, COQ), line)
    return "%s:%d" % (os.path.relpath(path, COQ), line)


def load_findings():
    p = os.path.join(VERIF, "known_findings.json")
    if not os.path.exists(p):
        return []
    with open(p) as f:
        return json.load(f)["findings"]


# ------------------------------------------------------------------------------------------------
# Gallina literals

def cstr(s):
    """python str -> Gallina `str` literal"""
    if not s:
        return "[]"
    return "[" + ";".join(str(ord(c)) for c in s) + "]%N"


def cbool(b):
    return "true" if b else "false"


def clist(items):
    return "[" + "; ".join(items) + "]"


def cnode(t):
    """content tree as nested tuples -> Gallina ATree.node term
    ('tag', ns, name, [(ns, local, value)...], [kids]) | ('text', s) | ('comment', s) | ('pi', target, content)"""
    k = t[0]
    if k == "tag":
        attrs = clist("(%s, %s, %s)" % (cstr(a), cstr(b), cstr(c)) for a, b, c in t[3])
        return "(Tag %s %s %s %s)" % (cstr(t[1]), cstr(t[2]), attrs, clist(cnode(c) for c in t[4]))
    if k == "text":
        return "(Text %s)" % cstr(t[1])
    if k == "comment":
        return "(Comment %s)" % cstr(t[1])
    if k == "pi":
        return "(PI %s %s)" % (cstr(t[1]), cstr(t[2]))
    raise ValueError(k)


def enc_str(s):
    return [len(s)] + [ord(c) for c in s]


def enc_node(t):
    """the canonical encoding computed by Tree/Encode.v enc_node, on the python side"""
    k = t[0]
    if k == "tag":
        out = [0] + enc_str(t[1]) + enc_str(t[2]) + [len(t[3])]
        for a, b, c in t[3]:
            out += enc_str(a) + enc_str(b) + enc_str(c)
        out.append(len(t[4]))
        for c in t[4]:
            out += enc_node(c)
        return out
    if k == "text":
        return [1] + enc_str(t[1])
    if k == "comment":
        return [2] + enc_str(t[1])
    if k == "pi":
        return [3] + enc_str(t[1]) + enc_str(t[2])
    raise ValueError(k)


def dec_node(l, i=0):
    def ds(i):
        n = l[i]
        return "".join(chr(c) for c in l[i + 1:i + 1 + n]), i + 1 + n
    k = l[i]
    i += 1
    if k == 0:
        ns, i = ds(i)
        name, i = ds(i)
        na = l[i]
        i += 1
        attrs = []
        for _ in range(na):
            a, i = ds(i)
            b, i = ds(i)
            c, i = ds(i)
            attrs.append((a, b, c))
        nk = l[i]
        i += 1
        kids = []
        for _ in range(nk):
            c, i = dec_node(l, i)
            kids.append(c)
        return ("tag", ns, name, attrs, kids), i
    if k == 1:
        s, i = ds(i)
        return ("text", s), i
    if k == 2:
        s, i = ds(i)
        return ("comment", s), i
    if k == 3:
        t, i = ds(i)
        c, i = ds(i)
        return ("pi", t, c), i
    raise ValueError("bad encoding")


# ------------------------------------------------------------------------------------------------
# running terms through coqc

_num = re.compile(r"%[NZ]|%nat")


def parse_coq_value(text):
    """'[[1; 2]; []]' -> python lists of ints"""
    text = _num.sub("", text).replace(";", ",")
    text = re.sub(r"\s+", "", text)
    return json.loads(text) if text else None


def _run_chunk(args):
    path, timeout = args
    p = subprocess.run(["timeout", str(timeout), "coqc", "-Q", os.path.join(COQ, "theories"), "Delb", path],
                       capture_output=True, text=True, cwd=os.path.dirname(path))
    return p.returncode, p.stdout, p.stderr


def _killed(rc, out, err):
    """a process that ended without Coq saying why (out-of-memory kill, shell timeout under load): not a verdict on
    the development, so it is run again rather than reported"""
    return rc != 0 and "Error" not in (out + err)


def workers():
    """parallel coqc/make jobs: bounded by the cores and by the memory that is free now (a coqc evaluating a case file
    takes about 0.5-1 GB); several checks may be running side by side"""
    n = min(16, os.cpu_count() or 4)
    try:
        with open("/proc/meminfo") as f:
            avail = int(re.search(r"MemAvailable:\s+(\d+)", f.read()).group(1)) // (1024 * 1024)
        n = max(2, min(n, avail // 2))
    except Exception:
        pass
    return n


def coq_eval(name, requires, terms, chunk=200, timeout=600):
    """terms: Gallina terms of type `list N`; evaluated with vm_compute, `chunk` per file, files in parallel."""
    from concurrent.futures import ThreadPoolExecutor
    os.makedirs(RUN, exist_ok=True)
    paths = []
    for ci in range(0, len(terms), chunk):
        path = os.path.join(RUN, "%s_%d.v" % (name, ci // chunk))
        with open(path, "w") as f:
            f.write(requires + "\nImport ListNotations.\nSet Printing Depth 10000000.\nSet Printing Width 1000000.\n")
            f.write("Definition cases : list (list N) := [\n" + ";\n".join(terms[ci:ci + chunk]) + "].\n")
            f.write("Eval vm_compute in cases.\n")
        paths.append(path)
    results = []
    with ThreadPoolExecutor(max_workers=workers()) as ex:
        outs = list(ex.map(_run_chunk, [(p, timeout) for p in paths]))
    for attempt in range(2):        # killed without a Coq error: again, one at a time
        for i, o in enumerate(outs):
            if _killed(*o):
                time.sleep(5 * (attempt + 1))
                outs[i] = _run_chunk((paths[i], timeout))
    # a case file that failed may have read a .vo another check was just rebuilding: once more, holding the build lock
    # (an error of the development itself fails again and is reported)
    if any(o[0] != 0 for o in outs):
        with coq_lock():
            for i, o in enumerate(outs):
                if o[0] != 0:
                    outs[i] = _run_chunk((paths[i], timeout))
    for (rc, out, err), path, ci in zip(outs, paths, range(0, len(terms), chunk)):
        n = len(terms[ci:ci + chunk])
        if rc != 0:
            results += [None] * n
            sys.stderr.write("coq_eval %s failed: %s\n" % (path, (out + err)[-800:]))
            continue
        m = re.search(r"^\s*= (.*)\n\s*: list \(list N\)", out, re.S | re.M)
        if not m:
            results += [None] * n
            continue
        vals = parse_coq_value(m.group(1))
        results += vals if len(vals) == n else [None] * n
        for ext in (".v", ".vo", ".vok", ".vos", ".glob"):
            try:
                os.remove(path[:-2] + ext)
            except OSError:
                pass
        try:
            os.remove(os.path.join(os.path.dirname(path), "." + os.path.basename(path)[:-2] + ".aux"))
        except OSError:
            pass
    return results


def main(run_fn, prop):
    import argparse
    ap = argparse.ArgumentParser()
    ap.add_argument("--tier", default=os.environ.get("VERIF_TIER", "quick"))
    ap.add_argument("--seed", type=int, default=int(os.environ.get("VERIF_SEED", "0")))
    ap.add_argument("--replay")
    a = ap.parse_args()
    ctx = Ctx(prop, a.tier if a.tier in ("quick", "thorough") else "quick", a.seed)
    sys.exit(run_fn(ctx, a))
