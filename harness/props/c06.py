"""C06 - XPath queries select what XPath 1.0 says they select.

  regen   Gen/GenXEval.v (function table with translated bodies, node-type map, Axis generators) from /repo
  build   Props/C06.vo
  (a)     XPath/Ref.v (evaluated by coqc) against lxml's XPath engine: what makes Ref.v "what XPath 1.0 says"
  (b)     XPath/Eval.v against NodeBase.xpath: result *lists* as positions, exception classes
  (c)     direct search: NodeBase.xpath against lxml on the expression rewritten by the three deviations, and against
          Ref.v (deviate e); in_subset is decided in Coq; a difference inside in_subset is a VIOLATION, outside it must
          fall into an open finding's class
  (d)     in_document_order against sorting by position
  (e)     CSS: selectors translated by the real _css_to_xpath, parsed by the real parser, in_subset decided in Coq,
          results compared with cssselect's translation run on lxml's engine (cssselect itself stays an oracle)
"""
import json
import os
import re
import sys

import common
import impl
from impl import Document, TagNode, TextNode, altered_default_filters, no_gc
import xq
import xpath_ast

from lxml import etree

P_NS = "u"
D_NS = "d"

FIXED_DOCS = [
    '<r><a k="1">t<b/>u<!--c--><b k="2" j="">v</b><?p q?></a><a/><c><a k="1"><b/></a>w</c></r>',
    '<r xmlns:p="u"><p:a k="x"><b p:k="x"/>t</p:a><a><p:b/>s<b/></a></r>',
    '<r>x<a/>y<a>z</a><!--1--><!--2--><?p1 a?><?p2 b?></r>',
    '<r xmlns="d" xmlns:p="u"><a k="1">t<b/></a><x xmlns=""><a/></x><p:a/></r>',
    '<r xmlns="u" xmlns:p="u"><a k="1" p:k="2"/><p:a k=""/></r>',
    # matches under several parents, nested same-name elements
    '<r><a k="1"><b/><a><b k="2"/><b/></a><b k="1"/></a><c><a/><b/><a k="2"><b/></a></c></r>',
    # the default namespace is also bound to a prefix: no-namespace and default-namespace attributes (class j)
    '<r xmlns="u" xmlns:p="u"><a p:k="1"/><a k="1" p:k="2"/><b p:k=""/><c xmlns=""><a p:k="1"/></c></r>',
    # a default namespace with un-namespaced islands: what an un-prefixed name addresses depends on `namespaces`
    '<r xmlns="d" xmlns:p="u"><a k="1"/><n xmlns=""><a/><b k="1"><a k="2"/></b></n><b><a/><c xmlns=""><a k="1"/></c></b></r>',
]


# expressions run on every fixed document whatever the seed: shapes a past change of the code got wrong
FIXED_EXPRS = [
    "//a[not(position()=1)]", "//b[not(position()=last())]", "//*[boolean(position()=2)]", ".//a[not(position()=1)]",
    "descendant-or-self::node()/b[not(position()=1)]", "//a[not(position()=last())][1]", "//b[position()=1 or not(@k)]",
    "//a[@k][last()]", "a[@k][position()<last()]", "*[@k or @j][2]", "//*[@k][not(position()=1)]",
    "descendant::a/b", "descendant::b/a[@k]", "//text()[contains(@k,'')]", "//a[@k<2]", "//a[@k=1]", "//*[@k=(1=1)]",
    "preceding::*[1]", "following::*[2]", "ancestor-or-self::*[last()]", "..", "/.",
    # ancestor axes taken from several context nodes, then a child / self step, in a single path: each node once
    "//b/ancestor::node()/*", "//a/ancestor-or-self::node()/r", "//*/ancestor::node()/self::*", "//b/ancestor::*/..",
    "//b/ancestor-or-self::node()/child::*", "//*/parent::node()/*", "//text()/ancestor::node()/*", "//a/ancestor::node()/r/*",
    "//b/../../*", "//*/ancestor-or-self::*/self::*",
    # and / or / comparison precedence without parentheses (`or` binds weakest, then `and`, then = !=, then < <= > >=)
    "//*[@k or @j and @zz]", "//*[@zz and @j or @k]", "//*[@k='1' or @k='2' and @j]", "//*[@j and @zz or @k='1' or @k='x']",
    "//*[position()=1 or @k and @j='x']", "//*[@k=1 or @k<2 and @j]", "//*[@zz or @j or @k]", "//*[@k and @j and @zz or position()=2]",
    "//*[@k or not(@j) and @zz]", "//*[@k='1' or position()<2 and position()>1]", "//*[(@j='x') = (@k='x') or @zz]",
    "//a[@k or @j and @zz][1]", "//b[@zz and @k or @k!='1' and @j]",
    # the root node as context node of every axis, followed by a step (the root node itself is never in a result)
    "/ancestor-or-self::node()/child::*", "/ancestor-or-self::node()/*/*", "../ancestor-or-self::node()/descendant::b",
    "/ancestor::node()/*", "/parent::node()/*", "/self::node()/*", "/descendant-or-self::node()/a", "/following::*",
    "/preceding::*", "/following-sibling::node()", "/preceding-sibling::node()/*", "/child::*/ancestor-or-self::node()/*",
    "ancestor-or-self::node()/*[1]", "ancestor::node()[last()]/*",
]


def gen_doc(rng):
    def elem(depth, top=False):
        name = rng.choice(["a", "a", "b", "b", "c"]) if not top else "r"
        pre = "p:" if rng.random() < 0.15 else ""
        decl = ""
        if top:
            decl = ' xmlns:p="%s"' % P_NS
            if rng.random() < 0.4:
                decl += ' xmlns="%s"' % D_NS
            if rng.random() < 0.1:
                decl = ' xmlns:p="%s" xmlns="%s"' % (P_NS, P_NS)
        elif rng.random() < 0.12:
            decl = ' xmlns="%s"' % rng.choice(["", "", D_NS, "e"])
        attrs = ""
        if rng.random() < 0.45:
            attrs += ' k="%s"' % rng.choice(["1", "2", "x", "", "1", " 2 ", "1.50", ".5", "-1", "02", "1.", "1 0"])
        if rng.random() < 0.25:
            attrs += ' j="%s"' % rng.choice(["", "1", "x"])
        if rng.random() < 0.15:
            attrs += ' p:k="%s"' % rng.choice(["1", "x"])
        kids = []
        last_text = False
        for _ in range(rng.choice([0, 1, 2, 2, 3, 3, 4]) if depth > 0 else rng.choice([0, 0, 1])):
            q = rng.random()
            if q < 0.25 and not last_text:
                kids.append(rng.choice(["t", "u", "x y", "1"]))
                last_text = True
                continue
            last_text = False
            if q < 0.33:
                kids.append("<!--%s-->" % rng.choice(["c", "", "1"]))
            elif q < 0.4:
                kids.append("<?%s %s?>" % (rng.choice(["p", "q"]), rng.choice(["a", "b"])))
            elif depth > 0:
                kids.append(elem(depth - 1))
        return "<%s%s%s%s>%s</%s%s>" % (pre, name, decl, attrs, "".join(kids), pre, name) if kids else \
            "<%s%s%s%s/>" % (pre, name, decl, attrs)
    return elem(3, True)


# ---------------------------------------------------------------- expressions (structural, rendered twice)
AXES = ["child", "descendant", "descendant-or-self", "self", "parent", "ancestor", "ancestor-or-self",
        "following-sibling", "preceding-sibling", "following", "preceding"]
TESTS = ["a", "b", "c", "*", "*", "p:a", "p:b", "p:*", "text()", "comment()", "processing-instruction()",
         "processing-instruction('p')", "node()", "node()"]


def gen_pred(rng, depth=0, wild=True):
    """wild=False: only constructs of the proven subset's static part"""
    q = rng.random()
    if q < .16:
        return str(rng.randint(1, 3))
    if q < .26:
        return "position()%s%d" % (rng.choice(["=", "!=", ">", "<", ">=", "<="]), rng.randint(1, 3))
    if q < .31:
        return rng.choice(["position()=last()", "position()!=last()", "last()>2"])
    if q < .45:
        return "@" + rng.choice(["k", "k", "j", "p:k"])
    if q < .57:
        return "@%s=%s" % (rng.choice(["k", "j", "p:k"]), rng.choice(["'1'", "'2'", "'x'", '"1"']))
    if q < .63:
        return "%s(@%s,'%s')" % (rng.choice(["contains", "starts-with"]), rng.choice(["k", "j"]), rng.choice(["1", "", "x"]))
    if q < .69 and depth < 2:
        return "not(%s)" % gen_pred(rng, depth + 1, wild)
    if q < .72 and depth < 2:
        return "boolean(%s)" % gen_pred(rng, depth + 1, wild)
    if q < .82 and depth < 2:
        if rng.random() < .35:
            # three operands, mixed operators, no parentheses: precedence decides
            return "%s %s %s %s %s" % (gen_pred(rng, 2, wild), rng.choice(["and", "or"]), gen_pred(rng, 2, wild),
                                       rng.choice(["and", "or"]), gen_pred(rng, 2, wild))
        return "%s %s %s" % (gen_pred(rng, depth + 1, wild), rng.choice(["and", "or"]), gen_pred(rng, depth + 1, wild))
    if q < .85:
        return "concat('a','%s')='a1'" % rng.choice(["1", "2"])
    if not wild:
        return "@k"
    # constructs of the excluded classes
    if rng.random() < .55:
        # comparisons with the XPath 1.0 conversions (inside the proven subset since 6d4104b / 0f8d6d4)
        return rng.choice([
            "@k!='1'", "@j!=''", "@k=''", "@k=@j", "@j=@k", "@k!=@j", "@k<2", "@k>='1'", "@k<=@j", "@k>1.5" if False else "@k>1",
            "@k=1", "@k!=2", "position()='1'", "'2'=2", "'1'<@k", "@k<'10'", "not(@k)", "boolean(@j)", "not(@j)",
            "@k=2 or @j", "position()<@k", "last()=@k", "(1=1)=(@k='1')", "'x'!=(1=2)", "@k>=0",
            "@k=(1=1)", "@j!=(1=2)", "(1=1)=@k", "@k<(1=1)", "(1=2)>=@j", "position()>(@k=@j)",
            "contains(position(),'1')", "starts-with(1,'1')", "contains(@k,1)", "starts-with(@k=1,'t')", "contains(last(),position())",
        ])
    return rng.choice([
        "last()", "position()",                                   # (a)
        "2 and position()=last()", "'x' or @k",                   # (b)
        "not(@k)", "boolean(@j)", "not(@j)",                      # (c)
        "@k!='1'", "@j!=''",                                      # (d)
        "@k=''", "@k=@j", "@j=@k", "@k!=@j",                      # (e)
        "@k<2", "@k>='1'",                                        # (f)
        "text()='t'", "text()=''",                                # (i)
        "concat(1,'a')='1a'", "concat(@k,position()=1)='1true'",  # concat: agrees, outside the proven subset
        "@p:k='1'", "@q:k",                                       # (j) / unbound prefix
    ])


def gen_step(rng, wild):
    q = rng.random()
    if q < .07:
        return ("self", "node()", [], ".")
    if q < .13:
        return ("parent", "node()", [], "..")
    ax = rng.choice(AXES + ["child"] * 8)
    t = rng.choice(TESTS)
    if q < .25:
        # stacked predicates: an earlier one removes candidates, a later one looks at the context size / position
        first = rng.choice(["@k", "@k='1'", "not(@k='1')", "@j or @k", "position()>1", "not(@j)" if wild else "@k"])
        later = rng.choice(["last()", "position()=last()", "position()<last()", "position()!=last()", "last()>1",
                            "not(position()=last())", "1", "2"])
        preds = [first, later] if rng.random() < .7 else [first, rng.choice(["@j", "position()>1", "@k"]), later]
        t = rng.choice(["a", "b", "*", "*", "node()", t])
        return (ax, t, preds, None)
    preds = [gen_pred(rng, 0, wild) for _ in range(rng.choice([0, 0, 0, 1, 1, 2]))]
    return (ax, t, preds, None)


def gen_path(rng, wild):
    lead = rng.choice(["", "", "", "/", "//"])
    n = rng.randint(1, 3)
    steps = [(lead, gen_step(rng, wild))]
    for _ in range(n - 1):
        steps.append((rng.choice(["/", "/", "//"]), gen_step(rng, wild)))
    return steps


def gen_expr(rng, wild=True):
    paths = [gen_path(rng, wild)]
    if rng.random() < .15:
        paths.append(gen_path(rng, wild))
    return paths


def plain_safe(e):
    """a fixed expression none of the three deviations applies to (given no default namespace in effect): lxml's result
    for the very same string is what delb must return"""
    return not re.search(r"following::|preceding::|node\(\)|\.\.|/\.|^\.|text\(\)=|@p:", e)


def render_delb(paths):
    out = []
    for steps in paths:
        s = ""
        for sep, (ax, t, preds, abbr) in steps:
            s += sep
            if abbr:
                s += abbr
            else:
                s += (ax + "::" if ax != "child" else "") + t + "".join("[%s]" % p for p in preds)
        out.append(s)
    return " | ".join(out)


NODE_DEV = "node()[self::* or not(parent::node())]"      # deviation 3: an element or the root node
POSITIONAL = re.compile(r"position\(\)|last\(\)|^\d+$")


def render_lxml(paths, default_ns):
    """the expression with the three deviations written out in XPath 1.0, or None where that is not possible
    (a positional predicate on an extended following/preceding step)"""
    out = []
    for steps in paths:
        alts = [""]
        for sep, (ax, t, preds, abbr) in steps:
            if sep == "//":
                sep = "/descendant-or-self::" + NODE_DEV + "/"
            tt = t
            if t == "node()":
                tt = NODE_DEV
            elif re.match(r"^[abc]$", t) and default_ns:
                tt = "D0:" + t                                # deviation 1
            ps = "".join("[%s]" % p for p in preds)
            if ax in ("following", "preceding"):              # deviation 2
                if any(POSITIONAL.search(p) for p in preds):
                    return None
                other = "descendant" if ax == "following" else "ancestor"
                t2 = "*" if (t == "node()" and ax == "preceding") else tt
                # the extension concerns nodes of the tree: the root node has no following nodes in delb either
                guard = "self::node()[parent::node()]/" if ax == "following" else ""
                variants = [sep + ax + "::" + tt + ps, sep + guard + other + "::" + t2 + ps]
            else:
                variants = [sep + ax + "::" + tt + ps]
            alts = [a + v for a in alts for v in variants]
            if len(alts) > 8:
                return None
        out += alts
    return " | ".join(out)


# ---------------------------------------------------------------- static features -> finding classes
def features(t):
    """syntactic over-approximation of the excluded classes, on the tuple AST of harness/xpath_ast.py"""
    f = set()

    def ty(e):
        k = e[0]
        if k == "val":
            return "num" if isinstance(e[1], int) else "str"
        if k == "attrval":
            return "attr"
        if k == "hasattr":
            return "bool"
        if k == "op":
            return "bool"
        if k == "fn":
            return {"position": "num", "last": "num", "concat": "str", "text": "text"}.get(e[1], "bool")
        return "?"

    def walk(e, top=False):
        k = e[0]
        if top and ty(e) not in ("bool", "num", "str"):
            f.add("a")
        if k in ("attrval", "hasattr"):
            f.add("j")      # prefixed: finds the plain attribute; un-prefixed: finds {d}l (badd57c); decided in Coq per candidate
        if k == "op":
            o, l, r = e[1], e[2], e[3]
            tl, tr = ty(l), ty(r)
            if o in ("and_", "or_"):
                if "attr" in (tl, tr):
                    f.add("b")
            else:
                if "text" in (tl, tr):
                    f.add("i")
            walk(l)
            walk(r)
        if k == "fn":
            if e[1] == "text":
                f.add("i")
            for a in e[2]:
                walk(a)
    for p in t[1]:
        maydoc = p[1]          # may the node-set contain the document node?
        for s in p[2]:
            ax, tt = s[1][1], s[2]
            typetest = tt[0] in ("typetest", "pitest")
            wrong = typetest and tt != ("typetest", "TagNode")
            if maydoc:
                maydoc = ax in ("self", "descendant_or_self") and typetest
            elif ax in ("parent", "ancestor", "ancestor_or_self"):
                if typetest:
                    maydoc = True
                    pass
        for s in p[2]:
            if s[1][1] not in xpath_ast.AXES:
                f.add("l")
            for e in s[3]:
                walk(e, True)
    return f


def classify(finding, case):
    return finding.get("cls") in case.get("classes", [])


# ---------------------------------------------------------------- the run
def lxml_eval(tree, ctx_node, expr, nsdict):
    try:
        res = ctx_node._etree_obj.xpath(expr, namespaces=nsdict or None)
    except Exception:      # noqa: BLE001
        return None
    if not isinstance(res, list):
        return None
    out = []
    for x in res:
        p = tree.lxml_pos(x)
        if p is None:
            return None
        out.append(p)
    return sorted(set(out))


def run(ctx, args):
    rng = ctx.rng
    quick = ctx.tier == "quick"
    ctx.regen(["GenXEval.v"])
    ctx.build("Props/C06.vo")
    ctx.trusted.append("lxml/libxml2 XPath engine as the reference Ref.v is validated against; cssselect as CSS translator (oracle)")

    n_docs = 22 if quick else 90
    per_doc = 80 if quick else 250
    docs = FIXED_DOCS + [gen_doc(rng) for _ in range(n_docs)]
    preamble = []
    cases = []
    terms = []
    keep = []
    nsmaps = {}
    with no_gc():
        for di, src in enumerate(docs):
            d = Document(src)
            keep.append(d)
            tree = xq.Tree(d.root)
            preamble.append("Definition T%d : itree := %s." % (di, tree.coq()))
            has_default = bool(d.root._etree_obj.nsmap.get(None))
            fixed = []
            if di < len(FIXED_DOCS):
                deep = [x for x in tree.nodes if len(x[0]) >= 3] or tree.nodes
                fixed = [(fe, tree.nodes[0]) for fe in FIXED_EXPRS] + [(fe, deep[len(deep) // 2]) for fe in FIXED_EXPRS]
            for ci in range((per_doc if di >= len(FIXED_DOCS) else per_doc * 2) + len(fixed)):
                wild = rng.random() < 0.45
                paths = gen_expr(rng, wild)
                e = render_delb(paths)
                pos, node, _ = rng.choice(tree.nodes)
                um = rng.choice([None, None, {"p": P_NS}, {"p": P_NS}, {"p": P_NS, "": D_NS}, {"p": D_NS}, {}, {}])
                if ci < len(fixed):
                    e, (pos, node, _) = fixed[ci]
                    paths = None
                    um = {"p": P_NS} if di != 0 else None
                try:
                    from _delb.xpath import parse
                    ast = parse(e)
                    tup = xpath_ast.to_tuple(ast)
                except Exception as ex:       # noqa: BLE001
                    ctx.count(1, "unparsable:" + type(ex).__name__)
                    continue
                eff = xq.effective_nsmap(node, um)
                key = json.dumps(eff)
                if key not in nsmaps:
                    nsmaps[key] = "M%d" % len(nsmaps)
                    preamble.append("Definition %s : nsmap := %s." % (nsmaps[key], xq.coq_nsmap(eff)))
                real = xq.real_outcome(lambda: node.xpath(e, namespaces=um), tree)
                order = None
                if real[0] == "ok":
                    try:
                        order = ("ok", [tree.pos_of(n) for n in node.xpath(e, namespaces=um).in_document_order()])
                    except NotImplementedError:
                        order = ("crash", "NotImplementedError")
                    except Exception as ex:   # noqa: BLE001
                        order = ("crash", type(ex).__name__)
                # lxml, plain reading and with the deviations written out
                lx_plain = lx_dev = None
                if not isinstance(node, TextNode):
                    nsd = {k: v for k, v in eff if k and v}
                    lx_plain = lxml_eval(tree, node, e, nsd)
                    dflt = dict(eff).get("", "")
                    de = render_lxml(paths, dflt) if paths is not None else None
                    if paths is None and not dflt and plain_safe(e):
                        lx_dev_fixed = lx_plain
                    else:
                        lx_dev_fixed = None
                    if de is not None:
                        nsd2 = dict(nsd)
                        if dflt:
                            nsd2["D0"] = dflt
                        lx_dev = lxml_eval(tree, node, de, nsd2)
                    if lx_dev is None and lx_dev_fixed is not None:
                        lx_dev = lx_dev_fixed
                cases.append({"doc": src, "expr": e, "ctx": list(pos), "namespaces": um, "real": real, "order": order,
                              "lx_plain": lx_plain, "lx_dev": lx_dev, "tuple": tup, "kind": type(node).__name__,
                              "wild": wild})
                terms.append("run_case T%d %s %s %s" % (di, nsmaps[key], xpath_ast.coq_ast(tup), xq.coq_pos(pos)))
    req = xq.REQ + "\n".join(preamble) + "\n"
    results = xq.coq_eval_retry(ctx, "c06_cases", req, terms, chunk=150)

    n_a = n_b = n_c = n_sub = 0
    for case, r in zip(cases, results):
        if r is None:
            ctx.mismatch("Run.run_case", "coqc could not evaluate the model on %s" % json.dumps(case["expr"]))
            continue
        m = xq.dec_case(r)
        real = case["real"]
        small = {k: case[k] for k in ("doc", "expr", "ctx", "namespaces")}
        ctx.count(1, "ctx:" + case["kind"])
        ctx.count(0, None)
        # ---- (a) Ref.v vs lxml
        if case["lx_plain"] is not None and m["ref"][0] == "ok":
            n_a += 1
            mine = sorted(set(p for p in m["ref"][1] if p != ()))
            if mine != [tuple(p) for p in case["lx_plain"]]:
                ctx.mismatch("Ref.ref_eval vs lxml XPath", json.dumps(dict(small, ref=mine, lxml=case["lx_plain"])))
        # ---- (b) Eval.v vs NodeBase.xpath
        n_b += 1
        ev = m["eval"]
        same = (ev[0] == real[0]) and (ev[1] == real[1] if ev[0] != "ok" else [tuple(p) for p in ev[1]] == real[1])
        if not same and not (ev[0] == real[0] == "crash" and "l" in features(case["tuple"])):
            ctx.mismatch("Eval.eval vs NodeBase.xpath", json.dumps(dict(small, model=ev, real=real), default=str))
        if real[0] != "ok" or len(real[1]) > 0:
            ctx.nontrivial_case((case["expr"], case["doc"], tuple(case["ctx"])))
        if real[0] == "ok" and len(set(real[1])) != len(real[1]):
            ctx.fail("a node occurs more than once in a result", dict(small, real=real))
        # ---- (d) in_document_order
        if case["order"] is not None and m["order"][0] != "none":
            od = m["order"]
            if (od[0], od[1] if od[0] != "ok" else [tuple(p) for p in od[1]]) != (case["order"][0], case["order"][1]):
                ctx.mismatch("Eval.in_document_order vs QueryResults.in_document_order",
                             json.dumps(dict(small, model=od, real=case["order"]), default=str))
            if case["order"][0] == "ok" and case["order"][1] != sorted(real[1]):
                ctx.fail("in_document_order does not list the tag results in document order", small)
        # ---- (c) the property itself on the implementation
        cls = sorted(features(case["tuple"]))
        expected = None
        if case["lx_dev"] is not None:
            expected = [tuple(p) for p in case["lx_dev"]]
        elif m["dev"][0] == "ok" and not isinstance(case["kind"], type(None)) and case["lx_plain"] is None and case["kind"] == "TextNode":
            expected = sorted(set(m["dev"][1]))
        elif m["dev"][0] == "ok" and m["subset"]:
            expected = sorted(set(m["dev"][1]))
        if m["subset"]:
            n_sub += 1
            ctx.count(0)
            # the theorem's claim, observed on the implementation
            if real[0] != "ok" or len(set(real[1])) != len(real[1]) or sorted(real[1]) != sorted(set(p for p in m["dev"][1] if p != ())):
                ctx.fail("inside in_subset the implementation differs from ref_eval (deviate e)",
                         dict(small, real=real, ref=m["dev"]))
        if expected is not None:
            n_c += 1
            ok = real[0] == "ok" and len(set(real[1])) == len(real[1]) and sorted(real[1]) == [p for p in expected if p != ()]
            if not ok:
                fcase = dict(small, real=real, expected=expected, classes=cls)
                if m["subset"]:
                    ctx.fail("the implementation differs from the XPath 1.0 engine beyond the established deviations",
                             fcase)
                else:
                    ctx.fail("the implementation differs from the XPath 1.0 engine beyond the established deviations",
                             fcase, classify)
        ctx.sample({"expr": case["expr"], "ctx": case["ctx"], "doc": case["doc"][:80], "result": real[1][:4] if real[0] == "ok" else real[1]})
    ctx.cov["distribution"]["compared_ref_vs_lxml"] = n_a
    ctx.cov["distribution"]["compared_eval_vs_impl"] = n_b
    ctx.cov["distribution"]["compared_impl_vs_engine_mod_deviations"] = n_c
    ctx.cov["distribution"]["inside_in_subset"] = n_sub
    ctx.cov["distribution"]["trees"] = len(docs)

    css(ctx, keep[:12] if quick else keep[:60])
    css_model(ctx)
    order_search(ctx, keep if quick else keep[:80])
    state_search(ctx)
    for f in ctx.findings:
        if f["status"] == "fixed":
            ctx.count(1, "fixed-finding-regression-case")
            if replay_open(f):
                ctx.fail("regression of fixed finding %s" % f["id"], f["witness"])

    return ctx.finish(
        rule="generated documents (namespaces, default-namespace resets, mixed content, comments, PIs) x every kind of "
             "context node x expressions from the supported grammar (depth <= 3 steps, stacked predicates, unions) x "
             "prefix mappings; Ref.v vs lxml, Eval.v vs NodeBase.xpath (lists and exception classes), implementation vs "
             "lxml modulo the three deviations; in_subset decided in Coq",
        replay_open=replay_open,
        explanation="a difference inside in_subset (decided by the Coq definition) is a VIOLATION; outside it, it must "
                    "fall into the class of an open finding")


# ---------------------------------------------------------------- state that survives between calls
STATE_DOCS = [
    '<r xmlns:p="u" xmlns:q="v"><p:a k="1" p:k="1"/><q:a q:k="1"/><a p:k="2" q:k="1"/><p:b><q:b p:k="1"/><p:a/></p:b><q:b k="2" q:k="2"/></r>',
    '<r xmlns="u" xmlns:q="v"><a/><q:a><a/></q:a><n xmlns=""><a/></n></r>',
]
STATE_EXPRS = ["p:*", "//p:*", "descendant::p:*[1]", "p:a", "//p:a", "//p:b/p:*", "//q:* | //p:a", "*", "//*[@k]", "a", "//a",
               "//p:*[not(position()=1)]", "descendant::p:b/*",
               "//*[@p:k]", "//*[@p:k='1']", "//*[starts-with(@p:k,'1')]", "//*[not(@p:k)]", "//*[@p:k=@q:k]", "//*[@q:k or @p:k='2']",
               "*[@p:k][1]", "//*[contains(@q:k,'1') and not(@p:k)]"]
STATE_MAPS = [{"p": "u"}, {"p": "v"}, {"p": "u", "q": "v"}, {"p": "v", "q": "u"}, {"p": "u", "": "v"}, {"p": "v", "": "u"},
              {"p": "u"}, None, {}, {"p": "x"}]


def state_search(ctx):
    """parse() is cached: nothing an evaluation learns may stick to the parsed expression.  The same expression strings are
    evaluated again and again in this process with different `namespaces` (the same prefix bound to another URI, a
    prefix added or dropped, another default namespace), from different context nodes of different documents,
    interleaved; and again after the tree was edited.  Every single result is compared with lxml's for that call."""
    from impl import new_tag_node
    rng = ctx.rng
    docs = [impl.Document(d) for d in STATE_DOCS]
    n = 0

    def one(d, node, e, um, when):
        nonlocal n
        tree = xq.Tree(d.root)
        eff = xq.effective_nsmap(node, um)
        nsd = {k: v for k, v in eff if k and v}
        dflt = dict(eff).get("", "")
        le = e
        if dflt:                                        # deviation 1: an un-prefixed name addresses the default namespace
            le = re.sub(r"(^|::|/|\| )([abn])\b(?![(:])", r"\1D0:\2", e)
            nsd["D0"] = dflt
        lx = lxml_eval(tree, node, le, nsd)
        if lx is None:
            return
        real = xq.real_outcome(lambda: node.xpath(e, namespaces=um), tree)
        n += 1
        if real[0] != "ok" or sorted(real[1]) != [tuple(p) for p in lx] or len(set(real[1])) != len(real[1]):
            ctx.fail("a repeated evaluation of the same expression string differs from the XPath 1.0 engine for this call's "
                     "namespaces / tree", {"doc": safe_str(d.root), "expr": e, "namespaces": um, "ctx": list(tree.pos_of(node)),
                                           "when": when, "real": real, "expected": lx})

    # fixed order first (the smallest failing history), then shuffled
    plan = [(di, e, mi) for e in STATE_EXPRS for mi in range(len(STATE_MAPS)) for di in range(len(docs))]
    extra = list(plan)
    rng.shuffle(extra)
    for di, e, mi in plan + extra[:300]:
        d = docs[di]
        node = d.root if (mi + di) % 3 else d.root[0]
        if not isinstance(node, TagNode):
            node = d.root
        one(d, node, e, STATE_MAPS[mi], "repeated")
    # the tree changes between two evaluations of the same string
    for d in docs:
        for e in STATE_EXPRS:
            um = {"p": "u", "q": "v"}
            one(d, d.root, e, um, "before-edit")
        with altered_default_filters():
            d.root.append_children(new_tag_node("a", namespace="u"), new_tag_node("b", namespace="v"))
            first = d.root[0]
            if isinstance(first, TagNode):
                first.detach()
        for e in STATE_EXPRS:
            um = {"p": "u", "q": "v"}
            one(d, d.root, e, um, "after-edit")
    ctx.count(n, "state:repeated-evaluations")


# ---------------------------------------------------------------- in_document_order, directly on the implementation
NESTED_DOCS = [
    '<r><a id="o"><b>1</b><a id="i"><b>2</b></a><b>3</b></a></r>',
    '<r><a><a><a><b k="1"/></a><b/></a><c/><b k="2"/></a><b/><a><b/></a></r>',
    '<r xmlns:p="u"><b><a/><b><a k="1"/><b><a/></b><a/></b><a k="2"/></b></r>',
]


def order_search(ctx, docs):
    """`in_document_order()` must list the tag results sorted by document position, whatever order the evaluation
    produced them in: paths that descend once and then proceed along child / self steps on trees where elements of one
    name are nested (the children of an outer match that follow an inner match are found first), the same through
    css_select (`X > Y`, `X Y`), and generated downward paths"""
    rng = ctx.rng
    names = ["a", "b", "c", "*"]
    exprs = []
    for x in names:
        for y in names:
            exprs += ["descendant::%s/%s" % (x, y), "descendant::%s/self::%s/%s" % (x, x, y), "descendant::%s/%s/%s" % (x, y, rng.choice(names)),
                      "descendant::%s/%s[@k]" % (x, y), "%s/%s" % (x, y), "descendant-or-self::%s/%s" % (x, y), "//%s/%s" % (x, y),
                      "descendant::%s/descendant::%s" % (x, y)]
    sels = ["%s > %s" % (x, y) for x in names for y in names] + ["%s %s" % (x, y) for x in names for y in names] + \
           ["%s > %s > %s" % (x, y, z) for x in "ab" for y in "ab" for z in "abc"]
    trees = [impl.Document(d) for d in NESTED_DOCS] + list(docs)
    n = 0
    for d in trees:
        if not hasattr(d, "root"):
            continue
        tree = xq.Tree(d.root)
        tags = [(p, nd_) for p, nd_, _ in tree.nodes if isinstance(nd_, TagNode)]
        starts = tags[:1] + rng.sample(tags, min(2, len(tags)))
        for pos, node in starts:
            for kind, items in (("xpath", exprs if d in trees[:len(NESTED_DOCS)] else rng.sample(exprs, 12)),
                                ("css", sels if d in trees[:len(NESTED_DOCS)] else rng.sample(sels, 6))):
                for e in items:
                    try:
                        res = node.xpath(e) if kind == "xpath" else node.css_select(e)
                        plain = [tree.pos_of(x) for x in res]
                        if not all(isinstance(x, TagNode) for x in res):
                            continue
                        ordered = [tree.pos_of(x) for x in res.in_document_order()]
                    except Exception as ex:     # noqa: BLE001
                        ctx.fail("in_document_order raises on tag results", {"doc": safe_str(d.root), "ctx": list(pos), kind: e,
                                                                            "error": type(ex).__name__})
                        continue
                    n += 1
                    if plain != sorted(plain):
                        ctx.nontrivial_case(("order", e, safe_str(d.root), pos))
                    if ordered != sorted(set(plain)):
                        ctx.fail("in_document_order does not list the tag results in document order",
                                 {"doc": safe_str(d.root), "ctx": list(pos), kind: e,
                                  "in_document_order": [list(p) for p in ordered], "sorted": [list(p) for p in sorted(set(plain))]})
    ctx.count(n, "in_document_order:direct")


# ---------------------------------------------------------------- CSS
CSS_ATOMS = ["a", "b", "c", "*", "p|a", "p|b", "[k]", '[k="1"]', 'a[k="1"]', 'b[j]', 'a[k^="1"]', 'a[k*="x"]', "#x",
             "a:not([k])", 'a[k!="1"]', "a:first-child", "a + b", ".k"]


def safe_str(node):
    """str(node) of the implementation raises KeyError on some namespace constellations (findings 13b/13e of C02/C11)"""
    try:
        return str(node)[:200]
    except Exception as ex:     # noqa: BLE001
        return "<unserialisable: %s>" % type(ex).__name__


def gen_css(rng):
    """a selector group of the forms XPath/Css.v models -> (selector string, Gallina term of type Css.group)"""
    from common import cstr

    def opt(x):
        return "None" if x is None else "(Some %s)" % cstr(x)

    def cond(depth=0):
        q = rng.random()
        k = rng.choice(["k", "j", "id"])
        v = rng.choice(["1", "x", "2"])
        if q < .25:
            p = "p" if rng.random() < .2 else None
            return "[%s%s]" % ("p|" if p else "", k), "(CHas %s %s)" % (opt(p), cstr(k))
        if q < .45:
            return '[%s="%s"]' % (k, v), "(CEq %s %s)" % (cstr(k), cstr(v))
        if q < .55:
            return '[%s^="%s"]' % (k, v), "(CPrefix %s %s)" % (cstr(k), cstr(v))
        if q < .65:
            return '[%s*="%s"]' % (k, v), "(CSub %s %s)" % (cstr(k), cstr(v))
        if q < .75:
            return '[%s!="%s"]' % (k, v), "(CNe %s %s)" % (cstr(k), cstr(v))
        if q < .85:
            return "#%s" % v, "(CId %s)" % cstr(v)
        if depth == 0:
            a, b = cond(1)
            if not a.startswith("#"):
                return ":not(%s)" % a, "(CNot %s)" % b
        return "[%s]" % k, "(CHas None %s)" % cstr(k)

    def simple():
        pre = "p" if rng.random() < .15 else None
        name = rng.choice(["a", "b", "c", None, "a"])
        conds = [cond() for _ in range(rng.choice([0, 0, 1, 1, 2, 3]))]
        if name is None and pre is None and conds and rng.random() < .5:
            text = ""                      # `[k]` alone: cssselect reads it as *[k]
        else:
            text = ("%s|" % pre if pre else "") + (name or "*")
        text += "".join(c[0] for c in conds)
        term = "{| s_prefix := %s; s_name := %s; s_conds := %s |}" % (opt(pre), opt(name), common.clist(c[1] for c in conds))
        return text, term

    def selector():
        t0, c0 = simple()
        text, rest = t0, []
        for _ in range(rng.choice([0, 0, 1, 1, 2])):
            comb = rng.choice([(" ", "Descendant"), (" > ", "Child"), (" ~ ", "Sibling")])
            t, c = simple()
            if not t or t[0] in "[#:":
                t = "*" + t
            text += comb[0] + t
            rest.append("(%s, %s)" % (comb[1], c))
        if not text or text[0] in "[#:":
            pass
        return text, "(%s, %s)" % (c0, common.clist(rest))
    sels = [selector() for _ in range(rng.choice([1, 1, 1, 2]))]
    return ", ".join(x[0] for x in sels), common.clist(x[1] for x in sels)


def css_model(ctx):
    """the model of the translation scheme (XPath/Css.v, theorems C06_css_*) against the real _css_to_xpath + parser"""
    from _delb.xpath import _css_to_xpath, parse
    terms, meta = [], []
    for _ in range(150 if ctx.tier == "quick" else 1500):
        sel, term = gen_css(ctx.rng)
        try:
            enc = xpath_ast.enc_ast(parse(_css_to_xpath(sel)))
        except Exception as ex:     # noqa: BLE001
            ctx.mismatch("Css.css_ast vs _css_to_xpath (the real translation or parser refuses a modelled form)",
                         json.dumps({"selector": sel, "error": type(ex).__name__}))
            continue
        terms.append("run_css_ast %s" % term)
        meta.append((sel, enc))
    res = xq.coq_eval_retry(ctx, "c06_cssast", xq.REQ + "From Delb.XPath Require Import Css.\n", terms, chunk=150)
    for (sel, enc), got in zip(meta, res):
        ctx.count(1, "css:model-vs-translator")
        if got != enc:
            ctx.mismatch("Css.css_ast vs _css_to_xpath", json.dumps({"selector": sel, "xpath": _css_to_xpath(sel)}))


def css(ctx, docs):
    from cssselect import GenericTranslator
    from _delb.xpath import _css_to_xpath, parse
    from _delb.exceptions import XPathParsingError
    rng = ctx.rng
    terms, cases, pre = [], [], []
    for di, d in enumerate(docs):
        tree = xq.Tree(d.root)
        pre.append("Definition C%d : itree := %s." % (di, tree.coq()))
        tags = [(p, n) for p, n, _ in tree.nodes if isinstance(n, TagNode)]
        for _ in range(12):
            sel = rng.choice(CSS_ATOMS)
            r = rng.random()
            if r < .3:
                sel = sel + rng.choice([" ", " > ", " ~ ", ", "]) + rng.choice(CSS_ATOMS)
            elif r < .6:
                sel = gen_css(rng)[0]
            pos, node = rng.choice(tags)
            um = rng.choice([{"p": P_NS}, {"p": P_NS}, {}, None])
            if (um is None or "p" not in um) and "p|" in sel:
                um = {"p": P_NS}
            try:
                xp = _css_to_xpath(sel)
                ast = parse(xp)
            except XPathParsingError:
                ctx.count(1, "css:outside-delb-xpath")
                continue
            except Exception as ex:     # noqa: BLE001
                ctx.count(1, "css:untranslatable:" + type(ex).__name__)
                continue
            eff = xq.effective_nsmap(node, um)
            real = xq.real_outcome(lambda: node.css_select(sel, namespaces=um), tree)
            ref_xp = GenericTranslator().css_to_xpath(sel, prefix="descendant::")
            dflt = dict(eff).get("", "")
            cases.append({"sel": sel, "xpath": xp, "real": real, "tree": tree, "node": node, "eff": eff, "doc": safe_str(d.root),
                          "ctx": list(pos), "ref_xp": ref_xp})
            terms.append("run_case C%d %s %s %s" % (di, xq.coq_nsmap(eff), xpath_ast.coq_ast(ast), xq.coq_pos(pos)))
    res = xq.coq_eval_retry(ctx, "c06_css", xq.REQ + "\n".join(pre) + "\n", terms, chunk=150)
    n_in = 0
    for c, r in zip(cases, res):
        if r is None:
            ctx.mismatch("Run.run_case (css)", c["sel"])
            continue
        m = xq.dec_case(r)
        ctx.count(1, "css:" + ("in_subset" if m["subset"] else "outside"))
        if not m["subset"]:
            continue
        n_in += 1
        # the reference CSS engine: cssselect's translation, evaluated by lxml; un-prefixed type selectors address the
        # default namespace in delb (deviation 1), so they are given the reserved prefix
        xp = c["ref_xp"]
        nsd = {k: v for k, v in c["eff"] if k and v}
        dflt = dict(c["eff"]).get("", "")
        if dflt:
            xp = re.sub(r"(::|/)([abc])\b(?!\()", r"\1D0:\2", xp)
            nsd["D0"] = dflt
        lx = lxml_eval(c["tree"], c["node"], xp, nsd)
        if lx is None:
            continue
        small = {"selector": c["sel"], "xpath": c["xpath"], "ctx": c["ctx"], "doc": c["doc"]}
        if c["real"][0] != "ok" or sorted(c["real"][1]) != [tuple(p) for p in lx]:
            ctx.fail("css_select differs from the reference CSS engine on a selector inside the proven subset",
                     dict(small, real=c["real"], reference=lx))
    ctx.cov["distribution"]["css_inside_subset_compared"] = n_in


# ---------------------------------------------------------------- known findings
def replay_open(f):
    w = f["witness"]
    d = Document(w["doc"])
    tree = xq.Tree(d.root)
    node = tree.node_at(tuple(w["ctx"]))
    real = xq.real_outcome(lambda: node.xpath(w["expr"], namespaces=w.get("namespaces")), tree)
    want = ("ok", [tuple(p) for p in w["xpath10"]])
    return (real[0], sorted(real[1]) if real[0] == "ok" else real[1]) != want


if __name__ == "__main__":
    common.main(run, "C06")
