"""C13 - namespace declarations in output are consistent and honour the caller."""
import json
import re

import common
from common import cnode, cstr, clist, enc_node
import impl
from impl import Document, extract, build, no_gc
import nsgen
from nsgen import (gen_src, gen_api_tree, gen_map, gen_redeclare_case, caller_term, recorded_order, ord_term, real_prefixes,
                   real_serialize, enc_pairs, start_tags, tree_namespaces, bfs_tags)

XML_NS = impl.XML_NS
XMLNS_NS = "http://www.w3.org/2000/xmlns/"
REQ = ("From Coq Require Import List NArith.\nFrom Delb.Base Require Import PyStr PyDict.\n"
       "From Delb.Tree Require Import ATree Encode.\nFrom Delb.Ns Require Import Namespaces Prefixes.\n"
       "From Delb.Xml Require Import Plain.\n")
GENLIKE = re.compile(r"ns[0-9]+\Z")


def classify(finding, case):
    if finding["cls"] == "caller-prefix-looks-generated":
        m = mapping_of(case.get("mapping")) or {}
        return any(p and GENLIKE.match(p) for p in m)
    if finding["cls"] == "attribute-named-xmlns":
        return case.get("route") == "api" and has_xmlns_attr(tuple_tree(case["tree"]))
    if finding["cls"] == "subtree-width-following-namespace":
        return following_foreign_namespace(case)
    return False


def node_namespaces(node):
    out = set()
    for n in bfs_tags(node):
        out.add(n.namespace or "")
        out.update(a.namespace or "" for a in n.attributes.values())
    return out


def following_foreign_namespace(case):
    """a sub-tree serialized with a text width whose first following node in the document is an element that uses a
    namespace the sub-tree does not: the line-fitting look-ahead (fetch_following / _required_space) leaves the
    serialized sub-tree and asks the prefix table for that namespace"""
    if not case.get("width") or not case.get("index"):
        return False
    with no_gc():
        try:
            root = make_root(case)
            node = bfs_tags(root)[case["index"]]
            with impl.altered_default_filters():
                last = node
                while isinstance(last, impl.TagNode) and len(last):
                    last = last[-1]
                nxt = last.fetch_following()
            while nxt is not None and not isinstance(nxt, impl.TagNode):
                return False if isinstance(nxt, impl.TextNode) and nxt.content.strip() else following_after(nxt, node)
            if nxt is None:
                return False
            return not node_namespaces(nxt) <= node_namespaces(node)
        except Exception:  # noqa: BLE001
            return False


def following_after(n, node):
    """skip comments / PIs / white-space text after the sub-tree up to the next element"""
    with impl.altered_default_filters():
        while n is not None and not isinstance(n, impl.TagNode):
            if isinstance(n, impl.TextNode) and n.content.strip():
                return False
            n = n.fetch_following()
    return n is not None and not node_namespaces(n) <= node_namespaces(node)


def has_xmlns_attr(t):
    """an attribute with local name 'xmlns' (set without namespace; delb may present it in the element's default
    namespace), or any attribute in the xmlns namespace"""
    if t[0] != "tag":
        return False
    return any(a[1] == "xmlns" or a[0] == "http://www.w3.org/2000/xmlns/" for a in t[3]) \
        or any(has_xmlns_attr(c) for c in t[4])


def tuple_tree(t):
    if t[0] == "tag":
        return ("tag", t[1], t[2], [tuple(a) for a in t[3]], [tuple_tree(c) for c in t[4]])
    return tuple(t)


def mapping_of(j):
    if j is None:
        return None
    return {(None if k is None else k): v for k, v in j}


def make_root(case):
    if case["route"] == "parse":
        return Document(case["src"]).root
    return build(tuple_tree(case["tree"]))


FORMATS = [("indent", dict(indentation="  ", width=0)), ("w20", dict(indentation="  ", width=20)),
           ("w40", dict(indentation="  ", width=40)), ("w80", dict(indentation="  ", width=80))]


def formatted_outputs(root, m, rng):
    """C13 speaks about every serialization: the root and up to two sub-trees (nodes that have a parent), each with
    indentation only and with a text width.  Returns [(label, pseudo-observation)] for the declaration clauses; the
    prefix table does not depend on the format options, so its correspondence is checked on the plain run only."""
    out = []
    tags = bfs_tags(root)
    picks = rng.sample(range(1, len(tags)), min(2, len(tags) - 1))
    nodes = [("root", 0, root)] + [("subtree", i, tags[i]) for i in picks]
    for which, index, node in nodes:
        try:
            t = extract(node)
        except Exception:  # noqa: BLE001
            continue
        for label, kw in FORMATS + ([("plain", None)] if which == "subtree" else []):
            try:
                if kw is None:
                    text = node.serialize(namespaces=m)
                else:
                    text = node.serialize(format_options=impl.FormatOptions(**kw), namespaces=m)
            except Exception as e:  # noqa: BLE001   (formatting defects belong to C03/C18/C19; no serialization, no claim)
                out.append((which + "/" + label, {"exc": type(e).__name__, "index": index, "width": (kw or {}).get("width", 0)}))
                continue
            out.append((which + "/" + label, {"ser": ("ok", text), "m": m, "t": t}))
    return out


def observe(case, rng=None):
    """run the implementation on one (document, mapping) pair"""
    m = mapping_of(case["mapping"])
    with no_gc():
        try:
            root = make_root(case)
        except Exception as e:  # noqa: BLE001  (generator produced something the parser/API refuses: not a case)
            return None
        try:
            t = extract(root)
        except KeyError:
            # the attribute mapping itself is inconsistent (findings 13b/13e, properties C02/C11): the tree has no
            # content model to speak about
            return "keyerror"
        ordl = recorded_order(root)
        bfs = [(n.namespace or "", sorted(a.namespace or "" for a in n.attributes.values())) for n in bfs_tags(root)]
        pref = real_prefixes(root, m)
        ser = real_serialize(root, m)
        formatted = []
        if rng is not None and ser[0] == "ok" and rng.random() < 0.5:
            formatted = formatted_outputs(root, m, rng)
    return {"t": t, "ord": ordl, "bfs": bfs, "pref": pref, "ser": ser, "m": m, "formatted": formatted}


def enc_bfs(bfs):
    out = [len(bfs)]
    for ns, al in bfs:
        out += [len(ns)] + [ord(c) for c in ns] + [len(al)]
        for a in al:
            out += [len(a)] + [ord(c) for c in a]
    return out


def direct_clauses(obs):
    """the property's clauses read off the real output text (independent of the model). Returns a list of failures."""
    out = obs["ser"][1]
    m = obs["m"] or {}
    t = obs["t"]
    bad = []
    tags = start_tags(out)
    if not tags:
        return ["no start tag found in output"]
    for i, (name, attrs) in enumerate(tags):
        if i > 0 and any(a == "xmlns" or a.startswith("xmlns:") for a, _ in attrs):
            bad.append("namespace declaration off the outermost element (<%s>)" % name)
            break
    decl = [(a, v) for a, v in tags[0][1] if a == "xmlns" or a.startswith("xmlns:")]
    names = [a for a, _ in decl]
    if len(set(names)) != len(names):
        bad.append("a prefix is declared twice")
    uris = [v for _, v in decl]
    if len(set(uris)) != len(uris):
        bad.append("a namespace is bound to two prefixes")
    if "xmlns:xml" in names or "xmlns:xmlns" in names or XML_NS in uris:
        bad.append("the xml prefix/namespace is declared")
    el_ns, at_ns = tree_namespaces(t)
    by_uri = {v: a for a, v in decl}
    for n in sorted(el_ns | at_ns):
        if n in ("", XML_NS):
            continue
        if n not in by_uri:
            bad.append("namespace %r of the tree is not declared" % n)
    if "" in el_ns and "xmlns" in names:
        bad.append("un-namespaced elements under a default namespace declaration")
    for p, u in m.items():
        if p and u and u in (el_ns | at_ns) and u != XML_NS:
            if by_uri.get(u) != "xmlns:" + p:
                bad.append("caller prefix %r for %r not used (declared as %r)" % (p, u, by_uri.get(u)))
    # names written: un-namespaced elements without prefix, xml attributes as xml:
    return bad


def lxml_clauses(obs):
    """re-parse with lxml: nsmap of the root binds what the tree needs, descendants add nothing, names resolve"""
    from lxml import etree
    bad = []
    try:
        e = etree.fromstring(obs["ser"][1].encode("utf-8"))
    except etree.XMLSyntaxError as ex:
        return ["output is not namespace-well-formed XML for lxml: %s" % str(ex)[:80]]
    rootmap = dict(e.nsmap)
    for d in e.iter():
        if isinstance(d.tag, str) and d is not e:
            extra = {k: v for k, v in d.nsmap.items() if rootmap.get(k) != v and k != "xml"}
            if extra:
                bad.append("element %s carries its own declarations %r" % (d.tag, extra))
                break
    m = obs["m"] or {}
    el_ns, at_ns = tree_namespaces(obs["t"])
    for p, u in m.items():
        if p and u and u in (el_ns | at_ns) and u != XML_NS and rootmap.get(p) != u:
            bad.append("lxml nsmap: caller prefix %r is not bound to %r" % (p, u))
    # expanded element names of the re-parsed tree, in document order, equal those of the tree
    def names(t):
        if t[0] != "tag":
            return []
        return [(t[1], t[2])] + [x for c in t[4] for x in names(c)]
    got = [(etree.QName(d).namespace or "", etree.QName(d).localname) for d in e.iter() if isinstance(d.tag, str)]
    if got != names(obs["t"]):
        bad.append("element names resolve differently after re-parsing")
    return bad


def output_clauses(obs):
    """all clause evaluators on one output of the implementation.  A changed serializer can emit anything: an exception
    while inspecting the OUTPUT is a failing input, never a crash of the check."""
    bad = []
    for fn in (direct_clauses, lxml_clauses):
        try:
            bad += fn(obs)
        except Exception as e:  # noqa: BLE001
            bad.append("output is not namespace-well-formed (%s raised %s: %s)" % (fn.__name__, type(e).__name__, str(e)[:80]))
    return bad


def check_cases(ctx, cases):
    observed = []
    for c in cases:
        o = observe(c, ctx.rng)
        observed.append(o)
    terms = []
    for c, o in zip(cases, observed):
        if o is None or o == "keyerror":
            continue
        caller = caller_term(o["m"])
        t = cnode(o["t"])
        ordt = ord_term(o["ord"])
        root_ns = cstr(o["t"][1])
        terms.append("enc_pmap (collect %s %s %s)" % (caller, root_ns, ordt))
        terms.append("enc_pairs (declared_attributes (res_pmap_or_empty (collect %s %s %s)))" % (caller, root_ns, ordt))
        terms.append("enc_res_str (serialize %s %s %s)" % (caller, ordt, t))
        terms.append("enc_bfs (bfs_of %s)" % t)
        # the property's clauses, evaluated in Coq on the implementation's own table and declarations
        if o["pref"][0] == "ok" and o["ser"][0] == "ok" and not has_xmlns_attr(o["t"]):
            try:
                tags = start_tags(o["ser"][1])
            except Exception:  # noqa: BLE001
                tags = []
            decl = [(a, v) for a, v in (tags[0][1] if tags else []) if a == "xmlns" or a.startswith("xmlns:")]
            nss = sorted(set(n for l in o["ord"] for n in l))
            terms.append("enc_bool (c13_holds_b %s %s %s %s)" % (
                caller, clist(cstr(n) for n in nss),
                clist("(%s, %s)" % (cstr(a), cstr(b)) for a, b in o["pref"][1]),
                clist("(%s, %s)" % (cstr(a), cstr(b)) for a, b in decl)))
        else:
            terms.append("enc_bool true")
    vals = nsgen.coq_eval_retry(ctx, "c13", REQ, terms, chunk=250)
    i = 0
    for c, o in zip(cases, observed):
        if o is None:
            ctx.count(1, "not-a-document")
            continue
        if o == "keyerror":
            ctx.count(1, "skipped/KeyError-13b-13e")
            continue
        v_pm, v_decl, v_ser, v_bfs, v_spec = vals[i:i + 5]
        i += 5
        case = {"route": c["route"], "mapping": c["mapping"], "src": c.get("src"), "tree": c.get("tree")}
        kind = c["route"] + "/" + ("none" if o["m"] is None else "empty" if not o["m"] else
                                   "colliding" if any(p and GENLIKE.match(p) for p in o["m"]) else "mapping")
        ctx.count(1, kind)
        if None in (v_pm, v_decl, v_ser, v_bfs, v_spec):
            ctx.mismatch("model evaluation", "coqc failed on the case file")
            continue
        pk, pv = o["pref"]
        sk, sv = o["ser"]
        n_ns = len(set(n for l in o["ord"] for n in l))
        if n_ns >= 2 or (o["m"] and pk == "ok"):
            ctx.nontrivial_case((o["t"], sorted((str(k), v) for k, v in (o["m"] or {}).items())))
        ctx.sample({"case": case, "prefixes": pv, "output": sv})
        # ---- correspondence -------------------------------------------------------------------------
        if v_bfs != enc_bfs(o["bfs"]):
            ctx.mismatch("bfs_of vs traverse_bf_ltr_ttb", {"case": case, "impl": o["bfs"]})
        if pk == "ok":
            exp = [0, len(pv)]
            for a, b in pv:
                exp += [len(a)] + [ord(x) for x in a] + [len(b)] + [ord(x) for x in b]
        else:
            exp = {"ValueError": [1], "AssertionError": [2]}.get(pv, [3])
        if v_pm != exp:
            ctx.mismatch("collect vs Serializer._collect_prefixes", {"case": case, "impl": o["pref"], "model": v_pm[:60]})
        if sk == "exc" and sv == "KeyError" and pk == "ok":
            # attribute store / presented-key mismatch (findings 13b/13e, property C02): no serialization exists
            ctx.count(0, "skipped/KeyError-13b-13e")
            continue
        if sk == "ok":
            exp = [0] + [ord(x) for x in sv]
            try:
                tags = start_tags(sv)
            except Exception:  # noqa: BLE001
                tags = []
            decl = [(a, v) for a, v in (tags[0][1] if tags else []) if a == "xmlns" or a.startswith("xmlns:")]
            if v_decl != enc_pairs(decl) and not has_xmlns_attr(o["t"]):
                ctx.mismatch("declared_attributes vs the root's xmlns attributes", {"case": case, "impl": decl})
        else:
            exp = {"ValueError": [1], "AssertionError": [2], "InvalidCodePath": [5]}.get(sv, [3])
        if v_ser != exp:
            ctx.mismatch("serialize (model) vs TagNode.serialize", {
                "case": case, "impl": o["ser"], "model": "".join(chr(x) for x in v_ser[1:]) if v_ser[0] == 0 else v_ser})
        # ---- the property itself on the implementation ------------------------------------------------
        if sk == "exc":
            if sv == "ValueError":
                continue            # the mapping is refused by Namespaces: not a serialization
            if sv == "InvalidCodePath":
                continue            # empty text node (finding 17, property C02)
            ctx.fail("serialize raised %s: no consistent prefix assignment was produced" % sv, case, classify)
            continue
        bad = output_clauses(o)
        if v_spec != [1]:
            bad.append("the clauses of C13 (c13_holds_b, evaluated in Coq) fail on the implementation's prefix table")
        for b in bad[:1]:
            ctx.fail(b, dict(case, output=sv, prefixes=pv), classify)
        # ---- the declaration clauses on formatted serializations and on sub-trees -------------------------
        for label, fo in o.get("formatted", []):
            if "exc" in fo:
                ctx.count(1, "formatted/raised-" + fo["exc"])
                if fo["exc"] in ("KeyError", "AssertionError"):
                    # the prefix table of this serialization was asked for a namespace it does not bind
                    ctx.fail("%s serialization raised %s" % (label, fo["exc"]),
                             dict(case, which=label, index=fo["index"], width=fo["width"]), classify)
                continue
            ctx.count(1, "formatted/" + label)
            fbad = output_clauses(fo)
            for b in fbad[:1]:
                ctx.fail("%s serialization: %s" % (label, b), dict(case, output=fo["ser"][1], which=label), classify)


def replay_open(f):
    w = f["witness"]
    if f["cls"] == "subtree-width-following-namespace":
        with no_gc():
            node = bfs_tags(Document(w["src"]).root)[w["index"]]
            try:
                node.serialize(format_options=impl.FormatOptions(indentation="  ", width=w["width"]))
            except KeyError:
                return True
        return False
    if f["cls"] == "attribute-named-xmlns":
        o = observe({"route": "api", "tree": w["tree"], "mapping": w["mapping"]})
        return o["ser"][0] == "ok" and bool(output_clauses(o))
    o = observe({"route": "parse", "src": w["src"], "mapping": w["mapping"]})
    return o["ser"][0] == "exc" and o["ser"][1] == "AssertionError"


def mapping_json(m):
    return None if m is None else [[k, v] for k, v in m.items()]


def fixed_cases():
    """hand-picked: the layouts of test_prefix_collection_and_generation, collisions, empty below default"""
    srcs = ['<r xmlns:p="u1" xmlns:q="u2" p:k="1" q:j="2"/>', '<r xmlns="u1"><a xmlns=""/><b xmlns="u2"/></r>',
            '<p:r xmlns:p="u1"><a/><q:b xmlns:q="u2" q:k="v"/></p:r>', '<r><a xmlns="u1"><b xmlns="u2"/></a></r>',
            '<r xml:lang="en"><a xmlns="u1" xml:space="preserve"/></r>', '<r xmlns:a="u1" xmlns:b="u2" xmlns:c="u3" a:k="" b:k="" c:k=""/>']
    maps = [None, {}, {None: "u1"}, {"": "u2"}, {"p": "u1"}, {"ns0": "u1"}, {"ns0": "u2"}, {"ns1": "u1"}, {"ns0": "u3", "ns1": "u2"},
            {"ns0": "other"}, {"p": "u1", "q": "u2"}, {"z": ""}, {"svg": "u1"}, {None: "u1", "": "u2"}, {"xml": "u1"},
            {"p": XML_NS}, {"ns00": "u1"}, {"p": "u1", None: "u2"}, {"xmldsig": "u1"}, {"xmlsec": "u2", "xm": "u1"},
            {"xmlx": "u1", "x": "u2"}, {"xmlnsx": "u2"},
            # reserved namespaces offered under the default prefix (either spelling) or beside other entries
            {None: XML_NS}, {"": XML_NS}, {None: XML_NS, "q": "u1"}, {None: XMLNS_NS}, {"": XMLNS_NS}, {"p": XMLNS_NS}]
    return [{"route": "parse", "src": s, "mapping": mapping_json(m)} for s in srcs for m in maps]


REGRESSION_SUBTREE = {"route": "parse", "src": '<b><a><!-- aaaaaaaaaaaaaaaaaaaaaaaaaaaaa --></a><p:b xmlns:p="u"/></b>',
                      "index": 1, "width": 20, "mapping": None}


def check_regression_subtree(ctx):
    """witness of the repaired finding C13-subtree-width-following-namespace (e97da64): sub-tree with a text width whose
    look-ahead meets a foreign namespace"""
    w = REGRESSION_SUBTREE
    with no_gc():
        node = bfs_tags(Document(w["src"]).root)[w["index"]]
        for width in (w["width"], 40, 80):
            ctx.count(1, "formatted/regression-subtree")
            try:
                text = node.serialize(format_options=impl.FormatOptions(indentation="  ", width=width))
            except Exception as e:  # noqa: BLE001
                ctx.fail("subtree/w%d serialization raised %s" % (width, type(e).__name__), dict(w, width=width), classify)
                continue
            fo = {"ser": ("ok", text), "m": None, "t": extract(node)}
            for b in output_clauses(fo)[:1]:
                ctx.fail("subtree/w%d serialization: %s" % (width, b), dict(w, width=width, output=text), classify)


def run(ctx, args):
    ctx.regen(["GenWs.v", "GenNames.v", "GenNs.v", "GenValidators.v", "GenNsValidators.v"])
    ctx.build("Props/C13.vo")
    if args.replay:
        with open(args.replay) as f:
            rep = json.load(f)
        case = rep.get("case")
        if case:
            check_cases(ctx, [case])
        return ctx.finish("replay of " + args.replay, replay_open=replay_open)
    quick = ctx.tier == "quick"
    check_regression_subtree(ctx)
    nsgen.check_validators(ctx, REQ)
    cases = fixed_cases()
    n = 700 if quick else 12000
    for i in range(n):
        m = mapping_json(gen_map(ctx.rng))
        r = ctx.rng.random()
        if r < 0.06:
            src, mm = gen_redeclare_case(ctx.rng)
            cases.append({"route": "parse", "src": src, "mapping": mapping_json(mm)})
        elif r < 0.6:
            cases.append({"route": "parse", "src": gen_src(ctx.rng, rich=False), "mapping": m})
        else:
            cases.append({"route": "api", "tree": gen_api_tree(ctx.rng, xmlns_attr=ctx.rng.random() < 0.08), "mapping": m})
    check_cases(ctx, cases)
    return ctx.finish(
        rule="(document, caller mapping) pairs: documents parsed from generated XML with nested prefix/default declarations "
             "(prefixes p, q, svg, ns0, ns1; xmlns='' below a default; xml: attributes) or built through the API with any "
             "namespace on any element/attribute, depth <= 3; mappings: None, {}, default as None or '', prefixes incl. "
             "ns0/ns1/ns2/ns00 (colliding with generated ones); 8% of the API trees carry an attribute named xmlns, common prefixes remapped, refused ones (xml, duplicates). "
             "For half of the pairs the declaration clauses are also checked on formatted serializations (indentation only, width 20/40/80) of the root and of up to two sub-trees (nodes with a parent), and on the plain serialization of those sub-trees. Non-trivial = at least two namespaces in the tree or a non-empty accepted mapping; distinct by (tree, mapping).",
        replay_open=replay_open)


if __name__ == "__main__":
    common.main(run, "C13")
