"""C18 - indented output puts each structural child on its own line at its depth."""
import json

import common
from common import cnode, cstr, cbool, enc_node
import impl
from impl import extract, to_xml, no_gc, build, altered_default_filters
import pp_common as pp

REQ = ("From Coq Require Import List NArith.\nFrom Delb.Base Require Import PyStr.\n"
       "From Delb.Tree Require Import ATree Encode.\nFrom Delb.Ws Require Import Reduce Pretty SimplePP Qualified.\n")

GRID = [(i, a) for i in pp.INDENTS0 for a in (False, True)]


def cgrid(g):
    return "[" + "; ".join("(%s, %s)" % (cstr(i), cbool(a)) for i, a in g) + "]"


def preamble():
    """output per grid point: the model string, then 0 if simple_pp gives the same string, else 1 and that string
    (printing number lists is what costs time in coqc, so nothing is printed twice)"""
    return (REQ + "Import ListNotations.\n"
            "Fixpoint leqb (a b : list N) : bool := match a, b with [], [] => true | x :: a', y :: b' => (N.eqb x y && leqb a' b')%bool | _, _ => false end.\n"
            "Definition two (m s : str) : list N := enc_str m ++ (if leqb m s then [0%N] else 1%N :: enc_str s).\n"
            "Definition run18 (g : list (str * bool)) (t : node) : list N :=\n"
            "  enc_bool (data_style t) ++ enc_bool (leqb (enc_node (reduce_model t)) (enc_node t))\n"
            "  ++ flat_map (fun ia : str * bool => two (pretty (fst ia) (snd ia) t) (simple_pp (fst ia) (snd ia) 0 t)) g.\n"
            "Definition run18doc (g : list (str * bool)) (p : list node) (t : node) (e : list node) : list N :=\n"
            "  flat_map (fun ia : str * bool => two (pretty_doc (fst ia) (snd ia) p t e) (simple_doc (fst ia) (snd ia) p t e)) g.\n")


def dec_two(l, i):
    n = l[i]
    m = "".join(chr(c) for c in l[i + 1:i + 1 + n])
    i += 1 + n
    if l[i] == 0:
        return m, m, i + 1
    n = l[i + 1]
    return m, "".join(chr(c) for c in l[i + 2:i + 2 + n]), i + 2 + n


def dec_pairs(l, i):
    out = []
    while i < len(l):
        m, sp, i = dec_two(l, i)
        out += [m, sp]
    return out


def classify(finding, case):
    return False


def decode_run(vals):
    return vals[0] == 1, vals[1] == 1, dec_pairs(vals, 2)


def tree_term(node, t):
    """the Gallina term for the tree the models are run on: the tree itself, or - with namespaces - its qualified view
    (Ws/Qualified.v) under the prefix table and declarations of the real serializer"""
    if not pp.uses_namespaces(t):
        return cnode(t)
    tbl, decl = pp.ns_view(node)
    return "(qual_root (pf_of %s) %s %s)" % (pp.ctbl(tbl), pp.cdecl(decl), cnode(t))


def check_docs(ctx, xmls, max_sub):
    """xmls: [(kind, xml text)]"""
    items = []      # (kind, xml, index of the sub-tree, tree, real outputs per grid point)
    docitems = []
    with no_gc():
        for kind, xml in xmls:
            try:
                doc = pp.load_reduced(xml)
            except Exception as e:  # noqa: BLE001  (generator produced something the parser refuses)
                ctx.notes.append("generator: parser refused a document: %r" % (e,))
                continue
            nodes = pp.tag_nodes(doc)
            if kind == "deep":
                # root and sub-trees started at every depth of the chain (every other one when there are many)
                picks = list(range(0, len(nodes), 1 if len(nodes) <= 10 else 2))
            else:
                picks = [0] + sorted(ctx.rng.sample(range(1, len(nodes)), min(max_sub, len(nodes) - 1)))
            for idx in picks:
                t = extract(nodes[idx])
                if not pp.in_domain_ns(t):
                    continue
                term = tree_term(nodes[idx], t)
                for g in pick_grids(ctx):
                    try:
                        real = [pp.real_serialize(nodes[idx], i, 0, a) for i, a in g]
                    except Exception as e:  # noqa: BLE001
                        ctx.fail("serialize raised %s: %s" % (type(e).__name__, e), {"xml": xml, "subtree": idx}, classify)
                        continue
                    items.append((kind, xml, idx, t, real, g, term))
            pro = [extract(n) for n in doc.prologue]
            epi = [extract(n) for n in doc.epilogue]
            t = extract(doc.root)
            if pp.in_domain_ns(t) and (pro or epi or ctx.rng.random() < 0.3):
                for g in pick_grids(ctx):
                    real = [pp.real_document(doc, i, 0, a) for i, a in g]
                    docitems.append((kind, xml, pro, t, epi, real, g, tree_term(doc.root, t)))
    terms = ["run18 %s %s" % (cgrid(g), term) for _, _, _, _, _, g, term in items]
    terms += ["run18doc %s %s %s %s" % (cgrid(g), common.clist(cnode(n) for n in p), term,
                                        common.clist(cnode(n) for n in e)) for _, _, p, _, e, _, g, term in docitems]
    vals = ctx.coq_eval("c18", preamble(), terms, chunk=20)
    first_grid = {}
    for (kind, xml, idx, t, real, g, _term), v in zip(items, vals):
        case = {"xml": xml, "subtree": idx, "tree": t}
        if v is None:
            ctx.mismatch("pretty model evaluation", "coqc failed on the case file")
            continue
        ds, reduced, strs = decode_run(v)
        if idx == 0 and not reduced and g == first_grid.setdefault(xml, g):
            # the property's precondition: what the parser's whitespace reduction leaves is in normal form
            ctx.fail("the document left by the implementation's whitespace reduction is not reduced (reduce_model changes it)",
                     dict(case, impl=real[0]), classify)
        ctx.count(len(g), "%s/%s/%s" % (kind, "root" if idx == 0 else "subtree", "data-style" if ds else "other"))
        for gi, (ind, align) in enumerate(g):
            model, simple = strs[2 * gi], strs[2 * gi + 1]
            if model != real[gi]:
                ctx.mismatch("pretty (Ws/Pretty.v) vs serialize(FormatOptions(indentation, width=0, align_attributes))",
                             {"case": case, "indentation": ind, "align": align, "impl": real[gi], "model": model})
            if ds and reduced and ind != "":
                # the property itself: the real output is what the straightforward printer produces
                if pp.depth(t) >= 1:
                    ctx.nontrivial_case((t, ind, align))
                if real[gi] != simple:
                    ctx.fail("indented output differs from the straightforward recursive printer",
                             dict(case, indentation=ind, align=align, impl=real[gi], simple_pp=simple), classify)
        if ds and reduced:
            ctx.sample({"tree": t, "indentation": g[0][0], "align": g[0][1], "output": real[0]}, limit=3)
    for (kind, xml, p, t, e, real, g, _term), v in zip(docitems, vals[len(items):]):
        case = {"xml": xml, "document": True, "tree": t}
        if v is None:
            ctx.mismatch("pretty_doc model evaluation", "coqc failed on the case file")
            continue
        strs = dec_pairs(v, 0)
        ctx.count(len(g), "%s/document" % kind)
        for gi, (ind, align) in enumerate(g):
            model, simple = strs[2 * gi], strs[2 * gi + 1]
            if model != real[gi]:
                ctx.mismatch("pretty_doc (Ws/Pretty.v) vs Document.write(format_options=...)",
                             {"case": case, "indentation": ind, "align": align, "impl": real[gi], "model": model})
    # data_style and reducedness of the document roots decide whether the document-level demand applies
    droots = {}
    for (kind, xml, idx, t, real, g, _term), v in zip(items, vals):
        if idx == 0 and v is not None:
            ds, red, _ = decode_run(v)
            droots[xml] = ds and red
    for (kind, xml, p, t, e, real, g, _term), v in zip(docitems, vals[len(items):]):
        if v is None or not droots.get(xml):
            continue
        strs = dec_pairs(v, 0)
        for gi, (ind, align) in enumerate(g):
            if ind != "" and real[gi] != strs[2 * gi + 1]:
                ctx.fail("indented document differs from the straightforward recursive printer",
                         {"xml": xml, "document": True, "indentation": ind, "align": align, "impl": real[gi],
                          "simple_doc": strs[2 * gi + 1]}, classify)


def root_siblings(doc):
    """prologue and epilogue as they are, read along the sibling axis of the root (not through Document.prologue /
    Document.epilogue, whose bookkeeping is part of what the history variant tests)"""
    with altered_default_filters():
        pro = [extract(n) for n in reversed(list(doc.root.iterate_preceding_siblings()))]
        epi = [extract(n) for n in doc.root.iterate_following_siblings()]
    return pro, epi


def check_histories(ctx, xmls, steps):
    """a document that has been serialized before: comments / PIs are then attached next to the root through the node
    API (root / an existing sibling), through Document.prologue / Document.epilogue (append, prepend, insert), or
    removed; after every step the indented document is compared with the model / simple_doc of the document as it
    is now"""
    docitems = []
    with no_gc():
        for kind, xml in xmls:
            try:
                doc = pp.load_reduced(xml)
            except Exception as e:  # noqa: BLE001
                ctx.notes.append("generator: parser refused a document: %r" % (e,))
                continue
            t = extract(doc.root)
            if not pp.in_domain_ns(t):
                continue
            term = tree_term(doc.root, t)
            ind, align = ctx.rng.choice([g for g in GRID if g[0] != ""])
            history = []
            try:
                pp.real_document(doc, ind, 0, align)            # the earlier serialization
                for _ in range(steps):
                    new = build(pp.gen_misc(ctx.rng))
                    pro, epi = root_siblings(doc)
                    with altered_default_filters():
                        before = list(doc.root.iterate_preceding_siblings())
                        after = list(doc.root.iterate_following_siblings())
                    op = ctx.rng.choice(["root-before", "root-after", "sibling-before", "sibling-after", "prologue-append",
                                         "prologue-prepend", "epilogue-append", "epilogue-insert", "prologue-index-sibling",
                                         "detach"])
                    history.append(op)
                    if op == "root-before":
                        doc.root.add_preceding_siblings(new)
                    elif op == "root-after":
                        doc.root.add_following_siblings(new)
                    elif op == "sibling-before" and before + after:
                        ctx.rng.choice(before + after).add_preceding_siblings(new)
                    elif op == "sibling-after" and before + after:
                        ctx.rng.choice(before + after).add_following_siblings(new)
                    elif op == "prologue-append":
                        doc.prologue.append(new)
                    elif op == "prologue-prepend":
                        doc.prologue.prepend(new)
                    elif op == "epilogue-append":
                        doc.epilogue.append(new)
                    elif op == "epilogue-insert":
                        doc.epilogue.insert(ctx.rng.randint(0, len(epi)), new)
                    elif op == "prologue-index-sibling" and pro:
                        doc.prologue[ctx.rng.randrange(len(pro))].add_following_siblings(new)
                    elif op == "detach" and before + after:
                        ctx.rng.choice(before + after).detach()
                    else:
                        history[-1] = "none"
                        continue
                    pro, epi = root_siblings(doc)
                    real = pp.real_document(doc, ind, 0, align)
                    docitems.append((kind, xml, list(history), pro, t, epi, real, (ind, align), term))
            except Exception as e:  # noqa: BLE001
                ctx.fail("document history raised %s: %s" % (type(e).__name__, e),
                         {"xml": xml, "document": True, "history": history, "indentation": ind, "align": align}, classify)
    terms = ["run18 %s %s" % (cgrid([g]), term) for _, _, _, _, _, _, _, g, term in docitems]
    terms += ["run18doc %s %s %s %s" % (cgrid([g]), common.clist(cnode(n) for n in p), term, common.clist(cnode(n) for n in e))
              for _, _, _, p, _, e, _, g, term in docitems]
    vals = ctx.coq_eval("c18h", preamble(), terms, chunk=40)
    n = len(docitems)
    for k, (kind, xml, history, p, t, e, real, (ind, align), _term) in enumerate(docitems):
        v0, v = vals[k], vals[n + k]
        if v0 is None or v is None:
            ctx.mismatch("pretty_doc model evaluation (history)", "coqc failed on the case file")
            continue
        ds, red, _ = decode_run(v0)
        model, simple = dec_pairs(v, 0)[:2]
        case = {"xml": xml, "document": True, "history": history, "prologue": p, "epilogue": e, "indentation": ind,
                "align": align}
        ctx.count(1, "history/%s" % ("data-style" if ds and red else "other"))
        if model != real:
            ctx.fail("indented document after earlier serialization and changes next to the root differs from the "
                     "document as it is now (pretty_doc of prologue, root, epilogue read along the sibling axis)",
                     dict(case, impl=real, model=model), classify)
        elif ds and red and real != simple:
            ctx.fail("indented document differs from the straightforward recursive printer", dict(case, impl=real, simple_doc=simple),
                     classify)
        if ds and red:
            ctx.nontrivial_case((t, tuple(map(tuple, p)), tuple(map(tuple, e)), ind, align))


def pick_grids(ctx):
    """quick tier: 4 of the 16 option sets per tree (always one aligned and one not); thorough: all, in two halves (one
    model term each: coqc's stack does not take 16 outputs of a large tree in one list)"""
    if ctx.tier != "quick":
        return [GRID[:8], GRID[8:]]
    g = ctx.rng.sample(GRID, 4)
    if all(a for _, a in g) or not any(a for _, a in g):
        g[0] = (g[0][0], not g[0][1])
    return [g]


def gen_cases(ctx, n_data, n_mixed):
    xmls = []
    for _ in range(n_data):
        t = pp.gen_data_tree(ctx.rng, ctx.rng.choice([1, 2, 2, 3, 3]))
        xml = to_xml(t)
        if ctx.rng.random() < 0.35:
            pro = "".join(to_xml(pp.gen_misc(ctx.rng)) + ctx.rng.choice(["", "\n"]) for _ in range(ctx.rng.randint(0, 2)))
            epi = "".join(ctx.rng.choice(["", "\n"]) + to_xml(pp.gen_misc(ctx.rng)) for _ in range(ctx.rng.randint(0, 2)))
            xml = pro + xml + epi
        xmls.append(("data", xml))
    for _ in range(n_mixed):
        xmls.append(("mixed", to_xml(pp.gen_mixed_tree(ctx.rng, 3))))
    # namespaced documents (run through the models as their qualified view)
    for _ in range(n_data // 5):
        t = pp.gen_ns_decorate(ctx.rng, pp.gen_data_tree(ctx.rng, ctx.rng.choice([1, 2, 3])))
        xmls.append(("ns-data", to_xml(t)))
    for _ in range(n_mixed // 5):
        xmls.append(("ns-mixed", to_xml(pp.gen_ns_decorate(ctx.rng, pp.gen_mixed_tree(ctx.rng, 2)))))
    # deep chains: nodes 9-13 levels below the root, serialized from the root and from sub-trees at every depth
    for d in ([9, 12] if ctx.tier == "quick" else [8, 9, 10, 11, 12, 13]):
        xmls.append(("deep", to_xml(pp.gen_deep_chain(ctx.rng, d))))
    xmls.append(("deep", to_xml(pp.gen_deep_chain(ctx.rng, 10, data_style=False))))
    return xmls


FIXED = [
    "<r/>", "<r> </r>", "<r>a</r>", "<r> a b </r>", "<r><a/></r>", "<r>\n<a/>\n<b/>\n</r>", "<r><a/> <b/></r>",
    "<r> <a>x</a> <!--c--> <?p q?> </r>", '<r k="v" id="1"><a long-name="x&amp;y" n=""/></r>',
    '<r xml:space="preserve"> <a> x </a>\n</r>', '<r> <a xml:space="preserve"> x\n</a> <b k="1" n="2" id="3"> <c/> </b> </r>',
    "<r> text <a/> more text <b> x </b> </r>", "<!--p-->\n<?q z?>\n<r> <a/> </r>\n<!--e-->",
    # white space beyond ASCII in leaf texts (inside, next to a space, at the ends)
    "<list>\n  <item>first\u00a0entry</item>\n  <item>second \u2003 entry</item>\n  <!--c-->\n"
    "  <item n='3'>third\u2009\u00a0entry</item>\n  <item>\u3000fourth\u00a0</item>\n</list>",
    "<r>\u00a0<a>x\u2003y</a>\u2009<b/>\u3000</r>",
    # siblings with identical content
    "<r> <!--c--> <a/> <!--c--> </r>", "<r> <?t x?> <a>same</a> <b>same</b> <?t x?> </r>",
    # more than ten namespaces that get a generated prefix (ns1 ... ns10, ns11), attributes to align among them
    to_xml(("tag", "", "r", [("", "k", "v"), ("ua", "id", "1")],
            [x for i in range(12) for x in (("text", "\n  "), ("tag", "u%d" % i, "e%d" % i, [("ub", "n", str(i))] if i % 5 == 0 else [],
                                                            [("text", "t%d" % i)] if i % 3 == 0 else []))] + [("text", "\n")])),
]


def run(ctx, args):
    ctx.regen(["GenWs.v", "GenNames.v", "GenReduce.v", "GenPretty.v"])
    ctx.build("Props/C18.vo")
    if args.replay:
        with open(args.replay) as f:
            rep = json.load(f)
        case = rep.get("case") or {}
        if case.get("xml"):
            check_docs(ctx, [("replay", case["xml"])], max_sub=50)
        return ctx.finish("replay of " + args.replay)
    quick = ctx.tier == "quick"
    xmls = [("fixed", x) for x in FIXED] + gen_cases(ctx, 150 if quick else 1400, 50 if quick else 400)
    check_docs(ctx, xmls, max_sub=3 if quick else 5)
    hist = [(k, x) for k, x in xmls if k in ("fixed", "data", "ns-data")]
    check_histories(ctx, ctx.rng.sample(hist, min(len(hist), 40 if quick else 300)), steps=4)
    return ctx.finish(
        rule="documents: fixed small cases (incl. non-ASCII white space in leaf texts, siblings with identical content, 12 namespaces with generated prefixes) + leaf texts whose words are now and then separated / framed by U+00A0, U+2003, U+2009, U+3000 + chains of 9-13 nested elements (root and sub-trees at every depth) + random conventionally laid out (data-style) documents of depth <= 3 with "
             "elements, comments, PIs, 0-3 attributes, xml:space directives, optional prologue/epilogue, + random "
             "mixed-content documents + the same with elements in 3 and attributes in 2 namespaces (models run on the qualified view: prefixed names, declarations on the root, as read off the real plain serialization); parsed with reduce_whitespace; serialized from the root, from sampled sub-trees "
             "and as a document with indentation in {'', ' ', '  ', '\\t', ' \\t', '\\n', ' \\n', '\\n '} x align_attributes in {F, T}, width 0 (quick tier: 4 of the 16 option sets per tree, drawn at random). "
             "History variant: sampled documents are serialized once, then 4 times a comment / PI is attached next to the root (node API on the root or on a sibling, Document.prologue / epilogue append / prepend / insert, indexing) or detached, and after every step the indented document is compared with the model of the document as it is now (prologue / epilogue read along the sibling axis). "
             "One evaluation = one (tree, options) output compared byte for byte with the model; the property demand "
             "(output = simple_pp) applies to data-style reduced trees with a non-empty indentation. "
             "Non-trivial = such a tree of depth >= 1; distinct by (tree, options).")


if __name__ == "__main__":
    common.main(run, "C18")
