"""C19 - wrapped text fills lines greedily up to the requested width."""
import json
import re

import common
from common import cstr, cnode
import impl
from impl import Document, FormatOptions, esc_text, no_gc

REQ = ("From Coq Require Import List NArith ZArith.\nFrom Delb.Base Require Import PyStr.\n"
       "From Delb.Gen Require Import GenWrap.\n"
       "From Delb.Tree Require Import ATree Encode.\nFrom Delb.Ws Require Import Wrap.\n"
       "Definition enc_lines (o : option (list str)) : list N :=\n"
       "  match o with None => [999999%N] | Some ls => N.of_nat (length ls) :: flat_map (fun l => N.of_nat (length l) :: l) ls end.\n")

WORD_CHARS = "abcxyz&<>é中"
XML_NS = "http://www.w3.org/XML/1998/namespace"


def gen_near_fit(rng):
    """the one-line form <p>text</p> (7 + escaped length) lands within a few characters of the width; escapable
    characters make the raw text shorter than what is written"""
    w = rng.choice([8, 9, 10, 12, 14, 16, 20, 24, 28, 33, 40])
    target = w - 7 + rng.choice([-3, -2, -1, 0, 0, 1, 2, 3, 4, 6])
    chars = rng.choice([WORD_CHARS, "ab&<", "abc", "&<>", "a>b&"])
    words, total = [], 0
    while total < target:
        n = rng.randint(1, max(1, min(6, target - total)))
        wd = "".join(rng.choice(chars) for _ in range(n))
        words.append(wd)
        total = len(esc_text(" ".join(words)))
    case = {"words": words or ["a"], "width": w, "indentation": rng.choice(["", " ", "  ", "\t"]),
            "depth": rng.choice([0, 1, 1, 2, 3])}
    if rng.random() < 0.15:
        case["lead"] = rng.choice([" ", "\n"])
    if rng.random() < 0.15:
        case["trail"] = rng.choice([" ", "\n"])
    return case


def gen_case(rng, quick):
    if rng.random() < 0.25:
        return gen_near_fit(rng)
    w = rng.choice([1, 2, 3, 4, 5, 6, 7, 8, 9, 10, 11, 12] + ([] if quick else [15, 20, 33, 40]))
    ind = rng.choice(["", " ", "  ", "\t", "   "])
    depth = rng.choice([0, 1, 1, 2, 3])
    nwords = rng.choice([1, 2, 3, 4, 5, 6, 8, 12])
    words = []
    for _ in range(nwords):
        r = rng.random()
        if r < 0.5:
            n = rng.randint(1, max(1, w // 2))
        elif r < 0.85:
            n = max(1, w + rng.choice([-2, -1, 0, 0, 1, 2]))      # around the width
        else:
            n = w + rng.randint(1, 6)                             # unbreakable
        words.append("".join(rng.choice(WORD_CHARS) for _ in range(n)))
    # bias: make a prefix of the text end exactly at the width (the coincidences that matter)
    if rng.random() < 0.3 and len(words) >= 2:
        first = esc_text(words[0])
        need = w - len(first) - 1
        if need >= 1:
            words[1] = "a" * need
    case = {"words": words, "width": w, "indentation": ind, "depth": depth}
    # un-reduced source text: whitespace before/after the words and longer runs between them
    if rng.random() < 0.35:
        case["lead"] = rng.choice([" ", "  ", "\n", "\n   "])
    if rng.random() < 0.25:
        case["trail"] = rng.choice([" ", "  ", "\n"])
    if rng.random() < 0.2:
        # longer runs, and white space outside ASCII (str.isspace / regex \\s: collapsed like any other)
        case["sep"] = rng.choice(["  ", "\n", " \t ", "\u3000", "\u00a0", " \u2003 ", "\u2009\n"])
    # the element's text spread over several adjacent text nodes (API-made), cut anywhere, also at whitespace
    if rng.random() < 0.3:
        text = source_text(case)
        if len(text) >= 2:
            cuts = sorted(set(rng.randrange(1, len(text)) for _ in range(rng.choice([1, 1, 2, 3]))))
            case["pieces"] = [text[a:b] for a, b in zip([0] + cuts, cuts + [len(text)])]
    return case


def source_text(case):
    return case.get("lead", "") + case.get("sep", " ").join(case["words"]) + case.get("trail", "")


def doc_for(case):
    """-> (xml, the escaped single-spaced words = what must be distributed over the text lines)"""
    text = source_text(case)
    xml = "<p>%s</p>" % ("" if case.get("pieces") else esc_text(text))
    for i in range(case["depth"]):
        xml = "<d%d>%s</d%d>" % (i, xml, i)
    return xml, esc_text(" ".join(case["words"]))


def run_impl(case):
    xml, escaped = doc_for(case)
    with no_gc():
        doc = Document(xml)
        if case.get("toggle"):
            # the element carried xml:space="preserve" during an earlier serialization; the directive is then removed
            # (or set to "default"): what is written afterwards must not remember the earlier state
            p = doc.root
            while p.local_name != "p":
                p = p[0]
            p.attributes[(XML_NS, "space")] = "preserve"
            doc.root.serialize(format_options=FormatOptions(width=case["width"], indentation=case["indentation"],
                                                             align_attributes=False))
            if case["toggle"] == "delete":
                del p.attributes[(XML_NS, "space")]
            else:
                p.attributes[(XML_NS, "space")] = "default"
        if case.get("pieces"):
            p = doc.root
            while p.local_name != "p":
                p = p[0]
            p.append_children(*case["pieces"])
        out = doc.root.serialize(format_options=FormatOptions(width=case["width"], indentation=case["indentation"],
                                                              align_attributes=False))
        case["_tree"] = impl.extract(doc.root)
    return out, escaped


def text_lines(out, case, escaped):
    """-> ('oneline', None) | ('lines', [raw lines between <p> and </p>]) | ('shape', msg)"""
    ind, d = case["indentation"], case["depth"]
    lines = out.split("\n")
    if any(("<p>" + a + escaped + b + "</p>") in out for a in ("", " ") for b in ("", " ")):
        return "oneline", None       # the whole element fitted on a line (possibly together with its ancestors' tags)
    if case.get("pieces") and any(("<p>" + a + escaped + b + "</p>") in re.sub(" +", " ", out)
                                  for a in ("", " ") for b in ("", " ")):
        # the one-line form writes each of several adjacent text nodes collapsed on its own: blanks on both sides of a
        # node boundary stay two blanks (the run of un-coalesced text nodes is C04's open finding, not this property's)
        return "oneline", None
    try:
        a = lines.index(ind * d + "<p>")
    except ValueError:
        return "shape", out
    # the end tag line (an ancestor's end tag may follow it on the same line: that is not this property's business)
    for b in range(a + 1, len(lines)):
        if lines[b].startswith(ind * d + "</p>"):
            return "lines", lines[a + 1:b]
    return "shape", out


def first_word(s):
    return s.split(" ", 1)[0]


def classify(finding, case):
    if finding["cls"] == "text-length-equals-width":
        return len(esc_text(" ".join(case["words"]))) == case["width"] and case["indentation"] != ""
    if finding["cls"] == "oneline-boundary-whitespace":
        # the one-line form keeps the blanks at the start/end of every text node (un-reduced text; boundaries between
        # adjacent text nodes) that the fitting test did not count: the line is longer than the width by at most those
        l = case.get("line")
        if l is None:
            return False
        content = l.lstrip(" \t")
        extra = 0
        for piece in (case.get("pieces") or [source_text(case)]):
            cp = re.sub(r"\s+", " ", piece)
            extra += len(cp) - len(cp.strip(" "))
        return extra > 0 and len(content) - extra <= case["width"]
    return False


def check_cases(ctx, cases):
    impl_out = []
    for c in cases:
        try:
            impl_out.append(run_impl(c))
        except Exception as e:  # noqa: BLE001
            ctx.fail("serialize raised %s: %s" % (type(e).__name__, e), c, classify)
            impl_out.append(None)
    terms = ["enc_lines (wrap_text %s (%d)%%Z)" % (cstr(r[1]), c["width"]) for c, r in zip(cases, impl_out) if r]
    vals = ctx.coq_eval("c19", REQ, terms, chunk=300)
    # the whole output against the model of the wrapping serializer (Ws/Wrap.v, the one C03's theorems are about)
    trees = [c.pop("_tree", None) for c in cases]
    fterms = ["enc_str (wrap_str %s false (%d)%%Z %s [])" % (cstr(c["indentation"]), c["width"], cnode(t))
              for c, r, t in zip(cases, impl_out, trees) if r]
    fvals = ctx.coq_eval("c19f", REQ, fterms, chunk=100)
    i = 0
    for c, r in zip(cases, impl_out):
        if r is None:
            continue
        model, full = vals[i], fvals[i]
        i += 1
        out, escaped = r
        if full is None:
            ctx.mismatch("wrap_str evaluation", "coqc failed on the case file")
        elif c.get("pieces"):
            pass        # Ws/Wrap.v is about coalesced trees (what a parser yields); a run of adjacent text nodes is C04's
        elif "".join(chr(x) for x in full[1:]) != out:
            ctx.mismatch("serialize(FormatOptions(width, indentation)) vs wrap_str (Ws/Wrap.v)",
                         {"case": c, "impl": out, "model": "".join(chr(x) for x in full[1:])})
        kind, raw = text_lines(out, c, escaped)
        ctx.count(1, kind)
        ctx.sample({"case": c, "output": out})
        if kind == "shape":
            ctx.fail("a text-only element is not written as start tag / text lines / end tag", dict(c, output=out), classify)
            continue
        if model is None:
            ctx.mismatch("wrap_text evaluation", "coqc failed on the case file")
            continue
        # decode model lines
        n, pos, mlines = model[0], 1, []
        if n == 999999:
            ctx.mismatch("wrap_text ran out of fuel", c)
            continue
        for _ in range(n):
            ln = model[pos]
            mlines.append("".join(chr(x) for x in model[pos + 1:pos + 1 + ln]))
            pos += 1 + ln
        if kind == "oneline":
            # the element was judged to fit: the line that holds it is then not longer than the width (unless the text
            # is one unbreakable word - never so on the code as it is, the model says what it does there)
            for l in out.split("\n"):
                if "<p>" in l and "</p>" in l:
                    content = l.lstrip(" \t")
                    if len(content) > c["width"] and " " in escaped:
                        ctx.fail("the one-line form of a text-only element is longer than the width although its text can be "
                                 "broken", dict(c, line=l, output=out), classify)
            continue
        if len(raw) > 1:
            ctx.nontrivial_case((tuple(c["words"]), c["width"], c["indentation"], c["depth"]))
        prefix = c["indentation"] * (c["depth"] + 1)
        contents = [l[len(prefix):] if l.startswith(prefix) else l.lstrip(" \t") for l in raw]
        # correspondence: what the serializer emits for the element is the generated _wrap_text on the escaped text
        if contents != mlines:
            ctx.mismatch("text lines of a text-only element vs Gen.wrap_text", {"case": c, "impl": raw, "model": mlines})
        # the property itself, on the implementation
        w = c["width"]
        if " ".join(contents) != escaped:
            ctx.fail("words were split, joined, reordered or lost", dict(c, lines=raw), classify)
        for l in contents:
            if len(l) > w and " " in l:
                ctx.fail("a breakable line is longer than the width", dict(c, lines=raw), classify)
        for l1, l2 in zip(contents, contents[1:]):
            if len(l1) + 1 + len(first_word(l2)) <= w:
                ctx.fail("a line is shorter than necessary (the next word would have fitted)", dict(c, lines=raw), classify)
        for l in raw:
            if not l.startswith(prefix) or l[len(prefix):len(prefix) + 1] in (" ", "\t"):
                ctx.fail("a text line does not carry the indentation of its depth", dict(c, lines=raw), classify)
                break


def replay_open(f):
    c = dict(f["witness"])
    out, escaped = run_impl(c)
    if f.get("cls") == "oneline-boundary-whitespace":
        return any("<p>" in l and "</p>" in l and " " in l.strip() and len(l.lstrip(" \t")) > c["width"]
                   for l in out.split("\n"))
    kind, raw = text_lines(out, c, escaped)
    prefix = c["indentation"] * (c["depth"] + 1)
    return kind == "lines" and any(not l.startswith(prefix) for l in raw)


def run(ctx, args):
    ctx.regen(["GenWs.v", "GenNames.v", "GenReduce.v", "GenWrap.v", "GenPretty.v"])
    ctx.build("Props/C19.vo")
    if args.replay:
        with open(args.replay) as f:
            rep = json.load(f)
        if rep.get("case"):
            check_cases(ctx, [{k: rep["case"][k] for k in ("words", "width", "indentation", "depth", "lead", "trail", "sep", "pieces", "toggle")
                               if k in rep["case"]}])
        return ctx.finish("replay of " + args.replay, replay_open=replay_open)
    quick = ctx.tier == "quick"
    cases = []
    # small exhaustive part: all word-length pairs/triples around small widths
    for w in (1, 2, 3, 4, 5):
        for a in range(1, w + 3):
            for b in range(1, w + 3):
                cases.append({"words": ["a" * a, "b" * b], "width": w, "indentation": "  ", "depth": 1})
                if not quick or (a + b) % 2 == 0:
                    cases.append({"words": ["a" * a, "b" * b, "c" * max(1, w - a)], "width": w, "indentation": " ", "depth": 0})
    # fixed cases for configurations that seeded changes needed: white space on both sides of a text-node boundary,
    # leading white space with the words taking exactly width-1 / width characters, escaped characters at the limit
    for w in (6, 7, 8, 12):
        for ind, depth in (("  ", 1), ("\t", 2), ("", 1), (" ", 0)):
            cases.append({"words": ["ab", "cd", "ef", "gh"], "width": w, "indentation": ind, "depth": depth,
                          "pieces": ["ab cd ", " ef gh"]})
            cases.append({"words": ["ab", "cd", "ef"], "width": w, "indentation": ind, "depth": depth,
                          "pieces": ["ab ", " ", " cd", " ", "ef"]})
            for k in (w - 2, w - 1, w):
                if k >= 3:
                    cases.append({"words": ["a" * (k - 2), "b"], "width": w, "indentation": ind, "depth": depth, "lead": " "})
                    cases.append({"words": ["a" * (k - 2), "b"], "width": w, "indentation": ind, "depth": depth, "lead": "\n ",
                                  "trail": " "})
    for w in (12, 16, 20, 28):
        for depth in (0, 1, 2):
            for extra in (-1, 0, 1, 2):
                n = max(1, (w - 7 + extra) // 6)
                words = ["Q&A"] * n           # 3 characters raw, 7 written
                cases.append({"words": words, "width": w, "indentation": "  ", "depth": depth})
                cases.append({"words": words + ["a<b"], "width": w, "indentation": " ", "depth": depth})
    for w in (5, 9, 16):
        for toggle in ("delete",):
            for depth in (0, 1, 2):
                cases.append({"words": ["ab", "cde", "f", "ghij", "kl"], "width": w, "indentation": "  ", "depth": depth,
                              "toggle": toggle})
        for sep in ("\u3000", "\u00a0", "\u2003"):
            cases.append({"words": ["alpha", "beta", "gamma"], "width": w, "indentation": " ", "depth": 1, "sep": sep})
            cases.append({"words": ["a", "b", "c", "d"], "width": w, "indentation": "", "depth": 0, "sep": sep, "lead": sep})
    for _ in range(700 if quick else 15000):
        cases.append(gen_case(ctx.rng, quick))
    check_cases(ctx, cases)
    return ctx.finish(
        rule="text-only element <p> at depth 0-3 holding words joined by single spaces; word lengths biased to width-2..width+2, "
             "unbreakable words, prefixes ending exactly at the width; characters incl. & < (escaped) and non-ASCII; widths 1-12 "
             "(thorough: up to 40), five indentation strings; source text optionally with leading/trailing whitespace and longer "
             "whitespace runs between the words, and optionally spread over several adjacent (API-made) text nodes; plus all word-length pairs/triples for widths 1-5. Non-trivial = more "
             "than one text line; distinct by (words, width, indentation, depth).",
        replay_open=replay_open)


if __name__ == "__main__":
    common.main(run, "C19")
