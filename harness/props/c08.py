"""C08 - observing a tree has no side effects, and default filters stay the caller's.

Proved (Coq, over summaries regenerated from /repo's AST on every run): the stack discipline - library routines whose
segments between suspension points are balanced never disturb the default-filter stack the caller's own blocks
established, under any interleaving (Props/C08.v: C08_frame_real for all routines of the current source).

Differential testing (this file, nothing proved): (a) the stack discipline observed on the running code through an
instrumented deque in place of `_delb.nodes.default_filters` (depth/top before, inside loop bodies and after calls,
suspended and abandoned iterators in all orders of up to three generators); (b) observers leave content and node
identity unchanged; (c) the results of the operations the property lists are the same under every ambient filter
setting as under `()`.
"""
import contextlib
import itertools
import json
import os
import sys
from collections import deque

import common
import impl
from impl import (Document, TagNode, TextNode, CommentNode, ProcessingInstructionNode, FormatOptions,
                  altered_default_filters, is_tag_node, is_text_node, is_comment_node, is_processing_instruction_node,
                  compare_trees, extract, build, to_xml, no_gc)

nodes = impl._nodes
sys.path.insert(0, os.path.join(common.VERIF, "translate"))

REPO_PREFIXES = (os.path.realpath(common.REPO) + os.sep,)


# ------------------------------------------------------------------------------------------ instrumented stack
class RecordingDeque(deque):
    """stands in for `_delb.nodes.default_filters`; remembers which function pushed each entry and notices pops of
    an entry by a function that did not push it"""

    def __init__(self, it):
        super().__init__(it)
        self.owners = ["base"] * len(self)
        self.wrong_pops = []
        self.n_push = 0

    @staticmethod
    def _who():
        f = sys._getframe(2)                      # caller of append/pop: the altered_default_filters generator frame
        while f is not None:
            fn = f.f_code.co_filename
            if f.f_code.co_name == "altered_default_filters" and fn.endswith("nodes.py"):
                f = f.f_back
                continue
            if os.path.basename(fn) == "contextlib.py":
                if f.f_code.co_name == "inner" and "func" in f.f_locals:
                    return getattr(f.f_locals["func"], "__qualname__", "?")
                f = f.f_back
                continue
            if os.path.realpath(fn).startswith(REPO_PREFIXES):
                return getattr(f.f_code, "co_qualname", f.f_code.co_name)
            return "client"
        return "finaliser"

    def append(self, x):
        self.owners.append(self._who())
        self.n_push += 1
        super().append(x)

    def pop(self):
        who = self._who()
        owner = self.owners.pop() if self.owners else "?"
        if owner != who and who != "finaliser":
            self.wrong_pops.append((who, owner))
        return super().pop()


class Stack:
    """installs the recording deque and knows what the client itself established"""

    def __enter__(self):
        self.orig = nodes.default_filters
        self.base = list(self.orig)
        self.rec = RecordingDeque(self.base)
        nodes.default_filters = self.rec
        self.expected = list(self.base)
        return self

    def __exit__(self, *a):
        nodes.default_filters = self.orig

    def reset(self):
        self.rec.clear()
        self.rec.extend(self.base)
        self.rec.owners = ["base"] * len(self.base)
        self.rec.wrong_pops = []
        self.expected = list(self.base)

    @contextlib.contextmanager
    def client(self, layers):
        """the client's own blocks: layers [(filters, extend)]; None = leave the stack alone"""
        with contextlib.ExitStack() as st:
            for filters, extend in (layers or []):
                top = self.expected[-1]
                st.enter_context(altered_default_filters(*filters, extend=extend))
                self.expected.append(top + tuple(filters) if extend else tuple(filters))
            try:
                yield
            finally:
                for _ in (layers or []):
                    self.expected.pop()

    def view_ok(self):
        return list(self.rec) == self.expected and not self.rec.wrong_pops

    def blame(self):
        owners = [o for o, e in zip(self.rec.owners, list(self.rec)) if o not in ("base", "client")]
        owners += [w for w, _ in self.rec.wrong_pops if w != "client"]
        return sorted(set(owners))


def check_view(ctx, st, where, case):
    """the stack the caller sees must be the one its own blocks established"""
    ctx.count(1, "stack view: " + where.split(" [")[0])
    if st.view_ok():
        return True
    c = dict(case, where=where, owners=st.blame(), depth_seen=len(st.rec), depth_expected=len(st.expected),
             top_seen=names(st.rec[-1]) if len(st.rec) else None, top_expected=names(st.expected[-1]))
    ctx.fail("the default filters seen by the calling code are not the caller's own (%s)" % where, c, classify)
    return False


def names(t):
    return [getattr(f, "__name__", repr(f)) for f in t]


# ------------------------------------------------------------------------------------------ ambient settings
def _not_b(n):
    return not (isinstance(n, TagNode) and n.local_name == "b")


def _none(n):
    return False


AMBIENT = [
    ("none ()", [((), False)]),
    ("library default", None),
    ("is_tag_node", [((is_tag_node,), False)]),
    ("is_text_node", [((is_text_node,), False)]),
    ("is_comment_node", [((is_comment_node,), False)]),
    ("is_processing_instruction_node", [((is_processing_instruction_node,), False)]),
    ("custom: no tag named b", [((_not_b,), False)]),
    ("custom: rejects everything", [((_none,), False)]),
    ("nested: comments, then tags", [((is_comment_node,), False), ((is_tag_node,), False)]),
    ("nested extend: text + custom", [((is_text_node,), False), ((_not_b,), True)]),
    ("nested extend on default: + comments", [((is_comment_node,), True)]),
]


# ------------------------------------------------------------------------------------------ documents
def gen_el(rng, depth):
    kids = []
    for _ in range(rng.choice([0, 1, 2, 2, 3, 4])):
        q = rng.random()
        if q < 0.3:
            kids.append(("text", rng.choice(["t", " x ", "a  b", "\n  "])))
        elif q < 0.42:
            kids.append(("comment", rng.choice(["c", " d "])))
        elif q < 0.5:
            kids.append(("pi", "p", rng.choice(["y", ""])))
        elif depth > 0:
            kids.append(gen_el(rng, depth - 1))
        else:
            kids.append(("tag", "", rng.choice(["a", "b"]), [], []))
    attrs = [("", "k", "v")] if rng.random() < 0.3 else []
    return ("tag", "", rng.choice(["a", "b", "c"]), attrs, kids)


FIXED = ("tag", "", "r", [("", "k", "v")],
         [("text", "t"), ("tag", "", "a", [], [("tag", "", "b", [], [("text", " x ")]), ("comment", "c")]), ("comment", "d"),
          ("tag", "", "b", [], [("tag", "", "c", [], [("tag", "", "a", [], [])])]), ("pi", "p", "y"), ("text", "tail")])


def make_doc(spec):
    """spec = {"tree":..., "route": "parse"|"api"}; parse route has a prologue and an epilogue"""
    if spec["route"] == "parse":
        return Document("<!--p1--><?pp x?>" + to_xml(spec["tree"]) + "<!--e1--><?ee y?><!--e2-->")
    return Document(build(spec["tree"]))


def all_nodes(root):
    """every node of the tree in document order, seen without filters"""
    with altered_default_filters():
        return [root] + list(root.iterate_descendants())


def path_of(node):
    with altered_default_filters():
        p = []
        while node.parent is not None:
            p.append(node.index)
            node = node.parent
        return list(reversed(p))


def node_at(root, path):
    with altered_default_filters():
        n = root
        for i in path:
            n = n[i]
        return n


def snapshot(doc):
    with altered_default_filters():
        return (extract(doc.root), [extract_any(n) for n in doc.prologue], [extract_any(n) for n in doc.epilogue])


def extract_any(n):
    return extract(n)        # always under `()`, whatever the caller of the operation has active


# ------------------------------------------------------------------------------------------ part (a)+(b): observers
def _ser(n):
    return n.serialize()


def _ser_pretty(n):
    return n.serialize(format_options=FormatOptions(align_attributes=False, indentation="  ", width=0))


def _ser_wrapped(n):
    return n.serialize(format_options=FormatOptions(align_attributes=False, indentation=" ", width=12))


OBSERVERS = [
    ("serialize", lambda d, n: _ser(n)),
    ("serialize indented", lambda d, n: _ser_pretty(n)),
    ("serialize wrapped", lambda d, n: _ser_wrapped(n)),
    ("str(document)", lambda d, n: str(d)),
    ("str(node)", lambda d, n: str(n)),
    ("xpath", lambda d, n: [len(n.xpath(e)) for e in XPATHS] if isinstance(n, TagNode) else None),
    ("css_select", lambda d, n: [len(n.css_select(e)) for e in CSS] if isinstance(n, TagNode) else None),
    ("clone", lambda d, n: n.clone(deep=True) and None),
    ("document.clone", lambda d, n: d.clone() and None),
    ("compare_trees", lambda d, n: bool(compare_trees(n, n.clone(deep=True)))),
    ("location_path", lambda d, n: n.location_path if isinstance(n, TagNode) else None),
    ("depth", lambda d, n: n.depth),
    ("len/index/first/last", lambda d, n: (len(n), n.index, n.first_child is None, n.last_child is None)
     if isinstance(n, TagNode) else n.index),
    ("fetch siblings", lambda d, n: (n.fetch_following_sibling() is None, n.fetch_preceding_sibling() is None,
                                     n.fetch_following() is None, n.fetch_preceding() is None)),
    ("full_text", lambda d, n: n.full_text),
    ("iterate_children", lambda d, n: len(list(n.iterate_children()))),
    ("iterate_descendants", lambda d, n: len(list(n.iterate_descendants()))),
    ("iterate_following", lambda d, n: len(list(n.iterate_following()))),
    ("iterate_preceding", lambda d, n: len(list(n.iterate_preceding()))),
    ("iterate_following_siblings", lambda d, n: len(list(n.iterate_following_siblings()))),
    ("iterate_preceding_siblings", lambda d, n: len(list(n.iterate_preceding_siblings()))),
    ("iterate_ancestors", lambda d, n: len(list(n.iterate_ancestors()))),
    ("prologue/epilogue", lambda d, n: (len(d.prologue), len(d.epilogue), [str(x) for x in d.epilogue])),
]
XPATHS = ["//a", "//b[1]", "descendant::*", ".//c/a", "//*[@k]", "following::*", "preceding::*", "//text()", "//comment()"]
CSS = ["a", "a b", "b > c", "*"]

GENERATORS = [
    ("iterate_children", lambda d, n: n.iterate_children()),
    ("iterate_descendants", lambda d, n: n.iterate_descendants()),
    ("iterate_following", lambda d, n: n.iterate_following()),
    ("iterate_preceding", lambda d, n: n.iterate_preceding()),
    ("iterate_following_siblings", lambda d, n: n.iterate_following_siblings()),
    ("iterate_preceding_siblings", lambda d, n: n.iterate_preceding_siblings()),
    ("iterate_ancestors", lambda d, n: n.iterate_ancestors()),
    ("epilogue._iter_all", lambda d, n: d.epilogue._iter_all()),
    ("prologue._iter_all", lambda d, n: d.prologue._iter_all()),
    ("xpath results", lambda d, n: iter(d.root.xpath("//*"))),
    ("document.xpath results", lambda d, n: iter(d.xpath("//*"))),
]


def safe_next(g):
    try:
        next(g)
        return True
    except StopIteration:
        return False


def observers_on(ctx, st, spec, doc, quick):
    ns = all_nodes(doc.root)
    before = snapshot(doc)
    targets = [n for n in ns if isinstance(n, TagNode)][:3] + [n for n in ns if not isinstance(n, TagNode)][:2]
    if quick:
        targets = targets[:1] + targets[3:4]
    for (aname, layers), target in itertools.product(AMBIENT, targets):
        case0 = {"doc": spec, "ambient": aname, "target": path_of(target)}
        for oname, op in OBSERVERS:
            case = dict(case0, op=oname)
            with st.client(layers):
                try:
                    op(doc, target)
                except Exception as e:  # noqa: BLE001  (whether it may raise belongs to part (c))
                    case["raised"] = type(e).__name__
                inside_ok = check_view(ctx, st, "after the call, inside the caller's block", case)
            ok = check_view(ctx, st, "after the caller's block", case)
            if not (ok and inside_ok):
                st.reset()
        # content and identity after all observers under this ambient setting
        ctx.count(1, "read-only: content and identity")
        after = snapshot(doc)
        if after != before:
            ctx.fail("an observer changed the tree's content", dict(case0, before=before, after=after), classify)
            before = after
        ns2 = all_nodes(doc.root)
        if len(ns2) != len(ns) or any(a is not b for a, b in zip(ns, ns2)):
            ctx.fail("an observer changed the identity of nodes", case0, classify)
            ns = ns2


def generators_on(ctx, st, spec, doc, quick):
    ns = all_nodes(doc.root)
    tags = [n for n in ns if isinstance(n, TagNode)]
    mid = tags[len(tags) // 2]
    ambients = AMBIENT if not quick else [AMBIENT[i] for i in (0, 1, 4, 8)]
    # one generator: suspended, resumed, abandoned by close / by dropping it / by break, exhausted
    for (aname, layers), (gname, mk) in itertools.product(ambients, GENERATORS):
        for target in ([doc.root, mid] if gname.startswith("iterate") else [doc.root]):
            for how in ("close", "del", "exhaust", "break"):
                case = {"doc": spec, "ambient": aname, "op": gname, "target": path_of(target), "abandon": how}
                ok = True
                with st.client(layers):
                    g = mk(doc, target)
                    ok &= check_view(ctx, st, "generator created", case)
                    if how in ("close", "del"):
                        safe_next(g)
                        ok &= check_view(ctx, st, "inside the loop body [first item]", case)
                        safe_next(g)
                        ok &= check_view(ctx, st, "inside the loop body [second item]", case)
                        if how == "close":
                            g.close()
                        del g
                        ok &= check_view(ctx, st, "iterator abandoned", case)
                    else:
                        for i, _ in enumerate(g):
                            ok &= check_view(ctx, st, "inside the loop body [for]", case)
                            if how == "break" and i == 0:
                                break
                            if not ok:
                                break
                        del g
                        ok &= check_view(ctx, st, "after the loop", case)
                ok &= check_view(ctx, st, "after the caller's block", case)
                if not ok:
                    st.reset()
    # up to three generators, all start orders x all abandonment orders, the caller entering a block of its own
    # while they are suspended
    kinds = [g for g in GENERATORS if g[0] in ("iterate_descendants", "iterate_children", "epilogue._iter_all",
                                                "iterate_preceding", "prologue._iter_all", "iterate_following")]
    combos = list(itertools.combinations_with_replacement(range(len(kinds)), 2)) + \
        list(itertools.combinations_with_replacement(range(len(kinds)), 3))
    if quick:
        combos = ctx.rng.sample(combos, 10)
    for combo in combos:
        for order in sorted(set(itertools.permutations(range(len(combo))))):
            for own_at in ((None,) if quick and ctx.rng.random() < 0.5 else (None, 1)):
                case = {"doc": spec, "op": "interleaving", "generators": [kinds[k][0] for k in combo],
                        "abandon_order": list(order), "caller_block_after_start": own_at}
                ok = True
                with st.client([((is_comment_node,), False)]):
                    gens = []
                    with contextlib.ExitStack() as own:
                        for i, k in enumerate(combo):
                            g = kinds[k][1](doc, doc.root if i % 2 == 0 else mid)
                            safe_next(g)
                            gens.append(g)
                            ok &= check_view(ctx, st, "inside the loop body [generator %d suspended]" % i, case)
                            if own_at == i + 1:
                                own.enter_context(st.client([((is_text_node,), False)]))
                                ok &= check_view(ctx, st, "inside the caller's nested block", case)
                        for i in order:
                            safe_next(gens[i])
                            ok &= check_view(ctx, st, "inside the loop body [generator resumed]", case)
                        for i in order:
                            gens[i].close()
                            ok &= check_view(ctx, st, "iterator abandoned [out of order]", case)
                    ok &= check_view(ctx, st, "after the caller's nested block", case)
                ok &= check_view(ctx, st, "after the caller's block", case)
                if not ok:
                    st.reset()


def resumed_elsewhere_on(ctx, st, spec, doc):
    """iterate_children / iterate_descendants read the ambient filters once, when they are started: an iterator that
    is started under one ambient setting and resumed under another yields what the specification says for the
    setting it was started under - the pre-order descendants (the children) that pass that setting's filters"""
    ns = all_nodes(doc.root)
    tags = [n for n in ns if isinstance(n, TagNode)]
    targets = [doc.root] + ([tags[len(tags) // 2]] if len(tags) > 2 else [])
    settings = [AMBIENT[i] for i in (0, 1, 2, 4, 7, 8)]
    for target in targets:
        with altered_default_filters():
            unfiltered = {"iterate_descendants": list(target.iterate_descendants()),
                          "iterate_children": list(target.iterate_children())}
        for (aname, alayers), (bname, blayers) in itertools.product(settings, settings):
            if aname == bname:
                continue
            for gname in ("iterate_descendants", "iterate_children"):
                for consumed in (1, 2, 3):
                    case = {"doc": spec, "op": gname + " resumed under another ambient setting", "target": path_of(target),
                            "started_under": aname, "resumed_under": bname, "consumed_before": consumed}
                    ctx.count(1, "iterator started under one ambient setting, resumed under another")
                    with st.client(alayers):
                        preds = tuple(nodes.default_filters[-1])
                        g = getattr(target, gname)()
                        got = []
                        for _ in range(consumed):
                            try:
                                got.append(next(g))
                            except StopIteration:
                                break
                    with st.client(blayers):
                        got.extend(g)
                    del g
                    with altered_default_filters():
                        expected = [n for n in unfiltered[gname] if all(f(n) for f in preds)]
                    if len(got) != len(expected) or any(x is not y for x, y in zip(got, expected)):
                        ctx.fail("an iterator resumed under other ambient default filters does not yield what it yields "
                                 "when consumed in one go", dict(case, got=[path_of(n) for n in got],
                                                                expected=[path_of(n) for n in expected]), classify)
                    if not st.view_ok():
                        st.reset()


# ------------------------------------------------------------------------------------------ part (c): insensitivity
def paths_of(nodes_):
    return [path_of(n) for n in nodes_]


def op_detach(doc, n, retain):
    d = n.detach(retain_child_nodes=retain)
    return [extract_any(d), extract(doc.root)]


LISTED = [
    ("serialize", "any", lambda doc, n: [_ser(n), _ser_pretty(n), _ser_wrapped(n), str(doc)]),
    ("xpath", "tag", lambda doc, n: [paths_of(n.xpath(e)) for e in XPATHS] + [paths_of(doc.xpath("//b"))]),
    ("css_select", "tag", lambda doc, n: [paths_of(n.css_select(e)) for e in CSS] + [paths_of(doc.css_select("a b"))]),
    ("clone", "any", lambda doc, n: [extract_any(n.clone(deep=True)), extract_any(n.clone()), extract(doc.clone().root)]),
    ("detach", "nonroot", lambda doc, n: op_detach(doc, n, False)),
    ("detach retaining children", "nonroot-tag", lambda doc, n: op_detach(doc, n, True)),
    ("merge_text_nodes", "tag", lambda doc, n: [n.merge_text_nodes(), extract(doc.root)][1:]),
    ("reduce_whitespace", "root", lambda doc, n: [doc.reduce_whitespace(), extract(doc.root)][1:]),
    ("location_path", "tag", lambda doc, n: n.location_path),
    ("depth", "any", lambda doc, n: n.depth),
    ("iterate_ancestors", "any", lambda doc, n: paths_of(list(n.iterate_ancestors()))),
    ("document", "any", lambda doc, n: [n.document is doc, n in doc]),
]
TRUTHINESS_OPS = ("depth", "iterate_ancestors", "document")


def ancestor_falsy(n, layers):
    """some ancestor of n has no child that passes the ambient filters (so `if parent:` is False for it)"""
    with contextlib.ExitStack() as st:
        for filters, extend in (layers or []):
            st.enter_context(altered_default_filters(*filters, extend=extend))
        p = n.parent
        while p is not None:
            if len(p) == 0:
                return True
            p = p.parent
    return False


def run_listed(op, spec, path, layers):
    doc = make_doc(spec)
    n = node_at(doc.root, path)
    with contextlib.ExitStack() as st:
        for filters, extend in (layers or []):
            st.enter_context(altered_default_filters(*filters, extend=extend))
        try:
            r = op(doc, n)
        except Exception as e:  # noqa: BLE001
            r = "raised " + type(e).__name__
    return json.loads(json.dumps(r, default=str)), doc, n


def insensitivity_on(ctx, spec, quick):
    doc0 = make_doc(spec)
    ns = all_nodes(doc0.root)
    plist = paths_of(ns)
    kinds = {tuple(p): ("tag" if isinstance(n, TagNode) else "other") for p, n in zip(plist, ns)}
    if quick and len(plist) > 6:
        plist = [plist[0]] + ctx.rng.sample(plist[1:], 5)
    for oname, dom, op in LISTED:
        for p in plist:
            k = kinds[tuple(p)]
            if dom in ("tag", "nonroot-tag") and k != "tag":
                continue
            if dom in ("nonroot", "nonroot-tag") and not p:
                continue
            if dom == "root" and p:
                continue
            ref, _, _ = run_listed(op, spec, p, [((), False)])
            for aname, layers in AMBIENT[1:]:
                got, doc, n = run_listed(op, spec, p, layers)
                ctx.count(1, "insensitivity: " + oname)
                if got != ref:
                    ctx.nontrivial_case((oname, aname, json.dumps(spec), tuple(p), "differs"))
                    case = {"doc": spec, "op": oname, "ambient": aname, "target": p, "under_ambient": got, "under_none": ref,
                            "ancestor_falsy": ancestor_falsy(node_at(make_doc(spec).root, p), layers)}
                    ctx.fail("the result of %s depends on the caller's default filters" % oname, case, classify)
                else:
                    ctx.nontrivial_case((oname, aname, json.dumps(spec), tuple(p)))
                if len(ctx.cov["samples"]) < 4 and aname == "is_comment_node" and p:
                    ctx.sample({"doc": spec, "op": oname, "target": p, "ambient": aname, "under_ambient": got, "under_none": ref})


# ------------------------------------------------------------------------------------------ static part
def static_rows():
    import gen_filters
    rows = []
    for path in gen_filters.files():
        o, _r, _n = gen_filters.scan_file(path, os.path.relpath(path, common.REPO))
        rows += o
    return rows


def seg_ok(seg):
    d = 0
    for op in seg:
        if op == "LPush":
            d += 1
        else:
            if d == 0:
                return False
            d -= 1
    return d == 0


def static_check(ctx):
    try:
        rows = static_rows()
    except Exception as e:  # noqa: BLE001 (the translator obligation has reported it already)
        ctx.notes.append("static scan failed: %r" % e)
        return
    for rel, name, dec, gen, segs in rows:
        ctx.count(1, "static: function using altered_default_filters")
        if not all(seg_ok(s) for s in segs):
            ctx.fail("yield under altered_default_filters in %s" % name,
                     {"static": True, "reason": "yield-under-with", "owners": [name], "file": rel, "segments": segs}, classify)
        elif dec and gen:
            ctx.fail("@altered_default_filters on generator function %s has no effect while it runs" % name,
                     {"static": True, "reason": "decorated-generator", "owners": [name], "file": rel}, classify)


# ------------------------------------------------------------------------------------------ known findings
def classify(finding, case):
    cls = finding["cls"]
    if cls == "yield-under-altered-default-filters":
        if case.get("static") and case.get("reason") != "yield-under-with":
            return False
        owners = case.get("owners")
        return bool(owners) and set(owners) <= set(finding["functions"])
    if cls == "decorated-generator-function":
        return bool(case.get("static")) and case.get("reason") == "decorated-generator" and \
            set(case.get("owners", ["?"])) <= set(finding["functions"])
    if cls == "node-truthiness-under-ambient-filter":
        return case.get("op") in TRUTHINESS_OPS and bool(case.get("ancestor_falsy"))
    return False


def replay_open(f):
    w = f["witness"]
    with no_gc():
        doc = Document(w["xml"])
        if f["cls"] == "yield-under-altered-default-filters":
            with Stack() as st:
                with st.client([((is_comment_node,), False)]):
                    for _ in doc.root.iterate_descendants():
                        return not st.view_ok()
            return False
        n = node_at(doc.root, w["target"])
        if f["cls"] == "node-truthiness-under-ambient-filter":
            with altered_default_filters():
                ref = n.depth
            with altered_default_filters(is_comment_node):
                return n.depth != ref
        if f["cls"] == "decorated-generator-function":
            with altered_default_filters():
                ref = len(list(n.iterate_preceding()))
            with altered_default_filters(is_comment_node):
                return len(list(n.iterate_preceding())) != ref
    return True


# ------------------------------------------------------------------------------------------ driver
def run_spec(ctx, spec, quick, parts):
    with no_gc():
        if "stack" in parts:
            with Stack() as st:
                doc = make_doc(spec)
                observers_on(ctx, st, spec, doc, quick)
                generators_on(ctx, st, spec, doc, quick)
                if spec.get("fixed"):
                    resumed_elsewhere_on(ctx, st, spec, doc)
        if "insensitivity" in parts:
            insensitivity_on(ctx, spec, quick)


def run(ctx, args):
    ctx.regen(["GenFilterFx.v"])
    ctx.build("Props/C08.vo")
    ctx.build("Props/C08Nav.vo")      # insensitivity of the navigation observers (Conc/CNav model, tied by harness/props/c05.py)
    static_check(ctx)
    saved = list(nodes.default_filters)
    try:
        if args.replay:
            with open(args.replay) as f:
                rep = json.load(f)
            case = rep.get("case") or {}
            if case.get("doc"):
                spec = {"tree": tuple_tree(case["doc"]["tree"]), "route": case["doc"]["route"], "fixed": bool(case["doc"].get("fixed"))}
                run_spec(ctx, spec, False, ("stack", "insensitivity"))
            return ctx.finish("replay of " + args.replay, replay_open=replay_open)
        quick = ctx.tier == "quick"
        specs = [{"tree": FIXED, "route": "parse", "fixed": True}, {"tree": FIXED, "route": "api", "fixed": True}]
        for i in range(8 if quick else 200):
            specs.append({"tree": gen_el(ctx.rng, 2), "route": ctx.rng.choice(["parse", "api"])})
        for i, spec in enumerate(specs):
            run_spec(ctx, spec, quick or i >= 6, ("stack", "insensitivity") if (i < 2 or not quick) else ("insensitivity",))
    finally:
        if list(nodes.default_filters) != saved:
            ctx.notes.append("default filter stack restored by the harness after the run")
            nodes.default_filters.clear()
            nodes.default_filters.extend(saved)
    return ctx.finish(
        rule="documents: a fixed tree with every node kind at depths 0-3 (parsed with prologue/epilogue, and API-built with "
             "adjacent text nodes) + random mixed-content trees. Per document: (a) %d observers x %d ambient filter settings x "
             "several target nodes, %d generator kinds suspended / resumed / abandoned by close, del, break or exhausted, and "
             "all start orders x abandonment orders of 2 and 3 generators with a caller block entered in between - the "
             "instrumented default_filters deque is compared with the caller's own blocks at every step; (b) content and node "
             "identity before/after; (c) each of the %d listed operations on every node under every ambient setting against "
             "the run under (). One evaluation = one comparison. Non-trivial (counted for (c)) = distinct (operation, ambient "
             "setting, document, target) with a non-() ambient setting." % (len(OBSERVERS), len(AMBIENT), len(GENERATORS), len(LISTED)),
        replay_open=replay_open,
        explanation="Proved: stack discipline over AST-generated summaries (Props/C08.v). Exercised, not proved: the same "
                    "discipline on the running code, read-only-ness of observers, insensitivity of the listed operations.")


def tuple_tree(t):
    if t[0] == "tag":
        return ("tag", t[1], t[2], [tuple(a) for a in t[3]], [tuple_tree(c) for c in t[4]])
    return tuple(t)


if __name__ == "__main__":
    common.main(run, "C08")
