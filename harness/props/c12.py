"""C12 - a saved document is a complete, decodable copy of the document.

regen (Gen/GenDoc.v from Document.__serialize & co) -> build Props/C12.vo -> correspondence
(bytes of Document.save / write and str(document) against the model's stream, the model's document
reader against lxml, the root setter, the parser options) -> direct search on the written bytes
(declaration, re-read with Document(bytes) and with lxml, root replacement, parser options)."""
import codecs
import io
import json
import os
import pathlib
import shutil
import sys

import common
from common import cstr, cnode, clist, cbool, enc_node
import impl
from impl import (Document, ParserOptions, FormatOptions, extract, no_gc, new_tag_node, new_comment_node,
                  new_processing_instruction_node, CommentNode, ProcessingInstructionNode, TextNode)
from lxml import etree

REQ = ("From Coq Require Import List NArith.\nFrom Delb.Base Require Import PyStr.\n"
       "From Delb.Tree Require Import ATree Encode.\nFrom Delb.Xml Require Import Doc.\n")

SCRATCH = pathlib.Path("/tmp/c12-%d" % os.getpid())

ENCODINGS = ["utf-8", "utf-16", "iso-8859-1", "ascii"]
NEWLINES = {None: "NlNone", "": "NlEmpty", "\n": "NlLF", "\r": "NlCR", "\r\n": "NlCRLF"}
FORMATS = [None, (False, "  ", 0), (True, "\t", 0), (False, " ", 20), (False, "", 0), (False, "  ", 60), (False, "", 15)]

COMMENTS = ["", " c ", "a-b", "multi\nline", " - ", "x" * 30, "é", "€", "<r/> & \"q\""]
PIS = [("p", ""), ("p", "x y"), ("xml-stylesheet", 'href="a.xsl" type="text/xsl"'), ("q", "a?b"), ("q", "?"),
       ("pé", "ü"), ("_t.1-x", "z "), ("P", "two\nlines")]
ROOTS = [
    '<r/>',
    '<r k="v">text <x/> more text and more <y a="1" b="2">inner</y> tail<!--in--><?ip x?></r>',
    '<r xmlns="urn:d" xmlns:p="urn:p"><p:a p:k="v"/><b>plain</b></r>',
    '<root>\n  <a>one</a>\n  <b>two <i>three</i> four</b>\n</root>',
    '<r>a &amp; b &lt; c &gt; d "q"</r>',
    '<r xml:space="preserve">  keep   this  </r>',
    '<t>Lorem ipsum dolor sit amet, consectetur adipiscing elit, sed do eiusmod tempor <hi>incididunt</hi> ut labore</t>',
    '<r>ünïcode <e k="é"/></r>',
    '<r k="ü">€ 漢</r>',
    '<r>\U0001F600<x/>漢</r>',
    '<a><b><c><d>deep</d></c></b><!--c--></a>',
    # "]]>" in character data (must be written with an escaped ">"): inside, at the very start, at the very end
    '<r>a[b[0]]&gt;c</r>',
    '<r>]]&gt;<x/>tail]]&gt;</r>',
    '<r k="]]&gt;">]]&gt;</r>',
]
# "]]>" split over adjacent text nodes (appended to the root through the API)
ADJACENT = [["]]", ">"], ["a]", "]>b"], ["x", "]]>"], ["]", "]", ">"]]


def kind_of(fo):
    if fo is None:
        return "KPlain"
    return "KWrap" if fo[2] else "KPretty"


def fo_obj(fo):
    return None if fo is None else FormatOptions(align_attributes=fo[0], indentation=fo[1], width=fo[2])


def misc_src(m):
    if m[0] == "comment":
        return "<!--%s-->" % m[1]
    return "<?%s %s?>" % (m[1], m[2]) if m[2] else "<?%s?>" % m[1]


def misc_obs(n):
    if isinstance(n, CommentNode):
        return ("comment", n.content)
    if isinstance(n, ProcessingInstructionNode):
        return ("pi", n.target, n.content)
    raise TypeError("root sibling of type %s" % type(n).__name__)


def doc_obs(d):
    """what the document holds: (prologue, root content tree, epilogue)"""
    return ([misc_obs(n) for n in d.prologue], extract(d.root), [misc_obs(n) for n in d.epilogue])


def cdoc(pro, root, epi):
    return "{| prologue := %s; root := %s; epilogue := %s |}" % (
        clist(cnode(m) for m in pro), cnode(root), clist(cnode(m) for m in epi))


def enc_doc(pro, root, epi):
    out = [len(pro)]
    for m in pro:
        out += enc_node(m)
    out += enc_node(root)
    out.append(len(epi))
    for m in epi:
        out += enc_node(m)
    return out


DUMMY = ("text", "")


def as_tuples(x):
    if isinstance(x, list) and x and isinstance(x[0], str) and x[0] in ("tag", "text", "comment", "pi"):
        if x[0] == "tag":
            return ("tag", x[1], x[2], [tuple(a) for a in x[3]], [as_tuples(c) for c in x[4]])
        return tuple(x)
    return x


def make_node(m):
    return new_comment_node(m[1]) if m[0] == "comment" else new_processing_instruction_node(m[1], m[2])


def build_doc(case, reduce):
    """the document of a case; for formatted output the document is whitespace-reduced first"""
    pro, epi = case["pro"], case["epi"]
    if case["route"] == "parse":
        src = "".join(misc_src(m) for m in pro) + case["root"] + "".join(misc_src(m) for m in epi)
        return Document(src, ParserOptions(reduce_whitespace=reduce))
    d = Document(case["root"], ParserOptions(reduce_whitespace=reduce))
    if case.get("prepend"):
        for m in reversed(pro):
            d.prologue.insert(0, make_node(m))
        for m in reversed(epi):
            d.epilogue.insert(0, make_node(m))
    else:
        for m in pro:
            d.prologue.append(make_node(m))
        for m in epi:
            d.epilogue.append(make_node(m))
    if case.get("adjacent"):
        d.root.append_children(*[TextNode(t) for t in case["adjacent"]])
        if reduce:
            d.reduce_whitespace()
    return d


def merge_texts(t):
    """adjacent text nodes concatenated (what any reader delivers)"""
    if t[0] != "tag":
        return t
    kids = []
    for c in t[4]:
        c = merge_texts(c)
        if c[0] == "text" and kids and kids[-1][0] == "text":
            kids[-1] = ("text", kids[-1][1] + c[1])
        else:
            kids.append(c)
    return ("tag", t[1], t[2], t[3], kids)


def root_chunk(d, fo):
    """everything serialize_root writes, obtained from the real serializer (the root tree's serialization is the
    subject of other properties; here it is an opaque string)"""
    nodes = impl._nodes
    ser = nodes._get_serializer(nodes._StringWriter(newline="\n"), format_options=fo_obj(fo), namespaces=None)
    with impl.altered_default_filters():
        with nodes._wrapper_cache:
            ser.serialize_root(d.root)
    return ser.writer.result


class KeepOpen(io.BytesIO):
    def close(self):
        pass


def lxml_obs(root):
    def m(e):
        if e.tag is etree.Comment:
            return ("comment", e.text or "")
        if e.tag is etree.ProcessingInstruction:
            return ("pi", e.target, e.text or "")
        return ("other", str(e.tag))
    pro, e = [], root.getprevious()
    while e is not None:
        pro.append(m(e))
        e = e.getprevious()
    pro.reverse()
    epi, e = [], root.getnext()
    while e is not None:
        epi.append(m(e))
        e = e.getnext()
    return pro, epi


def lxml_tree(e, top=True):
    """an lxml element as nested tuples, prefixes left out (expanded names only)"""
    tail = "" if top else (e.tail or "")
    if e.tag is etree.Comment:
        return ("comment", e.text or "", tail)
    if e.tag is etree.ProcessingInstruction:
        return ("pi", e.target, e.text or "", tail)
    return ("tag", e.tag, tuple(sorted(e.attrib.items())), e.text or "", tuple(lxml_tree(c, False) for c in e), tail)


def same_codec(a, b):
    try:
        return codecs.lookup(a).name == codecs.lookup(b).name
    except LookupError:
        return False


def decode_points(l):
    return "".join(chr(c) for c in l)


# --------------------------------------------------------------------------------------------------
# serialization: model stream vs bytes / str, and the property on the written bytes

def check_serialize(ctx, cases):
    runs = []
    terms = []
    linesep = os.linesep
    for case in cases:
        fo, enc, nl = case["fo"], case["enc"], case["nl"]
        fo = tuple(fo) if fo is not None else None
        r = {"case": case}
        try:
            with no_gc():
                d = build_doc(case, reduce=fo is not None)
                obs = doc_obs(d)
                chunk = root_chunk(d, fo)
        except Exception as e:  # noqa: BLE001
            ctx.mismatch("building the document / obtaining the root serialization", "%s: %s on %r" % (type(e).__name__, e, case))
            continue
        r.update(doc=d, obs=obs, chunk=chunk)
        # Document.save
        path = SCRATCH / "o.xml"
        try:
            d.save(path, encoding=enc, newline=nl, format_options=fo_obj(fo))
            r["saved"] = path.read_bytes()
        except UnicodeEncodeError:
            r["saved"] = None
        except Exception as e:  # noqa: BLE001
            ctx.fail("Document.save raised %s: %s" % (type(e).__name__, e), case)
            continue
        # Document.write to a buffer (must give the same bytes)
        if case.get("also_write") and r["saved"] is not None:
            buf = KeepOpen()
            try:
                d.write(buf, encoding=enc, newline=nl, format_options=fo_obj(fo))
                r["written"] = buf.getvalue()
            except Exception as e:  # noqa: BLE001
                ctx.fail("Document.write raised %s: %s" % (type(e).__name__, e), case)
        # str(document)
        r["str"] = None
        if case.get("also_str", True):
            try:
                impl.delb.DefaultStringOptions.format_options = fo_obj(fo)
                impl.delb.DefaultStringOptions.newline = nl
                r["str"] = str(d)
            except Exception as e:  # noqa: BLE001
                ctx.fail("str(document) raised %s: %s" % (type(e).__name__, e), case)
            finally:
                impl.delb.DefaultStringOptions.reset_defaults()
        D = cdoc(obs[0], DUMMY, obs[2])
        terms.append("obs_serialize %s %s %s %s %s %s" % (kind_of(fo), cstr(enc), cstr(linesep), NEWLINES[nl], cstr(chunk), D))
        r["ti"] = len(terms) - 1
        if r["str"] is not None:
            terms.append("obs_serialize %s %s %s %s %s %s" % (kind_of(fo), cstr("utf-8"), cstr("\n"), NEWLINES[nl], cstr(chunk), D))
        runs.append(r)
    vals = ctx.coq_eval("c12_ser_%d" % os.getpid(), REQ, terms, chunk=150)
    for i, r in enumerate(runs):
        case, obs, d = r["case"], r["obs"], r["doc"]
        fo, enc, nl = case["fo"], case["enc"], case["nl"]
        fo = tuple(fo) if fo is not None else None
        mv = vals[r["ti"]]
        ms = vals[r["ti"] + 1] if r["str"] is not None else []
        shape = "%d+%d" % (len(obs[0]), len(obs[2]))
        ctx.count(1, "serialize/%s/%s/%s/%s" % (kind_of(fo), enc.lower(), repr(nl), case["route"]))
        if (obs[0] or obs[2]) and (enc.lower() != "utf-8" or nl is not None or fo is not None):
            ctx.nontrivial_case((obs, enc, nl, fo))
        if obs[0] and obs[2] and r["saved"]:
            ctx.sample({"prologue": obs[0], "root": case["root"], "epilogue": obs[2], "encoding": enc, "newline": nl,
                        "format": fo, "siblings": shape, "saved": r["saved"].decode(enc, "replace")[:300]})
        if mv is None or ms is None:
            ctx.mismatch("doc_serialize evaluation", "coqc failed on the case file")
            continue
        flags, stream = mv[:4], decode_points(mv[4:])
        in_domain = "\r" not in r["chunk"]
        if flags[0] != 1 or flags[3] != 1:
            ctx.mismatch("generated document left the model's domain (doc_ok / label_ok)", {"case": case, "flags": flags})
            continue
        if flags[1] != 1 or (in_domain and flags[2] != 1):
            ctx.mismatch("premise of C12_roundtrip about the root serialization (root_shape / no_cr) fails on the real serializer",
                         {"case": case, "chunk": r["chunk"][:200], "flags": flags})
        # model stream -> bytes with the codec (H_codec is exercised here: the same codec, then the reader below)
        try:
            expect = stream.encode(enc)
        except UnicodeEncodeError:
            expect = None
        if r["saved"] is None and expect is not None:
            ctx.fail("content representable in %s but Document.save raised UnicodeEncodeError" % enc, case)
            continue
        if r["saved"] is not None and expect is None:
            ctx.mismatch("Document.save wrote a stream the model says is not representable", {"case": case})
            continue
        if r["saved"] is None:
            ctx.count(1, "unrepresentable/" + enc.lower())
            continue
        if r["saved"] != expect:
            ctx.mismatch("doc_serialize + nl_out + codec vs Document.save",
                         {"case": case, "impl": r["saved"][:400].decode("latin-1"), "model": expect[:400].decode("latin-1")})
        if "written" in r and r["written"] != expect:
            ctx.mismatch("doc_serialize + nl_out + codec vs Document.write",
                         {"case": case, "impl": r["written"][:400].decode("latin-1"), "model": expect[:400].decode("latin-1")})
        if r["str"] is not None and decode_points(ms[4:]) != r["str"]:
            ctx.mismatch("doc_str vs str(document)", {"case": case, "impl": r["str"][:400], "model": decode_points(ms[4:])[:400]})
        # ---- the property itself, on the implementation's output
        check_written(ctx, case, obs, d, r["saved"], enc, fo, "save")
        if r["str"] is not None:
            check_written(ctx, case, obs, d, r["str"], "utf-8", fo, "str")


def check_written(ctx, case, obs, d, data, enc, fo, via):
    """declaration names the encoding used and is first; re-read with Document and with lxml gives the document"""
    case = dict(case, via=via)
    if isinstance(data, bytes):
        try:
            text = data.decode(enc)
        except UnicodeDecodeError:
            ctx.fail("written bytes are not decodable with the requested encoding", case)
            return
        raw = data
    else:
        text, raw = data, data.encode("utf-8")
    if text.startswith("﻿"):
        text = text[1:]            # byte order mark of UTF-16: part of the encoding, not of the character stream
    head = '<?xml version="1.0" encoding="'
    end = text.find('"?>')
    if not text.startswith(head) or end < 0:
        ctx.fail("output does not start with an XML declaration", dict(case, head=text[:60]))
        return
    label = text[len(head):end]
    if not same_codec(label, enc):
        ctx.fail("the declaration names %r but the encoding used is %r" % (label, enc), case)
    # order in the stream: declaration < prologue nodes < root < epilogue nodes
    pos = end
    body = text.replace("\r\n", "\n").replace("\r", "\n")
    for m in obs[0]:
        s = "<!--%s-->" % m[1] if m[0] == "comment" else "<?%s %s?>" % (m[1], m[2])
        p = body.find(s, pos)
        if p < 0:
            ctx.fail("a prologue node is missing or out of order in the output", dict(case, node=m))
            return
        pos = p + len(s)
    reduce = fo is not None
    try:
        with no_gc():
            back = Document(raw, ParserOptions(reduce_whitespace=reduce))
            bobs = doc_obs(back)
    except Exception as e:  # noqa: BLE001
        ctx.fail("the written document cannot be read back: %s" % str(e)[:200], dict(case, head=text[:80]))
        return
    if bobs[0] != obs[0]:
        ctx.fail("prologue differs after re-reading", dict(case, before=obs[0], after=bobs[0]))
    if bobs[2] != obs[2]:
        ctx.fail("epilogue differs after re-reading", dict(case, before=obs[2], after=bobs[2]))
    if bobs[1] != merge_texts(obs[1]):
        ctx.fail("root tree differs after re-reading", dict(case, before=obs[1], after=bobs[1]))
    # lxml on the same bytes
    try:
        lroot = etree.fromstring(raw)
    except Exception as e:  # noqa: BLE001
        ctx.fail("lxml cannot read the written document: %s" % str(e)[:200], case)
        return
    lpro, lepi = lxml_obs(lroot)
    if lpro != obs[0] or lepi != obs[2]:
        ctx.fail("lxml reads different root siblings", dict(case, before=[obs[0], obs[2]], after=[lpro, lepi]))
    if isinstance(data, bytes):
        declared = lroot.getroottree().docinfo.encoding
        if not same_codec(declared or "", enc):
            ctx.fail("lxml reports encoding %r for a document saved with %r" % (declared, enc), case)
    if fo is None and not case.get("adjacent"):      # appended text nodes live in delb's objects, not in the lxml tree
        a, b = lxml_tree(lroot), lxml_tree(d.root._etree_obj)
        if a != b:
            ctx.fail("root tree read by lxml differs", dict(case, before=repr(b)[:400], after=repr(a)[:400]))


# --------------------------------------------------------------------------------------------------
# the instances C12_roundtrip_pretty / _wrapped are about: ser_root_fmt (chunk models of Ws/Pretty.v, Ws/Wrap.v at
# the document root) is what serialize_root writes

FMT_ROOTS = [1, 3, 4, 5, 6, 10]        # indices into ROOTS: no namespaces (the domain of the chunk models)


def check_formatted(ctx):
    req = REQ + "From Delb.Xml Require DocPretty.\nFrom Coq Require Import ZArith.\n"
    terms, runs = [], []
    for ri in FMT_ROOTS:
        for fo in FORMATS[1:]:
            with no_gc():
                d = Document(ROOTS[ri], ParserOptions(reduce_whitespace=True))
                t = extract(d.root)
                chunk = root_chunk(d, fo)
            f = ("(DocPretty.FWrap %s %s %d%%Z)" % (cstr(fo[1]), cbool(fo[0]), fo[2]) if fo[2]
                 else "(DocPretty.FPretty %s %s)" % (cstr(fo[1]), cbool(fo[0])))
            terms.append("DocPretty.ser_root_fmt %s %s" % (f, cnode(t)))
            runs.append((ROOTS[ri], fo, chunk))
    vals = ctx.coq_eval("c12_fm_%d" % os.getpid(), req, terms, chunk=20)
    for (src, fo, chunk), v in zip(runs, vals):
        ctx.count(1, "formatted-root/" + kind_of(fo))
        if v is None:
            ctx.mismatch("ser_root_fmt evaluation", "coqc failed on the case file")
        elif decode_points(v) != chunk:
            ctx.mismatch("ser_root_fmt (Ws/Pretty.v, Ws/Wrap.v at the document root) vs serialize_root",
                         {"root": src, "format": fo, "impl": chunk[:300], "model": decode_points(v)[:300]})
        else:
            ctx.nontrivial_case(("formatted-root", src, fo))


# --------------------------------------------------------------------------------------------------
# the model's document reader (with the toy root layer <r/>) vs lxml

DECLS = ["", '<?xml version="1.0" encoding="UTF-8"?>', "<?xml version='1.0' encoding='utf-8'?>", '<?xml version="1.0"?>',
         '<?xml  version = "1.0"  encoding = "ISO-8859-1" ?>', '<?xml version="1.0" encoding="ascii"?>\n',
         "<?xml version='1.1'\tencoding=\"iso-8859-1\"?>"]
WS = ["", "\n", " \t", "\r\n", "\n\n  "]
ILL_FORMED = ["<!--a--b--><r/>", "<!--a---><r/>", "<!--c--><?xml version='1.0'?><r/>", "<?XML x?><r/>", "<r/>x", "<!--a<r/>",
              "\n<?xml version='1.0'?><r/>", "<?xml version='1.0'encoding='utf-8'?><r/>", "<?xml encoding='utf-8'?><r/>",
              "<?1p x?><r/>", "<?a:b x?><r/>", "<?p x?><r/>", "<?xml version='2.0'?><r/>", "<?xml version=''?><r/>",
              "<?p x><r/>", "<r/><!--", "<r/><?p", "<?xml version=\"1.0'?><r/>"]
LOOSE_MISC = ["<!---->", "<!-- a -->", "<!--a-b-->", "<!--é-->", "<!--two\nlines-->", "<?p?>", "<?p ?>", "<?p   x y ?>",
              "<?xml-stylesheet href='a'?>", "<?p a?b??>", "<?p.q-r_s x?>", "<?xmlx a?>", "<?p\n\tx ?>", "<?é?>"]


def gen_stream(rng):
    decl = rng.choice(DECLS)
    pro = [rng.choice(LOOSE_MISC) for _ in range(rng.choice([0, 0, 1, 1, 2, 3]))]
    epi = [rng.choice(LOOSE_MISC) for _ in range(rng.choice([0, 0, 1, 1, 2, 3]))]
    s = decl
    for m in pro:
        s += rng.choice(WS) + m
    s += rng.choice(WS) + "<r/>"
    for m in epi:
        s += rng.choice(WS) + m
    s += rng.choice(WS)
    if not decl and s[:1] in " \t\r\n" and rng.random() < 0.5:
        s = s.lstrip()
    return s


def declared_encoding(s):
    import re
    m = re.match(r"<\?xml[^>]*encoding\s*=\s*[\"']([^\"']+)[\"']", s)
    return m.group(1) if m else None


def check_reader(ctx, streams):
    terms, runs = [], []
    for s, rc, rp in streams:
        enc = declared_encoding(s) or "utf-8"
        try:
            raw = s.encode(enc)
        except UnicodeEncodeError:
            continue
        try:
            with no_gc():
                d = Document(raw, ParserOptions(remove_comments=rc, remove_processing_instructions=rp))
                o = doc_obs(d)
            got = ("ok", o[0], o[2])
        except Exception:  # noqa: BLE001
            got = ("err",)
        terms.append("obs_parse %s %s %s" % (cbool(rc), cbool(rp), cstr(s)))
        runs.append((s, rc, rp, got))
    vals = ctx.coq_eval("c12_rd_%d" % os.getpid(), REQ, terms, chunk=150)
    root = ("tag", "", "r", [], [])
    for (s, rc, rp, got), v in zip(runs, vals):
        ctx.count(1, "reader/" + ("well-formed" if got[0] == "ok" else "rejected") + ("/options" if rc or rp else ""))
        if v is None:
            ctx.mismatch("parse_doc evaluation", "coqc failed on the case file")
            continue
        if v == [2]:
            ctx.mismatch("parse_doc ran out of fuel (excluded by C12_fuel)", {"stream": s})
            continue
        if got[0] == "err":
            if v != [0]:
                ctx.mismatch("parse_doc accepts a stream lxml rejects", {"stream": s})
            continue
        de = declared_encoding(s)
        expect = [1] + ([1] + common.enc_str(de) if de else [0]) + enc_doc(got[1], root, got[2])
        if v != expect:
            ctx.mismatch("parse_doc (toy root layer) vs Document(bytes)", {"stream": s, "rc": rc, "rp": rp, "impl": got[1:], "model": v[:80]})
        if got[1] or got[2]:
            ctx.nontrivial_case(("reader", s, rc, rp))


# --------------------------------------------------------------------------------------------------
# root replacement

# fixed finding C12-root-self-assignment (e27f40b): `document.root = document.root` duplicated prologue and epilogue
REGRESSION_SELF = {"pro": [("comment", "a"), ("pi", "p", "x")], "root": "<r><k/></r>", "epi": [("pi", "q", ""), ("comment", "b")],
                   "route": "parse", "prepend": False, "new_root": "self"}


def in_order(part, whole):
    """part is a subsequence of whole"""
    it = iter(whole)
    return all(any(x == y for y in it) for x in part)


def classify(finding, case):
    """open finding C12-new-root-with-own-siblings: the new root has root-level comments / PIs of its own"""
    if finding.get("cls") == "new-root-has-own-root-siblings":
        own = case.get("own")
        return bool(own and (own[0] or own[1])) and case.get("strict") is True
    return False


def swap_back(src):
    """the witness of C12-new-root-with-own-siblings: replace the root by a new node and put the old root back"""
    d = Document(src)
    before = doc_obs(d)
    old = d.root
    d.root = new_tag_node("n")
    d.root = old
    after = doc_obs(d)
    return before, after


def replay_open(finding):
    if finding.get("cls") == "new-root-has-own-root-siblings":
        before, after = swap_back(finding["witness"]["src"])
        return (after[0], after[2]) != (before[0], before[2])
    return False


def check_set_root(ctx, cases):
    terms, runs = [], []
    for case in cases:
        try:
            with no_gc():
                d = build_doc(case, reduce=False)
                before = doc_obs(d)
                how = case["new_root"]
                tgt_pro, tgt_epi = [], []
                if how == "self":
                    n = d.root
                    tgt_pro, tgt_epi = before[0], before[2]
                elif how == "new":
                    n = new_tag_node("n", {"k": "v"})
                elif how == "clone":
                    n = d.root.clone(deep=True)
                elif how == "detached-child":
                    kids = [c for c in d.root.iterate_children() if isinstance(c, impl.TagNode)]
                    n = kids[0].detach() if kids else new_tag_node("n")
                elif how == "other-document-root":
                    # a new root that brings root-level comments / PIs of its own (before, after or both)
                    own = case.get("own") or [[("comment", "o1")], [("pi", "o2", "z")]]
                    tgt_pro, tgt_epi = [tuple(m) for m in own[0]], [tuple(m) for m in own[1]]
                    other = Document("".join(misc_src(m) for m in tgt_pro) + "<o/>" + "".join(misc_src(m) for m in tgt_epi))
                    n = other.root
                elif how == "old-root-back":
                    # the former root still has the siblings that were copied from it
                    n = d.root
                    d.root = new_tag_node("n")
                    mid = doc_obs(d)
                    if (mid[0], mid[2]) != (before[0], before[2]):
                        ctx.fail("replacing the root changed the prologue / epilogue",
                                 dict(case, before=[before[0], before[2]], after=[mid[0], mid[2]]))
                    tgt_pro, tgt_epi = before[0], before[2]
                else:   # "text": rejected
                    n = TextNode("x")
                name = ("tag", "", n.local_name, [], []) if isinstance(n, impl.TagNode) else ("text", "x")
                try:
                    d.root = n
                    after = doc_obs(d)
                    got = ("ok", after[0], after[2])
                except TypeError:
                    got = ("rejected",)
        except Exception as e:  # noqa: BLE001
            ctx.fail("replacing the root raised %s: %s" % (type(e).__name__, e), case)
            continue
        terms.append("obs_set_root %s %s %s" % (cbool(how == "self"), cdoc(before[0], name if how == "self" else DUMMY, before[2]),
                                                cdoc(tgt_pro, name, tgt_epi)))
        runs.append((case, before, name, got, how, (tgt_pro, tgt_epi)))
    vals = ctx.coq_eval("c12_sr_%d" % os.getpid(), REQ, terms, chunk=150)
    for (case, before, name, got, how, own), v in zip(runs, vals):
        ctx.count(1, "set_root/" + how)
        if before[0] or before[2]:
            ctx.nontrivial_case(("set_root", before[0], before[2], how, own))
        if v is None:
            ctx.mismatch("set_root evaluation", "coqc failed on the case file")
            continue
        if got[0] == "rejected":
            if v != [0]:
                ctx.mismatch("set_root: the implementation rejects, the model accepts", {"case": case})
            continue
        brings = how in ("other-document-root", "old-root-back")
        report = dict(case, before=[before[0], before[2]], after=[got[1], got[2]], own=[list(own[0]), list(own[1])] if brings else None)
        # the property, for every new root: the old prologue and epilogue are still there, in order
        if not in_order(before[0], got[1]) or not in_order(before[2], got[2]):
            ctx.fail("replacing the root lost (part of) the prologue / epilogue", dict(report, strict=False))
        # ... and nothing else is there (known not to hold when the new root has root-level siblings of its own:
        # open finding C12-new-root-with-own-siblings)
        elif got[1] != before[0] or got[2] != before[2]:
            ctx.fail("replacing the root changed the prologue / epilogue", dict(report, strict=True), classify)
        if v != [1] + enc_doc(got[1], name, got[2]):
            ctx.mismatch("set_root / copy_root_siblings vs Document.root setter", {"case": case, "impl": got[1:]})


# --------------------------------------------------------------------------------------------------
# parser options: exactly the comments / PIs are dropped (oracle: strip_doc evaluated in Coq)

# one ParserOptions object used for several loads, its public attributes changed in between: every combination,
# reached from both directions
SHARED_SEQUENCE = [(False, False), (True, False), (False, True), (True, True), (False, True), (True, False), (False, False),
                   (True, True), (False, False)]


def strip_loads(src):
    """[(how, rc, rp, observed document)]: fresh options objects, one shared object mutated between loads, and the
    options object taken from an existing document's config"""
    out = []
    for rc, rp in ((True, False), (False, True), (True, True)):
        out.append(("fresh", rc, rp, doc_obs(Document(src, ParserOptions(remove_comments=rc, remove_processing_instructions=rp)))))
    shared = ParserOptions()
    for rc, rp in SHARED_SEQUENCE:
        shared.remove_comments = rc
        shared.remove_processing_instructions = rp
        out.append(("shared", rc, rp, doc_obs(Document(src, shared))))
    first = Document(src, ParserOptions(remove_comments=True))
    taken = first.config.parser_options
    taken.remove_comments = False
    taken.remove_processing_instructions = True
    out.append(("from-config", False, True, doc_obs(Document(src, taken))))
    return out


def check_strip(ctx, cases):
    terms, index, runs = [], {}, []
    for case in cases:
        src = case.get("src") or ("".join(misc_src(m) for m in case["pro"]) + case["root"]
                                  + "".join(misc_src(m) for m in case["epi"]))
        try:
            with no_gc():
                full = doc_obs(Document(src))
                loads = strip_loads(src)
        except Exception as e:  # noqa: BLE001
            ctx.fail("parsing with parser options raised %s: %s" % (type(e).__name__, e), dict(case, src=src))
            continue
        for step, (how, rc, rp, got) in enumerate(loads):
            key = (src, rc, rp)
            if key not in index:
                index[key] = len(terms)
                terms.append("obs_strip %s %s %s" % (cbool(rc), cbool(rp), cdoc(*full)))
            runs.append((src, how, step, rc, rp, full, got, index[key]))
    vals = ctx.coq_eval("c12_st_%d" % os.getpid(), REQ, terms, chunk=150)
    for src, how, step, rc, rp, full, got, ti in runs:
        v = vals[ti]
        ctx.count(1, "strip/%s/%s%s" % (how, "c" if rc else "", "p" if rp else ""))
        if v is None:
            ctx.mismatch("strip_doc evaluation", "coqc failed on the case file")
            continue
        if got != full:
            ctx.nontrivial_case(("strip", src, how, step, rc, rp))
        if v != enc_doc(*got):
            ctx.fail("parser options did not drop exactly the comments / processing instructions",
                     {"src": src, "options_object": how, "load_number": step, "remove_comments": rc,
                      "remove_processing_instructions": rp, "impl": got})


# --------------------------------------------------------------------------------------------------

def fits(s, cls):
    try:
        s.encode({"ascii": "ascii", "latin1": "iso-8859-1", "any": "utf-8"}[cls])
        return True
    except UnicodeEncodeError:
        return False


def gen_misc(rng, cls):
    if rng.random() < 0.55:
        return ("comment", rng.choice([c for c in COMMENTS if fits(c, cls)]))
    t, c = rng.choice([p for p in PIS if fits(p[0] + p[1], cls)])
    return ("pi", t, c)


def gen_doc_case(rng, i):
    n_pro = rng.choice([0, 1, 1, 2, 2, 3])
    n_epi = rng.choice([0, 1, 1, 2, 2, 3])
    if i < 16:                                 # every shape 0..3 x 0..3 at least once
        n_pro, n_epi = i // 4, i % 4
    # the character repertoire of the whole document: ASCII, Latin-1 or anything (so that the narrow encodings
    # meet representable documents most of the time, and unrepresentable ones some of the time)
    cls = rng.choice(["ascii", "ascii", "latin1", "latin1", "any"])
    root = ROOTS[i] if i < len(ROOTS) else rng.choice([r for r in ROOTS if fits(r, cls)])
    if i < len(ROOTS):
        cls = "any"
    case = {"pro": [gen_misc(rng, cls) for _ in range(n_pro)], "root": root,
            "epi": [gen_misc(rng, cls) for _ in range(n_epi)], "route": "api" if rng.random() < 0.35 else "parse",
            "prepend": rng.random() < 0.5}
    if case["route"] == "api" and rng.random() < 0.35:
        case["adjacent"] = rng.choice(ADJACENT)
    return case


# fixed cases: "]]>" in character data - inside a text, at its very start and end, split over adjacent text nodes -
# must come back from the written bytes (the ">" has to be written escaped), with every serializer kind
FIXED_SERIALIZE = [
    {"pro": [("comment", "c")], "root": "<r>a[b[0]]&gt;c</r>", "epi": [], "route": "parse", "enc": "utf-8", "nl": None, "fo": None},
    {"pro": [], "root": "<r>]]&gt;<x/>tail]]&gt;</r>", "epi": [("pi", "p", "x")], "route": "parse", "enc": "utf-16", "nl": "\r\n",
     "fo": (False, "  ", 0)},
    {"pro": [], "root": "<r>]]&gt;</r>", "epi": [], "route": "parse", "enc": "ascii", "nl": "\n", "fo": (False, "", 15)},
    {"pro": [("comment", "c")], "root": "<r><x/></r>", "epi": [], "route": "api", "adjacent": ["]]", ">"], "enc": "utf-8",
     "nl": None, "fo": None},
    {"pro": [], "root": "<r>a]</r>", "epi": [], "route": "api", "adjacent": ["]", ">b"], "enc": "iso-8859-1", "nl": None,
     "fo": (True, "\t", 0)},
    {"pro": [], "root": "<r/>", "epi": [("comment", "e")], "route": "api", "adjacent": ["x", "]]>"], "enc": "utf-8", "nl": None,
     "fo": (False, " ", 20)},
]


def configs(rng, n, thorough):
    """n configurations; the first ones cover every encoding, newline and serializer kind"""
    nls = [None, "\n", "\r\n"] + (["", "\r"] if thorough else [])
    out = []
    for j in range(n):
        enc = ENCODINGS[j % 4] if j < 4 else rng.choice(ENCODINGS)
        if rng.random() < 0.15:
            enc = enc.upper()
        nl = nls[j % len(nls)] if j < len(nls) else rng.choice(nls)
        fo = FORMATS[(j * 3) % len(FORMATS)] if j < 3 else rng.choice(FORMATS)
        out.append((enc, nl, fo))
    rng.shuffle(out)
    return out


def normalise_case(c):
    c = dict(c)
    c["pro"] = [tuple(m) for m in c["pro"]]
    c["epi"] = [tuple(m) for m in c["epi"]]
    return c


def run(ctx, args):
    ctx.trusted += [
        "C12 hypotheses (Section variables, listed in Props/C12.v): H_codec - Python's codec and libxml2's decoder are "
        "mutually inverse for utf-8, utf-16, iso-8859-1, ascii on streams starting with the declaration (exercised on "
        "every run: model stream encoded with the codec = bytes written, bytes re-read by libxml2); H_root - root "
        "serializer / element reader round trip: proved from C02 for the plain serializer (C12_roundtrip_plain); for the "
        "formatting serializers replaced by C03's theorems plus the bridging hypothesis H_render_seen (the reference reader "
        "applied to `render c` yields `seen c`; instantiated by computation in Props/C12.v, tied by C03's correspondence "
        "check which compares `seen` with the real parser's tree); H_strip_root - libxml2's remove_comments / remove_pis "
        "inside the root (checked against strip_node evaluated in Coq)",
        "translate/gen_doc.py (AST of Document.__serialize, __str__ of comments/PIs, CommentNode._validate_content, "
        "_get_serializer -> Gen/GenDoc.v)",
        "io.TextIOWrapper / io.StringIO newline translation and os.linesep (modelled by nl_out), XML line-end "
        "normalisation (modelled by nl_in)",
    ]
    ctx.regen(["GenWs.v", "GenDoc.v", "GenPretty.v"])
    ctx.build("Props/C12.vo")
    SCRATCH.mkdir(parents=True, exist_ok=True)
    try:
        if args.replay:
            with open(args.replay) as f:
                rep = json.load(f)
            case = rep.get("case")
            if case and "root" in case and "enc" in case:
                check_serialize(ctx, [normalise_case(case)])
            elif case and "new_root" in case:
                check_set_root(ctx, [normalise_case(case)])
            elif case and "src" in case:
                check_strip(ctx, [{"src": case["src"]}])
            return ctx.finish("replay of " + args.replay, replay_open=replay_open)
        quick = ctx.tier == "quick"
        n_docs = 120 if quick else 1200
        per_doc = 5 if quick else 10
        docs = [gen_doc_case(ctx.rng, i) for i in range(n_docs)]
        ser_cases = [dict(c, also_write=True, also_str=True) for c in FIXED_SERIALIZE]
        for i, dc in enumerate(docs):
            for j, (enc, nl, fo) in enumerate(configs(ctx.rng, per_doc, not quick)):
                ser_cases.append(dict(dc, enc=enc, nl=nl, fo=fo, also_write=(i + j) % 3 == 0, also_str=(i + j) % 2 == 0 or not quick))
        check_serialize(ctx, ser_cases)
        check_formatted(ctx)
        streams = []
        for _ in range(260 if quick else 4000):
            s = gen_stream(ctx.rng)
            r = ctx.rng.random()
            streams.append((s, r < 0.2 or r > 0.9, 0.1 < r < 0.2 or r > 0.8))
        streams += [(s, False, False) for s in ILL_FORMED]
        check_reader(ctx, streams)
        hows = ["new", "clone", "self", "detached-child", "other-document-root", "old-root-back", "other-document-root", "text"]
        sr_cases = [dict(REGRESSION_SELF)]
        for i, dc in enumerate(docs[:100 if quick else 1000]):
            c = dict(dc, new_root=hows[i % len(hows)])
            if c["new_root"] == "other-document-root":
                shape = [(1, 0), (0, 1), (1, 1), (2, 1), (0, 2)][(i // len(hows)) % 5]
                c["own"] = [[gen_misc(ctx.rng, "ascii") for _ in range(shape[0])], [gen_misc(ctx.rng, "ascii") for _ in range(shape[1])]]
            sr_cases.append(c)
        check_set_root(ctx, sr_cases)
        check_strip(ctx, [dc for dc in docs[:90 if quick else 1000]])
    finally:
        shutil.rmtree(SCRATCH, ignore_errors=True)
    return ctx.finish(
        rule="documents: root out of %d fixed trees (empty, mixed content, namespaces, escapes, xml:space=preserve, long text, "
             "Latin-1 / BMP / astral characters, ']]>' in character data - also split over adjacent API-made text nodes) with 0-3 comments/PIs before and after it (every shape 0..3 x 0..3), built by "
             "parsing or through prologue/epilogue insert/append; x encoding {utf-8, utf-16, iso-8859-1, ascii, also upper case} "
             "x newline {None, LF, CRLF; thorough: also '', CR} x format {none, 6 FormatOptions incl. width > 0}; via save, write "
             "and str(); every written document re-read with Document(bytes) and lxml. Reader model: random streams of "
             "declaration variants, comments/PIs, whitespace around <r/> plus %d ill-formed streams. Root replacement: new node, "
             "clone, itself, detached child, a text node, and new roots that bring root-level comments/PIs of their own (another "
             "document's root with 1-3 siblings before/after/both; the former root put back). Parser options: on every document the three option sets with fresh "
             "ParserOptions objects, one ParserOptions object reused for nine loads with its attributes changed in between (all four "
             "combinations, both directions), and the options object taken from an existing document's config. Non-trivial = at least one root sibling and a non-default encoding/newline/format (serialize), siblings "
             "present (reader, set_root), something dropped (strip)." % (len(ROOTS), len(ILL_FORMED)),
        replay_open=replay_open,
        explanation="The bytes compared are produced by the implementation (Document.save/write, str) and, independently, by "
                    "evaluating the Gallina doc_serialize/nl_out in Coq on the document's prologue/epilogue and the real root "
                    "serialization, then encoding with the Python codec.")


if __name__ == "__main__":
    common.main(run, "C12")
