"""C04 - garbage collection timing never changes what a program observes.  PARTIAL claim.

Generated on every run (translate/gen_gc.py -> Gen/GenGC.v): the reference-count constants of __gc_callback__ and the
functions that take the cache lock; Misc/GC.v's thresholds are those constants.
Proved (Props/C04.v): the logic of _WrapperCache.__gc_callback__ at quiescent points over a reference graph with
derived reference counts (content unchanged, release empties the cache, identity/edits of held nodes, held appended
text never coalesced) + the refutation for finding 16 (empty head with a chain).

This file: (1) correspondence of Misc/GC.v `gc_step` against real collections at quiescent points (which wrappers
survive, cache size, lxml slots after merging) for random subsets of held objects; (2) the run-time part, *exercised
not proved*: generated edit/navigation programs run three ways (no collection; gc.collect() after every call;
gc.set_threshold(1) so that collections fire inside library calls) with the program holding only the references
the scenario names; compared: content, content of held text nodes, that every held node is still the object its
parent's navigation returns, effect of edits through held nodes, len(_wrapper_cache.wrappers) after release,
exceptions reaching sys.unraisablehook.  gc state (thresholds, enabled) is restored afterwards.
"""
import gc
import json
import sys

import common
from common import cstr, clist
import impl
from impl import Document, TagNode, TextNode, altered_default_filters, is_tag_node, tag

nodes = impl._nodes
cache = nodes._wrapper_cache
REQ = ("From Coq Require Import List NArith.\nFrom Delb.Base Require Import PyStr.\nFrom Delb.Misc Require Import GC.\n")


# =============================================================================================== (1) eviction rule
BASE_XML = '<r>a<x>p<i/>q</x>b<!--c-->d<y><z/>t</y><?p q?>e</r>'


def build_world(rng):
    """a document whose chains were grown through the API; returns (doc, root lxml element)"""
    d = Document(BASE_XML)
    root = d.root
    with altered_default_filters():
        targets = [root[0], root[1][0], root[1][2], root[2], root[4], root[5][1], root[7]]
        for t in targets:
            r = rng.random()
            if r < 0.45:
                t.add_following_siblings("+")
            elif r < 0.65:
                t.add_following_siblings("+", "-")
            elif r < 0.72:
                t.add_following_siblings("+", "-", "*")
        del targets, t
    return d, root._etree_obj


def partial_navigation(rng, root_el):
    """drop everything, collect (cache empty), then let the program navigate to part of the tree only"""
    gc.collect()
    root = cache(root_el)
    with altered_default_filters():
        for n in list(root.iterate_descendants()):
            if rng.random() < 0.5:
                n.parent  # noqa: B018
    del root


def all_elements(root_el):
    """the elements of one tree, or of several (a list of root elements), in a fixed order"""
    if isinstance(root_el, list):
        return [el for r in root_el for el in r.iter()]
    return list(root_el.iter())


def dump(root_el):
    """the reference graph as plain data + the objects by oid (strong references, to be dropped by the caller)"""
    objs = []
    index = {}

    def oid(o):
        if id(o) not in index:
            index[id(o)] = len(objs)
            objs.append(o)
        return index[id(o)]
    kinds = {}
    entries = []
    for i, el in enumerate(all_elements(root_el)):
        x = cache.wrappers.get(el)
        ent = {"el": i, "text": el.text, "tail": el.tail, "w": None}
        if x is not None:
            is_tag = isinstance(x, TagNode)
            doc = getattr(x, "__document__", None)
            w = {"id": oid(x), "tag": is_tag, "doc": oid(doc) if doc is not None else None}
            kinds[w["id"]] = "wrapper"
            if doc is not None:
                kinds[w["doc"]] = "document"
            for key, head in (("d", x._data_node if is_tag else None), ("t", x._tail_node)):
                if head is None:
                    w[key + "h"], w[key + "app"] = 0, []
                    continue
                w[key + "h"] = oid(head)
                kinds[w[key + "h"]] = "head text" if head._exists else "placeholder"
                app = []
                cur = head._appended_text_node
                while cur is not None:
                    app.append((oid(cur), cur.content))
                    kinds[app[-1][0]] = "appended text"
                    cur = cur._appended_text_node
                w[key + "app"] = app
            ent["w"] = w
            del x, doc, head
        entries.append(ent)
    return entries, objs, kinds


def copt(s):
    return "None" if s is None else "(Some %s)" % cstr(s)


def world_term(entries, held):
    es = []
    for e in entries:
        w = e["w"]
        if w is None:
            ws = "None"
        else:
            ws = "(Some (mk_wrapper %d %s %s %d %s %d %s))" % (
                w["id"], "true" if w["tag"] else "false", "None" if w["doc"] is None else "(Some %d)" % w["doc"],
                w["dh"], clist("mk_tobj %d %s" % (o, cstr(s)) for o, s in w["dapp"]),
                w["th"], clist("mk_tobj %d %s" % (o, cstr(s)) for o, s in w["tapp"]))
        es.append("mk_entry %d %s %s %s" % (e["el"], copt(e["text"]), copt(e["tail"]), ws))
    return "(mk_world %s 0 %s)" % (clist(es), clist(str(h) for h in held))


def enc_opt(s):
    return [0] if s is None else [1, len(s)] + [ord(c) for c in s]


def observe_after(root_el):
    out = [1]
    for i, el in enumerate(all_elements(root_el)):
        out += [i, 1 if el in cache.wrappers else 0] + enc_opt(el.text) + enc_opt(el.tail)
    return out


def eviction_case(rng, forced=None):
    gc.collect()
    d, root_el = build_world(rng)
    if rng.random() < 0.3:
        del d
        partial_navigation(rng, root_el)
        d = None
    entries, objs, kinds = dump(root_el)
    all_ids = list(range(len(objs)))
    if forced == "tail head only":
        held_ids = [o for o in all_ids if kinds[o] == "head text"][:1]
    elif forced == "last appended only":
        held_ids = [o for o in all_ids if kinds[o] == "appended text"][-1:]
    elif forced == "root without document":
        held_ids = [entries[0]["w"]["id"]] if entries[0]["w"] else []
    elif forced == "document only":
        held_ids = [o for o in all_ids if kinds[o] == "document"]
    elif forced == "nothing":
        held_ids = []
    else:
        p = rng.choice([0.08, 0.2, 0.4])
        held_ids = [o for o in all_ids if rng.random() < p]
        if rng.random() < 0.2:
            held_ids.append(rng.choice(held_ids) if held_ids else 0)      # a second reference to the same object
    held_ids = [h for h in held_ids if h < len(objs)]
    held = [objs[h] for h in held_ids]
    term = "enc_after (gc_step %s)" % world_term(entries, held_ids)
    size_before = len(cache.wrappers)
    del objs, d
    gc.collect()
    got = observe_after(root_el)
    size_after = len(cache.wrappers)
    del held
    gc.collect()
    gc.collect()
    left = len(cache.wrappers)
    desc = {"held": [(h, kinds.get(h, "?")) for h in held_ids], "forced": forced, "cached_before": size_before,
            "cached_after": size_after, "entries": entries}
    return term, got, left, desc


def release_case(n_docs):
    """fixed case of the release clause: the program keeps one chained text node of a first tree (not its
    predecessor, not the element, not the document), then uses and drops `n_docs` other documents; one collection
    must leave no node object of the dropped documents behind, and the survivors must be the ones Coq's gc_step names"""
    gc.collect()
    gc.collect()
    d = Document('<root>a</root>')
    with altered_default_filters():
        d.root.append_children('b')
        held = d.root.last_child
    first = d.root._etree_obj
    del d
    gc.collect()
    gc.collect()
    others = []
    for _ in range(n_docs):
        doc = Document("<r><x>1</x><y>2</y><z/></r>")
        with altered_default_filters():
            for node in doc.root.iterate_descendants():
                pass
        others.append(doc.root._etree_obj)
        del doc, node
    roots = [first] + others
    entries, objs, kinds = dump(roots)
    held_ids = [i for i, o in enumerate(objs) if o is held]
    term = "enc_after (gc_step %s)" % world_term(entries, held_ids)
    before = len(cache.wrappers)
    del objs
    gc.collect()
    got = observe_after(roots)
    dropped_left = sum(1 for r in others for el in r.iter() if el in cache.wrappers)
    with altered_default_filters():
        same = held.parent.last_child is held
        tree = str(held.parent)
    after = len(cache.wrappers)
    del held
    gc.collect()
    gc.collect()
    left = len(cache.wrappers)
    if left:
        cache.wrappers.clear()
    desc = {"forced": "release: other documents dropped while a chained text node of an earlier tree is held",
            "held": [(h, kinds.get(h, "?")) for h in held_ids], "n_docs": n_docs, "cached_before": before,
            "cached_after": after, "dropped_left": dropped_left, "identity_kept": same, "tree": tree, "entries": entries}
    return term, got, left, desc


def part_eviction(ctx, n):
    cases = [release_case(3), release_case(25)]
    forced = ["tail head only", "last appended only", "root without document", "document only", "nothing"]
    for i in range(n):
        cases.append(eviction_case(ctx.rng, forced[i] if i < len(forced) else None))
    vals = ctx.coq_eval("c04", REQ, [c[0] for c in cases], chunk=50)
    for (term, got, left, desc), model in zip(cases, vals):
        ctx.count(1, "eviction rule: " + (desc["forced"] or "random subset"))
        if desc["cached_after"] != desc["cached_before"]:
            ctx.nontrivial_case(("evict", json.dumps(desc["held"]), desc["cached_before"], desc["cached_after"], json.dumps(got)))
        if model is None:
            ctx.mismatch("GC.gc_step evaluation", "coqc failed on the case file")
            continue
        if model != got:
            ctx.mismatch("GC.gc_step vs a real collection (surviving wrappers, lxml slots)",
                         {"case": desc, "impl": got, "model": model})
        if desc.get("dropped_left"):
            ctx.fail("node objects of documents the program dropped are left behind after a collection (while an unrelated "
                     "text node of another tree is held)", {"kind": "release", "left": desc["dropped_left"],
                                                            "case": {k: v for k, v in desc.items() if k != "entries"}}, classify)
        if desc.get("identity_kept") is False or desc.get("tree") not in (None, "<root>ab</root>"):
            ctx.fail("the held chained text node is no longer what navigation returns / the tree changed",
                     {"kind": "release", "case": {k: v for k, v in desc.items() if k != "entries"}}, classify)
        if left != 0:
            ctx.fail("cached node objects left behind after all references were dropped", {"kind": "release", "left": left,
                                                                                           "case": desc}, classify)
        ctx.sample({"part": "eviction rule", "held": desc["held"], "cached_before": desc["cached_before"],
                    "cached_after": desc["cached_after"]}, limit=2)


# =============================================================================================== (2) run-time part
DOCS = ['<root><a/>tail</root>',
        '<r>a<x>p<i/>q</x>b<!--c-->d<y><z/>t</y>e</r>',
        '<r><a>one<b>two</b>three</a><c/>four<d>five<e/>six</d></r>',
        '<root><a>sch\u00f6n<b/><c/></a><d/>t</root>',
        '<root><a/><b/><c/></root>',
        '<root><first xml:space="bogus"/><wrap><c/></wrap><last/></root>',
        '<r>a<!--c-->d<?p q?>e<b/></r>']
WARNING_DOC = 5       # its serialization emits a UserWarning (invalid xml:space): a hook the program may hang a callback on
PRETTY = impl.FormatOptions(align_attributes=False, indentation="  ", width=0)
WRAPPED = impl.FormatOptions(align_attributes=False, indentation=" ", width=20)
BLANK_TAILS = []      # the chain members behind a blanked text node that programs of the current run created
SCRATCH = []          # one temporary directory per check run (outside /verif), removed at the end


def gen_program(rng, n_ops):
    """a program is data: which nodes it takes hold of at the start, then a list of operations on its handles"""
    prog = {"doc": rng.randrange(len(DOCS)), "hold_doc": rng.random() < 0.5, "hold_root": rng.random() < 0.5,
            "initial": [], "ops": []}
    pat = rng.random()
    if pat < 0.2:
        prog["hold_doc"], prog["hold_root"] = False, False           # e.g. a text node without its owning element
    if 0.2 <= pat < 0.35:
        # a document the program references once, twice or three times while it does not hold the root node
        prog["hold_doc"], prog["hold_root"] = True, False
    prog["doc_aliases"] = rng.randrange(3)
    prog["n_filter"] = rng.choice([1, 2, 3, 5, 8])      # the collecting filter callback fires on every n-th invocation
    if rng.random() < 0.2:
        prog["doc"] = WARNING_DOC
    prog["initial_p"] = rng.choice([0.15, 0.3, 0.6])
    prog["seed"] = rng.randrange(1 << 30)
    for _ in range(n_ops):
        prog["ops"].append({"op": rng.choice(OPS), "h": rng.randrange(64), "keep": rng.random() < 0.5,
                            "k": rng.randrange(4), "txt": rng.choice(["X", "Y", " z ", "foo "])})
    if rng.random() < (0.8 if prog["doc"] == WARNING_DOC else 0.3):
        # an unreferenced run of text nodes behind an unheld element, then a call on the parent that counts and
        # addresses children (append) or serializes them
        hh = rng.randrange(64)
        prog["ops"][:0] = [{"op": "texts_behind_sibling", "h": hh, "keep": False, "k": 0, "txt": "X"},
                           {"op": "texts_into_leaf", "h": hh, "keep": False, "k": rng.randrange(4), "txt": "X"},
                           {"op": "append_to_parent", "h": hh, "keep": False, "k": 0, "txt": "X"}]
        if prog["doc"] not in (WARNING_DOC,):
            prog["doc"] = rng.choice([4, 4, prog["doc"]])
    if rng.random() < 0.06:
        prog["ops"].insert(rng.randrange(len(prog["ops"]) + 1), {"op": "set_content", "h": rng.randrange(64), "keep": False,
                                                                 "k": 0, "txt": ""})
    return prog


def _op(op, h=0, keep=False, k=0, txt="X"):
    return {"op": op, "h": h, "keep": keep, "k": k, "txt": txt}


def _prog(doc, paths, ops, hold_doc=False, aliases=0, n_filter=1):
    return {"doc": doc, "hold_doc": hold_doc, "hold_root": False, "initial": [], "initial_paths": paths, "ops": ops,
            "doc_aliases": aliases, "n_filter": n_filter, "initial_p": 0.0, "seed": 1}


# fixed cases, run on every seed before the generated programs: one per mechanism the property text names
FIXED_PROGRAMS = [
    # an uncoalesced chain of text nodes behind a comment / a PI, every reference to them dropped, then collections
    _prog(6, [[], [1]], [_op("add_following_texts", 1, txt="X"), _op("drop", 1), _op("serialize", 0)], hold_doc=True),
    _prog(6, [[], [3]], [_op("add_following_texts", 1, txt="foo ", k=1), _op("drop", 1), _op("serialize", 0)]),
    _prog(6, [[1], [3]], [_op("add_following_texts", 0, txt="X"), _op("add_following_texts", 1, txt="Y"), _op("drop", 0),
                          _op("nav_parent", 0)]),
    # an error handled inside a `with _wrapper_cache:` region, the program goes on, then releases everything
    _prog(3, [[]], [_op("save_ascii", 0), _op("add_following_text", 0), _op("serialize", 0)], hold_doc=True),
    _prog(3, [[0]], [_op("save_ascii", 0), _op("nav_parent", 0)], hold_doc=True, aliases=1),
    # a blank placeholder in front of the only chain member the program keeps, refilled after a collection
    _prog(2, [[0, 0]], [_op("blank_chain", 0), _op("refill_previous", 0), _op("set_content", 0, txt="Y"), _op("serialize", 0)]),
    _prog(2, [[2]], [_op("blank_chain", 0), _op("refill_previous", 0), _op("set_content", 0, txt="Y")]),
    # two fresh text nodes, the first ending in whitespace, in front of an element; indenting/wrapping output
    _prog(3, [[], [0, 1]], [_op("add_following_texts", 1, txt="foo "), _op("drop", 1), _op("serialize", 0)]),
    _prog(3, [[], [0]], [_op("prepend_texts", 1, txt="foo "), _op("serialize", 0)]),
    # a run of unreferenced text nodes among the children while a call counts and addresses children (in-filter mode)
    _prog(4, [[]], [_op("texts_behind_sibling", 0), _op("append_children", 0, txt="p"), _op("serialize", 0)], n_filter=1),
    _prog(4, [[]], [_op("texts_behind_sibling", 0), _op("append_children", 0, txt="p"), _op("insert_child", 0, k=3)], n_filter=3),
    _prog(4, [[0]], [_op("texts_behind_sibling", 0), _op("append_to_parent", 0)], n_filter=2),
    # a document referenced once / twice / three times, its root not held, nothing serialized through the document
    _prog(0, [[0]], [_op("nav_following_tag", 0), _op("add_following_text", 0), _op("serialize", 0)], hold_doc=True, aliases=0),
    _prog(0, [[0]], [_op("nav_following_tag", 0), _op("add_following_text", 0), _op("serialize", 0)], hold_doc=True, aliases=1),
    _prog(0, [[0]], [_op("nav_following_tag", 0), _op("add_following_text", 0), _op("serialize", 0)], hold_doc=True, aliases=2),
    # a collection from another thread inside a locked serialization, unreferenced text run inside a leaf element
    _prog(5, [[]], [_op("texts_into_leaf", 0, k=1), _op("serialize", 0)]),
    _prog(5, [[2]], [_op("texts_into_leaf", 0, k=1), _op("texts_behind_sibling", 0), _op("serialize", 0)], hold_doc=True),
    # only a chained text node behind an element's tail text is held (not the element, not the tail text)
    _prog(2, [[2]], [_op("add_following_texts", 0, keep=True), _op("drop", 0), _op("set_content", 0, txt="Y"), _op("serialize", 0)]),
    _prog(1, [[1, 2]], [_op("add_following_texts", 0, keep=True), _op("drop", 0), _op("add_following_text", 0)]),
    # only the text of an element is held (no chain), not the element
    _prog(2, [[0, 0]], [_op("set_content", 0, txt="Y"), _op("add_following_text", 0), _op("serialize", 0)]),
    _prog(2, [[3, 0]], [_op("nav_parent", 0), _op("add_following_text", 0, keep=True)]),
]


OPS = ["add_following_text", "add_following_text", "add_following_texts", "add_preceding_tag", "append_children",
       "texts_behind_sibling", "texts_into_leaf", "append_to_parent", "append_to_parent",
       "blank_chain", "refill_previous", "refill_previous", "save_ascii", "prepend_texts",
       "set_content", "nav_parent", "nav_tag_child", "nav_following_tag", "detach", "replace_with", "drop", "drop",
       "insert_child", "serialize"]


class Unraisable:
    def __enter__(self):
        self.seen = []
        self.old = sys.unraisablehook
        sys.unraisablehook = lambda u: self.seen.append((type(u.exc_value).__name__, str(u.exc_value)[:80]))
        return self

    def __exit__(self, *a):
        sys.unraisablehook = self.old


def wired(h):
    """the held object is the one navigation returns at its position"""
    try:
        with altered_default_filters():
            p = h.parent
            if p is None:
                return None
            return any(c is h for c in p.iterate_children())
    except Exception as e:  # noqa: BLE001
        return "raised " + type(e).__name__


def attached(h):
    try:
        return h.parent is not None
    except Exception:  # noqa: BLE001
        return False


def text_of(h):
    if not isinstance(h, TextNode):
        return None
    try:
        return h.content
    except Exception as e:  # noqa: BLE001
        return "raised " + type(e).__name__


def guard_ok(handles, doc):
    """Coq's heads_guard on the program's references: every held head text node's owning element wrapper is held too
    (or is a root whose document is held)"""
    for h in handles:
        if isinstance(h, TextNode) and h._position in (nodes.DATA, nodes.TAIL):
            owner = cache.wrappers.get(h._bound_to)
            if owner is None:
                return False
            if not any(o is owner for o in handles):
                d = getattr(owner, "__document__", None)
                if d is None or d is not doc:
                    return False
    return True


def unheld_tail_text(root_el, handles):
    """some element of a tree the program works on has tail text while the program does not hold that element's
    wrapper: library code that uses such a text node as its point of reference holds a head text node without its
    wrapper (the situation of finding C04-held-head-text, created by the library's own locals)"""
    tops = [root_el]
    for h in handles:
        el = getattr(h, "_etree_obj", None)
        if el is not None:
            top = el.getroottree().getroot()
            if not any(top is t for t in tops):
                tops.append(top)
    for top in tops:
        for el in top.iter():
            if el.tail is not None:
                owner = cache.wrappers.get(el)
                if owner is None or not any(o is owner for o in handles):
                    return True
    return False


BASELINE_OF = {"every-call": "none", "threshold-1": "none", "other-thread": "none", "in-filter": "filter-none"}


def run_program(prog, mode):
    """mode: 'none' | 'every-call' | 'threshold-1' | 'other-thread' (a second thread collects from inside a
    warnings.showwarning hook fired during serialization) | 'filter-none' / 'in-filter' (every call runs under an
    always-true ambient filter; in 'in-filter' the filter runs gc.collect() on every n-th invocation, i.e. inside
    library calls).  Returns the list of observations (plain data)."""
    import random
    import threading
    import warnings
    rng = random.Random(prog["seed"])
    calls = [0]

    def collecting_filter(node):
        calls[0] += 1
        if mode == "in-filter" and calls[0] % prog.get("n_filter", 3) == 0:
            gc.collect()
        return True

    def showwarning(message, category, filename, lineno, file=None, line=None):
        if mode == "other-thread" and "xml:space" in str(message):      # emitted by the serializers, inside the lock
            t = threading.Thread(target=gc.collect)
            t.start()
            t.join()
    baseline = mode in ("none", "filter-none")
    with warnings.catch_warnings():
        warnings.simplefilter("always")
        warnings.showwarning = showwarning
        return _run_program(prog, mode, rng, baseline, collecting_filter if mode in ("filter-none", "in-filter") else None)


def _run_program(prog, mode, rng, baseline, ambient_filter):
    obs = []
    del BLANK_TAILS[:]
    gc.collect()
    gc.collect()
    with Unraisable() as unr:
        if mode == "threshold-1":
            gc.set_threshold(1)
            gc.enable()
        else:
            gc.disable()
        try:
            doc = Document(DOCS[prog["doc"]])
            root_el = doc.root._etree_obj
            handles = []
            if prog.get("initial_paths") is not None:
                # a fixed case names the nodes the program holds (child indexes without filters)
                with altered_default_filters():
                    for path in prog["initial_paths"]:
                        n = doc.root
                        for i in path:
                            n = n[i]
                        handles.append(n)
                    n = None
            else:
              with altered_default_filters():
                for n in [doc.root] + list(doc.root.iterate_descendants()):
                    if n is doc.root:
                        if prog["hold_root"]:
                            handles.append(n)
                    elif rng.random() < prog["initial_p"]:
                        handles.append(n)
                del n
            if not prog["hold_doc"]:
                doc = None
            aliases = [doc] * prog.get("doc_aliases", 0)       # further references to the document
            guard_broken = False
            lib_guard_broken = False
            for step, o in enumerate(prog["ops"]):
                res = None
                if baseline and not lib_guard_broken and unheld_tail_text(root_el, handles):
                    lib_guard_broken = True
                if baseline and not guard_broken and not guard_ok(handles, doc):
                    guard_broken = True          # the state the call starts from counts (collections fire inside it)
                if handles:
                    h = handles[o["h"] % len(handles)]
                    try:
                        if ambient_filter is not None:
                            with altered_default_filters(ambient_filter):
                                res = apply_op(o, h, handles, doc)
                        else:
                            res = apply_op(o, h, handles, doc)
                    except Exception as e:  # noqa: BLE001
                        res = "raised " + type(e).__name__
                    del h
                if mode == "every-call":
                    gc.collect()
                if baseline and not guard_broken and not guard_ok(handles, doc):
                    guard_broken = True
                # what the program observes at this point
                snap = {"res": res, "texts": [text_of(h) for h in handles],
                        "blank_tail_held": any(h is z and attached(z) for h in handles for z in BLANK_TAILS),
                        "wired": [wired(h) for h in handles], "guard_broken": guard_broken,
                        "lib_guard_broken": lib_guard_broken}
                try:
                    top = cache(root_el)
                    with altered_default_filters():
                        while top.parent is not None:
                            top = top.parent
                        snap["tree"] = str(top)
                        try:
                            snap["pretty"] = [top.serialize(format_options=PRETTY), top.serialize(format_options=WRAPPED)]
                        except Exception as e:  # noqa: BLE001
                            snap["pretty"] = "raised " + type(e).__name__
                except Exception as e:  # noqa: BLE001
                    snap["tree"] = "raised " + type(e).__name__
                snap.setdefault("pretty", None)
                top = None
                # the document's own root is the root every held node reaches, and their document is the held one
                snap["docroot"] = None
                if doc is not None:
                    dr = []
                    for h in handles:
                        try:
                            with altered_default_filters():
                                t = h
                                while t.parent is not None:
                                    t = t.parent
                            dr.append([t is doc.root, h.document is doc])
                        except Exception as e:  # noqa: BLE001
                            dr.append("raised " + type(e).__name__)
                        t = None
                    h = None
                    snap["docroot"] = dr
                obs.append(snap)
                if mode == "every-call":
                    gc.collect()
            # release
            del BLANK_TAILS[:]
            del handles, doc, aliases
        finally:
            gc.disable()
        gc.collect()
        gc.collect()
        left = len(cache.wrappers)
        if left:
            cache.wrappers.clear()
        if cache.locks:
            unr.seen.append(("LockLeftBehind", "_wrapper_cache.locks == %d after the program ended" % cache.locks))
            cache.locks = 0
    return obs, left, unr.seen


def apply_op(o, h, handles, doc=None):
    op = o["op"]
    is_text = isinstance(h, TextNode)
    if op == "blank_chain":
        # a placeholder text node that is blank for a while, in front of the only chain member the program keeps
        r = h.add_following_siblings("k", "E", "z")
        r[1].content = ""                 # always an APPENDED text node, never the head of the chain
        handles.append(r[2])
        BLANK_TAILS.append(r[2])
        for i, x in enumerate(handles):
            if x is h:
                handles.pop(i)
                break
        return "ok"
    if op == "texts_behind_sibling":
        # an unreferenced run of adjacent text nodes behind an element whose wrapper nobody keeps
        sib = h.fetch_following_sibling(is_tag_node)
        if sib is None:
            # otherwise behind the second element child of the root of h's tree
            top = h
            while top.parent is not None:
                top = top.parent
            first = top.first_child if isinstance(top, TagNode) else None
            with altered_default_filters(is_tag_node):
                first = top.first_child if isinstance(top, TagNode) else None
            sib = first.fetch_following_sibling(is_tag_node) if first is not None else None
            del top, first
        if sib is None:
            return "n/a"
        sib.add_following_siblings("x ", " y", "z ")
        return "ok"
    if op == "texts_into_leaf":
        # two adjacent unreferenced text nodes as the only content of an element nobody holds
        top = h
        while top.parent is not None:
            top = top.parent
        if not isinstance(top, TagNode):
            return "n/a"
        with altered_default_filters():
            leaves = [n for n in top.iterate_descendants(is_tag_node) if len(n) == 0]
            if not leaves:
                return "n/a"
            leaves[o["k"] % len(leaves)].append_children("a ", " a")
        del leaves, top
        return "ok"
    if op == "append_to_parent":
        p = h.parent
        if p is None:
            return "n/a"
        r = p.append_children("p", tag("q"), "r")
        return [type(x).__name__ for x in r]
    if op == "refill_previous":
        if not is_text:
            return "n/a"
        with altered_default_filters():
            p = h.fetch_preceding_sibling()
        if isinstance(p, TextNode) and p.content == "":
            p.content = "P"
            return "refilled"
        return "nothing to refill"
    if op == "save_ascii":
        # an error inside a `with _wrapper_cache:` region that the program handles (then it goes on)
        if doc is None:
            return "n/a"
        import pathlib
        path = pathlib.Path(SCRATCH[0]) / "out.xml"
        try:
            doc.save(path, encoding="ascii")
            return "saved"
        except UnicodeEncodeError:
            doc.save(path, encoding="utf-8")
            return "fell back to utf-8"
    if op == "prepend_texts":
        if not isinstance(h, TagNode):
            return "n/a"
        h.prepend_children(o["txt"], "bar")
        return "ok"
    if op == "add_following_text":
        r = h.add_following_siblings(o["txt"])
        if o["keep"]:
            handles.extend(r)
        return "ok"
    if op == "add_following_texts":
        r = h.add_following_siblings(o["txt"], "W" if o["k"] % 2 == 0 else " w")
        if o["keep"]:
            handles.append(r[-1])             # a chained text node without its predecessors
        return "ok"
    if op == "add_preceding_tag":
        r = h.add_preceding_siblings(tag("n"))
        if o["keep"]:
            handles.extend(r)
        return "ok"
    if op == "append_children":
        if is_text or not isinstance(h, TagNode):
            return "n/a"
        r = h.append_children(o["txt"], tag("m"))
        if o["keep"]:
            handles.append(r[o["k"] % 2])
        return "ok"
    if op == "insert_child":
        if not isinstance(h, TagNode):
            return "n/a"
        with altered_default_filters(is_tag_node):
            r = h.insert_children(min(o["k"], len(h)), tag("i"))
        if o["keep"]:
            handles.extend(r)
        return "ok"
    if op == "set_content":
        if not is_text:
            return "n/a"
        h.content = o["txt"] + "!" if o["txt"] else ""
        return "ok"
    if op == "nav_parent":
        p = h.parent
        if p is not None and o["keep"] and not any(p is x for x in handles):
            handles.append(p)
        return p is not None
    if op == "nav_tag_child":
        if not isinstance(h, TagNode):
            return "n/a"
        c = h.first_child if o["k"] % 2 == 0 else h.last_child
        with altered_default_filters(is_tag_node):
            c = h.first_child if o["k"] % 2 == 0 else h.last_child
        if c is not None and o["keep"] and not any(c is x for x in handles):
            handles.append(c)
        return c is not None
    if op == "nav_following_tag":
        c = h.fetch_following_sibling(is_tag_node)
        if c is not None and o["keep"] and not any(c is x for x in handles):
            handles.append(c)
        return c is not None
    if op == "detach":
        if h.parent is None:
            return "n/a"
        h.detach()
        return "ok"
    if op == "replace_with":
        if h.parent is None:
            return "n/a"
        h.replace_with(tag("w"))
        return "ok"
    if op == "drop":
        if len(handles) > 1:
            for i, x in enumerate(handles):
                if x is h:
                    handles.pop(i)
                    break
        return "ok"
    if op == "serialize":
        return str(h)
    return "n/a"


def compare_runs(ctx, prog, confirm=True):
    """every failure is confirmed by running the program once more from a clean cache before it is reported: a
    violation has to be replayable from the program alone"""
    if confirm:
        probe = Probe(ctx)
        compare_runs(probe, prog, confirm=False)
        if probe.failed:
            cache.wrappers.clear()
            gc.collect()
            again = Probe(ctx)
            compare_runs(again, prog, confirm=False)
            if not again.failed:
                ctx.count(1, "difference not reproducible when the program is re-run alone (not reported)")
                ctx.notes.append("a difference seen once did not reproduce on re-running the same program: %s" % probe.failed[0][0][:80])
                return
            for what, case in again.failed:
                ctx.fail(what, case, classify)
        for n, kind in probe.counts:
            ctx.count(n, kind)
        for key in probe.keys:
            ctx.nontrivial_case(key)
        for smp in probe.samples:
            ctx.sample(smp, limit=4)
        return
    base, left0, unr0 = run_program(prog, "none")
    emptied = any(o["op"] == "set_content" and not o["txt"] for o in prog["ops"])
    blanked = any(o["op"] == "blank_chain" for o in prog["ops"])
    if left0:
        ctx.fail("cached node objects left behind after release (no collection before)", {"kind": "release", "prog": prog,
                                                                                          "mode": "none", "left": left0,
                                                                                          "emptied_head": emptied,
                                                                                          "unraisable": bool(unr0)}, classify)
    bases = {"none": base}
    modes = ["every-call", "threshold-1", "in-filter"] + (["other-thread"] if prog["doc"] == WARNING_DOC else [])
    for mode in modes:
        if BASELINE_OF[mode] not in bases:
            bases[BASELINE_OF[mode]], leftb, _ = run_program(prog, BASELINE_OF[mode])
        base = bases[BASELINE_OF[mode]]
        obs, left, unr = run_program(prog, mode)
        ctx.count(1, "program run: %s, %s" % (mode, "head-text guard broken at some step" if (base and base[-1]["guard_broken"])
                                              else "head-text guard holds throughout"))
        ctx.nontrivial_case((json.dumps(prog, sort_keys=True), mode))
        if unr:
            ctx.fail("an exception escaped the gc callback (sys.unraisablehook): %s" % (unr[0],),
                     {"kind": "unraisable", "prog": prog, "mode": mode, "exc": unr[0], "emptied_head": emptied}, classify)
        if left:
            ctx.fail("cached node objects left behind after the program dropped all references",
                     {"kind": "release", "prog": prog, "mode": mode, "left": left, "emptied_head": emptied,
                      "unraisable": bool(unr)}, classify)
        for step, (a, b) in enumerate(zip(base, obs)):
            diff = [k for k in ("res", "tree", "pretty", "texts", "wired", "docroot") if a[k] != b[k]]
            if diff:
                what = {"tree": "the content of the tree", "pretty": "the indented / wrapped serialization of the tree", "texts": "the content of a held text node",
                        "wired": "a held node is no longer the object navigation returns for its position",
                        "docroot": "a held node no longer reaches document.root / its document",
                        "res": "the result of a call"}[diff[0]]
                ctx.fail("collections changed what the program observes: " + what,
                         {"kind": "observation", "prog": prog, "mode": mode, "step": step, "differs": diff,
                          "without_gc": {k: a[k] for k in diff}, "with_gc": {k: b[k] for k in diff},
                          "guard_broken": a["guard_broken"], "lib_guard_broken": a["lib_guard_broken"],
                          "blanked": blanked, "blank_tail_held": a["blank_tail_held"],
                          "emptied_head": emptied, "unraisable": bool(unr)}, classify)
                break
    base = bases["none"]
    ctx.sample({"part": "program", "program": prog, "final_tree": base[-1]["tree"] if base else None}, limit=4)


class Probe:
    """collects what compare_runs would report"""

    def __init__(self, ctx):
        self.failed, self.counts, self.keys, self.samples = [], [], [], []
        self.cov = {"samples": []}

    def fail(self, what, case, classify=None):
        self.failed.append((what, case))

    def count(self, n=1, kind=None):
        self.counts.append((n, kind))

    def nontrivial_case(self, key):
        self.keys.append(key)

    def sample(self, case, limit=5):
        self.samples.append(case)


# =============================================================================================== known findings
def classify(finding, case):
    cls = finding["cls"]
    if cls == "held-head-text-without-its-wrapper":
        return case.get("kind") == "observation" and bool(case.get("guard_broken")) and not case.get("unraisable")
    if cls == "library-held-head-text-during-call":
        return (case.get("kind") == "observation" and case.get("mode") == "threshold-1" and bool(case.get("lib_guard_broken"))
                and not case.get("guard_broken") and not case.get("unraisable"))
    if cls == "blank-text-node-hides-its-chain":
        # a blanked text node hides what follows it in its chain until a collection merges the chain; that needs the
        # chain to be unreferenced: no chain member behind a blank is held when the runs first differ
        return (case.get("kind") == "observation" and (bool(case.get("blanked")) or bool(case.get("emptied_head")))
                and not case.get("blank_tail_held") and not case.get("unraisable"))
    if cls == "wrapped-serialization-of-uncoalesced-text":
        a, b = (case.get("without_gc") or {}).get("pretty"), (case.get("with_gc") or {}).get("pretty")
        # (not in the other-thread mode: there the only collections run inside `with _wrapper_cache:` regions)
        return (case.get("kind") == "observation" and case.get("differs") == ["pretty"] and case.get("mode") != "other-thread"
                and isinstance(a, list) and isinstance(b, list) and a[0] == b[0] and a[1] != b[1]
                and "".join(a[1].split()) == "".join(b[1].split()))
    if cls == "empty-head-with-chain":
        return bool(case.get("emptied_head")) and (case.get("kind") == "unraisable" or bool(case.get("unraisable")))
    return False


def replay_open(f):
    state = (gc.isenabled(), gc.get_threshold())
    try:
        gc.disable()
        if f["cls"] == "held-head-text-without-its-wrapper":
            root = Document('<root><a/>tail</root>').root
            with altered_default_filters():
                held = root[1]
            del root
            gc.collect()
            top = cache(held._bound_to)
            with altered_default_filters():
                same = top.fetch_following_sibling() is held
                held.add_following_siblings("X")
                lost = "X" not in str(top.parent)
            return (not same) or lost
        if f["cls"] == "library-held-head-text-during-call":
            d = Document('<root><a/>tail</root>')
            root = d.root
            gc.set_threshold(1)
            gc.enable()
            root.append_children("Y")
            gc.disable()
            return "Y" not in str(root)
        if f["cls"] == "blank-text-node-hides-its-chain":
            r = Document(f["witness"]["xml"]).root
            with altered_default_filters():
                k = r[0][0].add_following_siblings("k", "E", "z")
                k[1].content = ""
            del k
            before = str(r)
            gc.collect()
            return str(r) != before
        if f["cls"] == "wrapped-serialization-of-uncoalesced-text":
            d = Document(f["witness"]["xml"])
            with altered_default_filters():
                d.root[0][1].detach()
            before = d.root.serialize(format_options=WRAPPED)
            gc.collect()
            return d.root.serialize(format_options=WRAPPED) != before
        if f["cls"] == "empty-head-with-chain":
            with Unraisable() as unr:
                r = Document('<r>a</r>').root
                with altered_default_filters():
                    a = r[0]
                    r.append_children("b")
                    a.content = ""
                del a, r
                gc.collect()
            cache.wrappers.clear()
            return any(t == "TypeError" for t, _ in unr.seen)
    finally:
        gc.set_threshold(*state[1])
        if state[0]:
            gc.enable()
        else:
            gc.disable()
        gc.collect()
    return True


# =============================================================================================== driver
def run(ctx, args):
    ctx.regen(["GenWs.v", "GenGC.v"])
    ctx.build("Props/C04.vo")
    state = (gc.isenabled(), gc.get_threshold())
    import shutil
    import tempfile
    SCRATCH[:] = [tempfile.mkdtemp(prefix="c04-")]
    try:
        gc.disable()
        if args.replay:
            with open(args.replay) as f:
                rep = json.load(f)
            case = rep.get("case") or {}
            if case.get("prog"):
                compare_runs(ctx, case["prog"])
            elif case.get("kind") == "release":
                part_eviction(ctx, 0)          # the fixed release cases
            return ctx.finish("replay of " + args.replay, level="proof", replay_open=replay_open)
        quick = ctx.tier == "quick"
        part_eviction(ctx, 60 if quick else 1500)
        for prog in FIXED_PROGRAMS:
            compare_runs(ctx, prog)
        for i in range(60 if quick else 1800):
            compare_runs(ctx, gen_program(ctx.rng, ctx.rng.choice([3, 6, 10])))
    finally:
        gc.set_threshold(*state[1])
        if state[0]:
            gc.enable()
        else:
            gc.disable()
        shutil.rmtree(SCRATCH[0], ignore_errors=True)
    ctx.notes.append("gc state restored: enabled=%s thresholds=%s" % (gc.isenabled(), gc.get_threshold()))
    return ctx.finish(
        rule="(1) eviction rule: a document with chains of appended text grown through the API (optionally only partly "
             "navigated), a random subset of its wrapper / text / document objects held (plus the patterns: only a head text "
             "node, only the last text of a chain, root without document, document only, nothing), one real gc.collect(); "
             "surviving wrappers and lxml slots compared with Coq's gc_step on the dumped reference graph; non-trivial = the "
             "collection evicted something. (2) programs: 3-10 operations (add text/elements before/after/into held nodes, "
             "set content, navigate to parent / tag child / following tag and keep it, detach, replace_with, drop a "
             "reference, serialize) over handles taken from 3 documents with random initial holdings incl. text nodes "
             "without their element, chained text without predecessors, root without document; each run with no "
             "collection, gc.collect() after every call, and gc.set_threshold(1); one evaluation = one (program, mode) run "
             "compared step by step with the run without collections; distinct by (program, mode). Further modes: every call under "
             "an always-true ambient filter that runs gc.collect() on every n-th invocation (collections inside callbacks the "
             "library makes; baseline: the same filter without collecting), and a collection run by a second thread from a "
             "warnings.showwarning hook fired inside a locked serialization (document with an invalid xml:space). Programs "
             "also create unreferenced runs of adjacent text nodes behind / inside elements nobody holds, reference the "
             "document one to three times without holding its root, and observe document.root / node.document.",
        replay_open=replay_open,
        explanation="PARTIAL: theorems cover collections at quiescent points over the modelled reference graph; collections "
                    "inside library calls (threshold-1 runs), CPython's real reference counts and collector scheduling are "
                    "exercised by part (2), not proved.")


if __name__ == "__main__":
    common.main(run, "C04")
