"""C11 - attributes behave as a mapping keyed by namespace and local name.

Operation sequences are run on real nodes; after every step the lxml store, the iteration, and every Attribute
object handed out so far are encoded exactly as Attr/AttrEnc.v encodes the model (`model_trace`: correspondence)
and the dictionary specification (`spec_trace`: the property itself, evaluated in Coq along the observed
identity hints).  `run_class` tells which guard of the theorems a run leaves first, i.e. whether a property
failure lies inside a recorded finding class, outside the stated domain, or inside the domain of the theorem."""
import json
import os
import sys
import time

import common
from common import cstr
import impl
from impl import Document, new_tag_node, no_gc
from _delb.names import deconstruct_clark_notation
from _delb.nodes import Attribute

# The two comparators run inside Coq because printing (and computing) 61-bit N values is what costs time there: the
# implementation's checksums go in as hex literals, out come the first differing / first failing step.
REQ = ("From Coq Require Import List NArith Bool.\nFrom Delb.Base Require Import PyStr.\n"
       "From Delb.Attr Require Import AttrModel AttrEnc.\nImport ListNotations.\n"
       "Fixpoint c11_first_diff (a b : list N) (i : N) : N :=\n"
       "  match a, b with x :: r, y :: s => if N.eqb x y then c11_first_diff r s (i + 1)%N else i | _, _ => i end.\n"
       "Fixpoint c11_first_fail (sp im : list N) (i : N) : N :=\n"
       "  match sp, im with\n"
       "  | a :: s :: r, a' :: s' :: r' =>\n"
       "      if ((N.eqb a 0 || N.eqb a a') && N.eqb s s')%bool then c11_first_fail r r' (i + 1)%N else i\n"
       "  | _, _ => i\n  end.\n")
KINDS = ["plain", "created-ns", "parsed-default", "parsed-prefixed", "parsed-default-other", "moved"]
EXTRA_KINDS = ["parsed-collision", "parsed-double"]
NS, NAMES = ["", "d", "e"], ["k", "j", "h"]
MOD = 2305843009213693951
EXN = {"InvalidOperation": 0, "ValueError": 1, "TypeError": 2, "IndexError": 3, "AssertionError": 5, "AttributeError": 6}
# run_class of AttrEnc.v -> cls of the open findings (class 3, alias rename, is inside the guards since fix 159ed68)
CLS = {1: "double-entry", 2: "second-live-view"}      # run_class of AttrEnc.v -> cls of the open findings; 3 unused
OBJ_OPS = {"value": None, "setvalue": "value", "setlocal": "local_name", "setns": "namespace"}
MUTATORS = ("set", "nset", "del", "ndel", "pop", "update", "setvalue", "setlocal", "setns")
C1 = {"get": "OGet", "del": "ODel", "contains": "OContains", "pop": "OPop", "nget": "ONodeGet", "ndel": "ONodeDel",
      "ncontains": "ONodeContains"}
C2 = {"set": "OSet", "nset": "ONodeSet", "setvalue": "OSetValue", "setlocal": "OSetLocal", "setns": "OSetNs"}
WEIGHTS = [("set", 3), ("nset", 1), ("get", 3), ("nget", 1), ("del", 1), ("ndel", 1), ("pop", 1), ("contains", 1),
           ("ncontains", 1), ("iter", .5), ("len", .5), ("update", 1), ("value", 2), ("setvalue", 2), ("setlocal", 2),
           ("setns", 2)]
UNSPEC = object()
PFX = "c11_%d_" % os.getpid()      # case files of concurrent runs of this check must not collide


# ------------------------------------------------------------------------------------------------ encodings (AttrEnc.v)
def enc_s(s):
    return [len(s)] + [ord(c) for c in s]


def enc_q(q):
    return enc_s(q[0]) + enc_s(q[1])


def enc_keys(keys):
    return [3, len(keys)] + [x for q in keys for x in enc_q(q)]


def enc_exc(e):
    return [6] if isinstance(e, KeyError) else [7, EXN.get(type(e).__name__, 11)]


CKS_FORMS = {"mersenne61": lambda h, x: (h * 1000003 + x + 1) % MOD, "djb30": lambda h, x: (33 * h + x + 1) & 1073741823}
CKS = {"step": CKS_FORMS["mersenne61"]}


def cks(l):
    h, f = 7, CKS["step"]
    for x in l:
        h = f(h, x)
    return h


def calibrate(ctx):
    """which of the known forms of AttrEnc.cks is compiled in (checked on a probe, before anything is hashed)"""
    probe = [5, 0, 77, 1000, 123456789]
    got = ctx.coq_eval(PFX + "cal", REQ, ["(let c := cks [%s]%%N in [N.modulo c 1000003%%N; "
                                        "N.modulo (N.div c 1000003%%N) 1000003%%N])" % ";".join(map(str, probe))])[0]
    for name, f in CKS_FORMS.items():
        CKS["step"] = f
        if got == [cks(probe) % 1000003, cks(probe) // 1000003 % 1000003]:
            return name
    ctx.mismatch("AttrEnc.cks vs the harness' checksum", {"probe": probe, "coq": got})
    return None


def hexlist(l):
    return "[%s]%%N" % "; ".join("0x%x" % v for v in l) if l else "(@nil N)"


# ------------------------------------------------------------------------------------------------ Gallina / python terms
def py_acc(a):
    return a[1] if a[0] == "str" else (a[1], a[2]) if a[0] == "pair" else 5


def c_acc(a):
    if a[0] == "str":
        return "(AStr %s)" % cstr(a[1])
    if a[0] == "pair":
        return "(APair %s %s)" % ("None" if a[1] is None else "(Some %s)" % cstr(a[1]), cstr(a[2]))
    return "ABad"


def c_op(o):
    k = o[0]
    if k in C1:
        return "%s %s" % (C1[k], c_acc(o[1]))
    if k in ("set", "nset"):
        return "%s %s %s" % (C2[k], c_acc(o[1]), cstr(o[2]))
    if k in ("iter", "len"):
        return "OIter" if k == "iter" else "OLen"
    if k == "update":
        return "OUpdate [%s]" % "; ".join("(%s, %s)" % (c_acc(a), cstr(v)) for a, v in o[1])
    if k == "value":
        return "OValue %d%%nat" % o[1]
    return "%s %d%%nat %s" % (C2[k], o[1], cstr(o[2]))


def c_init(init, fn="init_sys"):
    return "(%s %s %s [%s])" % (fn, cstr(init[0]), cstr(init[1]),
                                "; ".join("(%s, %s)" % (cstr(k), cstr(v)) for k, v in init[2]))


def c_lets(rec):
    hints = "; ".join("Some %d%%nat" % a[1] if a[0] == 4 else "None" for a in rec["ans"])
    return ("let y := %s in let ops : list op := [%s] in let hops := combine ops ([%s] : list (option nat)) in "
            % (c_init(rec["init"]), "; ".join(c_op(o) for o in rec["ops"]), hints))


# ------------------------------------------------------------------------------------------------ the implementation side
def mknode(kind):
    """(node, what must stay referenced)"""
    if kind == "plain":
        n = new_tag_node("n")
    elif kind == "created-ns":
        n = new_tag_node("n", namespace="d")
    elif kind == "parsed-default":
        n = Document('<r xmlns="d"><n/></r>').root[0]
    elif kind == "parsed-prefixed":
        n = Document('<r xmlns:p="d"><p:n/></r>').root[0]
    elif kind == "parsed-default-other":
        n = Document('<r xmlns="e"><p:n xmlns:p="d"/></r>').root[0]
    elif kind == "moved":
        r = Document('<r xmlns="d"/>').root
        n = new_tag_node("n", {"k": "0"}, namespace="d")
        r.append_children(n)
    elif kind == "parsed-collision":
        n = Document('<x xmlns="d" xmlns:p="d" p:k="v"/>').root
    elif kind == "parsed-double":      # two XML attributes that delb presents under the one key (d, k)
        n = Document('<x xmlns="d" xmlns:p="d" k="1" p:k="2"/>').root
    else:
        raise ValueError(kind)
    return n, [n, n.document, n.parent]


def init_of(node):
    e = node._etree_obj
    return (e.nsmap.get(None) or "", node.namespace or "", list(e.attrib.items()))


class Session:
    def __init__(self, kind):
        self.node, self.keep = mknode(kind)
        self.attrs = self.node.attributes
        self.held = []
        self.init = init_of(self.node)

    def answer(self, r):
        if r is UNSPEC:
            return [8]
        if r is None:
            return [0]
        if isinstance(r, Attribute):
            for i, h in enumerate(self.held):
                if h is r:
                    return [4, i]
            self.held.append(r)
            return [4, len(self.held) - 1]
        if isinstance(r, bool):
            return [1, int(r)]
        if isinstance(r, int):
            return [2, r]
        if isinstance(r, list):
            return enc_keys(r)
        if isinstance(r, str):
            return [5] + enc_s(r)
        raise TypeError("unexpected result %r" % (r,))

    def do(self, o):
        k, n, at = o[0], self.node, self.attrs
        if k in OBJ_OPS:
            if not 0 <= o[1] < len(self.held):
                return UNSPEC                       # no such object: nothing to run (the model says RUnspec too)
            if k == "value":
                return self.held[o[1]].value
            setattr(self.held[o[1]], OBJ_OPS[k], o[2])
            return None
        if k == "iter":
            return list(at)
        if k == "len":
            return len(at)
        if k == "update":
            at.update({py_acc(a): v for a, v in o[1]})
            return None
        a = py_acc(o[1])
        if k == "get":
            return at[a]
        if k == "nget":
            return n[a]
        if k == "contains":
            return a in at
        if k == "ncontains":
            return a in n
        if k == "pop":
            return at.pop(a, None)
        if k == "set":
            at[a] = o[2]
        elif k == "nset":
            n[a] = o[2]
        elif k == "del":
            del at[a]
        elif k == "ndel":
            if len(o) > 2 and o[2] == "slice" and isinstance(a, tuple):
                del n[a[0]:a[1]]
            else:
                del n[a]
        else:
            raise ValueError("unknown op %r" % (o,))
        return None

    def step(self, o):
        try:
            return self.answer(self.do(o))
        except Exception as e:  # noqa: BLE001
            return enc_exc(e)

    def observe(self, ans):
        """(enc_model_obs, enc_spec_state) of the implementation after a step that answered `ans`"""
        items = list(self.node._etree_obj.attrib.items())
        try:
            keys = list(self.attrs)
            it = enc_keys(keys)
        except Exception as e:  # noqa: BLE001
            keys, it = None, enc_exc(e)
        m = ans + [len(items)] + [x for k, v in items for x in enc_s(k) + enc_s(v)] + it + [len(self.held)]
        vals = []
        for h in self.held:
            try:
                v = [5] + enc_s(h.value)
            except Exception as e:  # noqa: BLE001
                v = enc_exc(e)
            m += [0 if h._attributes is not None else 1] + enc_q((h.namespace, h.local_name)) + v
            vals += v
        if keys is None:
            return m, [999]
        st = [len(keys)] + [x for q, (_, v) in zip(keys, items) for x in enc_q(q) + enc_s(v)] + [len(self.held)] + vals
        return m, st


def run_seq(kind, ops=None, gen=None, mode="fixed", full=False):
    """run given ops, or ops produced step by step by gen(session, step), on a fresh node of `kind`"""
    s = Session(kind)
    rec = {"kind": kind, "mode": mode, "ops": [], "init": s.init, "ans": [], "mck": [], "sck": [], "nontrivial": False}
    if full:
        rec["m"], rec["st"] = [], []
    mutated = False
    for t in range(len(ops) if ops is not None else 30):
        o = ops[t] if ops is not None else gen(s, t)
        ans = s.step(o)
        m, st = s.observe(ans)
        rec["ops"].append(o)
        rec["ans"].append(ans)
        rec["mck"].append(cks(m))
        rec["sck"].append(cks(st))
        if full:
            rec["m"].append(m)
            rec["st"].append(st)
        if o[0] in OBJ_OPS and mutated:
            rec["nontrivial"] = True
        mutated = mutated or o[0] in MUTATORS
    return rec


# ------------------------------------------------------------------------------------------------ generation
def gen_acc(rng, mode, allow_bad):
    if mode == "free" and rng.random() < 0.02:
        return ["bad"] if allow_bad and rng.random() < 0.5 else ["str", "{abc"]
    ns, nm = rng.choice(NS), rng.choice(NAMES)
    f = rng.choice(["local", "clark", "pair", "pair", "none"])
    if f == "local":
        return ["str", nm]
    if f == "clark":               # incl. the empty Clark namespace "{}name" = no namespace, as ("", name)
        return ["str", "{%s}%s" % (ns, nm)]
    return ["pair", None if f == "none" else ns, nm]


def resolved(node, a):
    try:
        ns, name = deconstruct_clark_notation(a[1]) if a[0] == "str" else (a[1], a[2])
    except Exception:  # noqa: BLE001
        return None
    return ((node.namespace or "") if ns is None else ns, name)


def unsafe(s, o):
    """would this op leave the guards of the theorems (approximation; Coq's run_class decides)"""
    dns = s.node._etree_obj.nsmap.get(None) or ""
    cache = s.attrs._attributes

    def norm(q):
        return (dns if q[0] == "" else q[0], q[1])

    def stale(q, but):
        return any(g is not but and g._attributes is not None and norm((g.namespace, g.local_name)) == norm(q)
                   and g is not cache.get(q) for g in s.held)
    if o[0] in ("del", "ndel", "pop"):
        q = resolved(s.node, o[1]) if o[1][0] != "bad" else None
        return q is None or (py_acc(o[1]) in s.attrs and stale(q, None))
    if o[0] in ("setlocal", "setns"):
        h = s.held[o[1]]
        old = (h.namespace, h.local_name)
        new = (old[0], o[2]) if o[0] == "setlocal" else (o[2], old[1])
        if new == old or h._attributes is None or norm(old) == norm(new):
            return False            # another spelling of the same entry: only the cache entry moves
        return stale(old, h)
    return False


def make_gen(rng, mode):
    names, weights = [w[0] for w in WEIGHTS], [w[1] for w in WEIGHTS]

    def gen(s, t):
        for _ in range(40):
            k = rng.choices(names, weights)[0]
            if k in OBJ_OPS:
                if not s.held:
                    continue
                i = rng.randrange(len(s.held))
                o = [k, i] if k == "value" else [k, i, "w%d" % t if k == "setvalue" else
                                                 rng.choice(NAMES if k == "setlocal" else NS)]
            elif k in ("iter", "len"):
                o = [k]
            elif k == "update":
                items = {}
                for _ in range(rng.randint(1, 3)):
                    a = gen_acc(rng, mode, False)
                    items.setdefault(repr(py_acc(a)), [a, "u%d" % t])
                o = [k, list(items.values())]
            else:
                a = gen_acc(rng, mode, not k.startswith("n"))
                o = [k, a, "v%d" % t] if k in ("set", "nset") else [k, a]
                if k == "ndel" and a[0] == "pair" and rng.random() < 0.5:
                    o.append("slice")
            if mode == "guarded" and unsafe(s, o):
                continue
            return o
        return ["len"]
    return gen


REGRESSION = [   # witnesses of the findings repaired in /repo (also run through findings.d), and variants
    ("plain", [["set", ["str", "k"], "1"], ["get", ["str", "k"]], ["set", ["str", "k"], "2"], ["del", ["str", "k"]], ["value", 0]]),
    ("plain", [["set", ["str", "k"], "1"], ["get", ["str", "k"]], ["setlocal", 0, "j"], ["del", ["str", "j"]], ["value", 0]]),
    ("created-ns", [["set", ["str", "k"], "1"], ["get", ["str", "k"]], ["setns", 0, "e"], ["pop", ["pair", "e", "k"]], ["value", 0]]),
    ("parsed-default", [["set", ["str", "k"], "1"], ["get", ["str", "k"]], ["setns", 0, ""], ["len"], ["value", 0],
                        ["nget", ["str", "k"]], ["setns", 0, "d"], ["iter"], ["value", 0]]),
    ("parsed-default-other", [["set", ["pair", "", "k"], "1"], ["get", ["pair", "", "k"]], ["setns", 0, "e"], ["len"], ["value", 0]]),
    ("moved", [["nset", ["str", "k"], "1"], ["len"], ["iter"], ["get", ["pair", "d", "k"]], ["value", 0], ["del", ["str", "{d}k"]], ["value", 0]]),
    ("moved", [["contains", ["pair", "", "k"]], ["set", ["pair", "", "k"], "1"], ["len"], ["iter"], ["get", ["pair", "", "k"]],
               ["setlocal", 0, "j"], ["ncontains", ["str", "j"]], ["pop", ["pair", "", "j"]], ["value", 0], ["len"]]),
]
REGRESSION_EQ = [('<a k="v"/>', '<a xmlns="d" k="v"/>'), ('<a xmlns="d" k="v"/>', '<a k="v"/>'),
                 ('<a xmlns="e" k="v"/>', '<a xmlns="d" k="v"/>'), ('<a xmlns="d" k="v"/>', '<a xmlns="d" k="v"/>')]


def fixed_cases():
    yield from REGRESSION
    for kind in KINDS:             # "{}name" is ("", name), not (the node's namespace, name)
        yield kind, [["set", ["pair", "", "x"], "1"], ["set", ["str", "x"], "2"], ["get", ["str", "{}x"]], ["value", 0],
                     ["contains", ["str", "{}x"]], ["get", ["pair", "", "x"]], ["nset", ["str", "{}y"], "3"], ["iter"],
                     ["ncontains", ["pair", "", "y"]], ["nget", ["str", "{}y"]], ["value", 1], ["del", ["str", "{}x"]],
                     ["contains", ["pair", "", "x"]], ["contains", ["str", "x"]], ["pop", ["str", "{}y"]], ["len"], ["iter"]]
    forms = [["str", "k"], ["str", "{d}k"], ["pair", "d", "k"], ["pair", "", "k"], ["pair", None, "k"], ["str", "{}k"]]
    for kind in KINDS:
        for a in forms:
            yield kind, [["set", a, "1"], ["get", a], ["contains", a], ["value", 0], ["setvalue", 0, "2"], ["nget", a],
                         ["len"], ["iter"], ["del", a], ["value", 0], ["ncontains", a], ["pop", a], ["setvalue", 0, "3"],
                         ["value", 0], ["len"]]
        yield kind, [["update", [[forms[0], "1"], [forms[2], "2"]]], ["nget", forms[1]], ["setlocal", 0, "j"],
                     ["iter"], ["value", 0], ["ndel", ["pair", "d", "j"], "slice"], ["value", 0], ["len"]]
        yield kind, [["nset", forms[2], "1"], ["get", forms[2]], ["setns", 0, "e"], ["contains", ["str", "{e}k"]],
                     ["contains", forms[2]], ["setvalue", 0, "3"], ["nget", ["pair", "e", "k"]], ["pop", ["str", "{e}k"]],
                     ["value", 0], ["setlocal", 0, "h"]]


# ------------------------------------------------------------------------------------------------ judging
def classify(finding, case):
    return finding["cls"] == case.get("cls")


def tally(ctx, key, n=1):
    d = ctx.cov["distribution"]
    d[key] = d.get(key, 0) + n


def split_full(l):
    out, i = [], 0
    while l is not None and i < len(l):
        out.append(l[i + 1:i + 1 + l[i]])
        i += 1 + l[i]
    return out


def explain(ctx, rec, t):
    """both sides written out at step t (model_full / spec_full against the implementation's encodings)"""
    with no_gc():
        r = run_seq(rec["kind"], ops=rec["ops"], full=True)
    lets = c_lets(r)
    mf, sf = ctx.coq_eval(PFX + "explain", REQ, ["(%smodel_full y ops)" % lets, "(%sspec_full (abs_sys y) hops)" % lets])
    mf, sf = split_full(mf), split_full(sf)
    return {"step": t, "op": rec["ops"][t], "init": rec["init"], "impl_answer": r["ans"][t],
            "impl_model_obs": r["m"][t], "model_obs": mf[t] if t < len(mf) else None,
            "impl_spec_state": r["st"][t], "spec_answer_then_state": sf[t] if t < len(sf) else None}


def evaluate(ctx, recs, witness_fails):
    terms = ["(%s[c11_first_diff (model_trace y ops) %s 0%%N; c11_first_fail (spec_trace (abs_sys y) hops) %s 0%%N]"
             " ++ run_class y ops)" % (c_lets(r), hexlist(r["mck"]),
                                       hexlist([x for a, st in zip(r["ans"], r["sck"]) for x in (cks(a), st)]))
             for r in recs]
    vals = ctx.coq_eval(PFX + "seq", REQ, terms, chunk=min(150, max(20, -(-len(terms) // 16))))
    for rec, val in zip(recs, vals):
        n = len(rec["ops"])
        case = {"kind": rec["kind"], "ops": rec["ops"], "mode": rec["mode"]}
        ctx.count(n, "steps:%s/%s" % (rec["kind"], rec["mode"]))
        tally(ctx, "sequences:" + rec["mode"])
        if rec["nontrivial"]:
            ctx.nontrivial_case((rec["kind"], rec["ops"]))
        if n <= 6 or rec["mode"] == "fixed":
            ctx.sample({"kind": rec["kind"], "ops": rec["ops"], "answers(enc_out)": rec["ans"]}, limit=6)
        if val is None or len(val) != 4:
            ctx.mismatch("model vs TagAttributes", {"case": case, "problem": "coqc failed on the case file"})
            continue
        bad, t, c, u = (None if val[0] >= n else val[0]), (None if val[1] >= n else val[1]), val[2], val[3]
        if bad is not None:
            first = not any(b[0] == "correspondence" for b in ctx.broken)
            ctx.mismatch("model vs TagAttributes", dict(explain(ctx, rec, bad) if first else {"step": bad}, case=case))
        if "finding" in rec:
            witness_fails[rec["finding"]] = t is not None
        if c == 0:
            tally(ctx, "whole-run-inside-theorem-domain:" + rec["mode"])
        if c == 5:
            ctx.mismatch("initial state not well-formed", {"case": case, "init": rec["init"]})
        if t is None:
            tally(ctx, "outcome:property-holds" + ("" if c == 0 else "/guard-left"))
            continue
        what = "step %d (%s): answer or dictionary/views differ from the dictionary specification" % (t, rec["ops"][t][0])
        case.update(ops=rec["ops"][:t + 1], step=t, impl_answer=rec["ans"][t])     # the failing prefix is enough
        if c in CLS and u <= t:
            tally(ctx, "outcome:fails-in-class/" + CLS[c])
            ctx.fail(what, dict(case, cls=CLS[c]), classify)
        elif c == 4 and u <= t:
            tally(ctx, "outcome:out-of-domain")
        elif c != 5:
            tally(ctx, "outcome:FAILS-IN-DOMAIN")
            if len(ctx.failing) < 3:
                case["detail"] = explain(ctx, rec, t)
            ctx.fail(what, dict(case, cls=None, run_class=[c, u]), classify)


# ------------------------------------------------------------------------------------------------ equality of collections
DECLS = ["", ' xmlns="d"', ' xmlns:p="d"', ' xmlns="e" xmlns:p="d"']


def gen_eq_xml(rng):
    decl = rng.choice(DECLS) if rng.random() < 0.95 else ' xmlns="d" xmlns:p="d"'
    names = ["k", "j"] + (["p:k", "p:j"] if "xmlns:p" in decl else [])
    picks = rng.sample(names, rng.randint(0, min(3, len(names))))
    return "<a%s%s/>" % (decl, "".join(' %s="%s"' % (n, rng.choice("vw")) for n in picks))


def presented(n):
    return dict(zip(list(n.attributes), n._etree_obj.attrib.values()))


# A node recipe is an XML text (the root element is the node) or
# {"attrs": [[ns, name, value], ...], "route": "parse" | "parse-prefixed" | "api" | "api-ns" | "moved" | "moved-ns", "under": D}
# - the same attribute set reaches a node by different routes, which differ in how lxml stores the keys
# (`k` vs `{d}k` under the default namespace d): parsed with unprefixed / prefixed attributes below
# <r xmlns=D>, created detached (with / without a node namespace), created and then moved under <r xmlns=D>.
def build_recipe(desc):
    if isinstance(desc, str):
        n = Document(desc).root
        return n, [n, n.document]
    attrs, route, under = desc["attrs"], desc["route"], desc.get("under") or ""
    if route.startswith("parse"):
        decl = (' xmlns="%s"' % under if under else "") + ' xmlns:pd="d" xmlns:pe="e"'
        parts, seen = [], set()
        for ns, name, value in attrs:
            # an attribute in the default namespace can only be written with a prefix; the unprefixed one is
            # the attribute without namespace (delb presents both under the default namespace)
            rendered = name if not ns or (ns == under and route == "parse") else "p%s:%s" % (ns, name)
            if rendered not in seen:
                seen.add(rendered)
                parts.append(' %s="%s"' % (rendered, value))
        n = Document("<r%s><n%s/></r>" % (decl, "".join(parts))).root[0]
        return n, [n, n.document]
    d = {((ns, name) if ns else name): value for ns, name, value in attrs}
    n = new_tag_node("n", attributes=d, namespace=(under or None) if route.endswith("-ns") else None)
    keep = [n]
    if route.startswith("moved"):
        r = Document('<r xmlns="%s"/>' % under if under else "<r/>").root
        r.append_children(n)
        keep += [r, r.document]
    return n, keep


ROUTES = ["parse", "parse-prefixed", "api", "api-ns", "moved", "moved-ns"]


def gen_eq_recipes(rng):
    """two recipes: the same attribute set by two routes (often), or one attribute changed"""
    attrs = []
    for name in rng.sample(["k", "j", "h"], rng.randint(0, 3)):
        attrs.append([rng.choice(["", "", "d", "d", "e"]), name, rng.choice("vw")])
    other = [list(a) for a in attrs]
    r = rng.random()
    if other and r < 0.15:
        rng.choice(other)[2] = "x"
    elif other and r < 0.25:
        other.pop(rng.randrange(len(other)))
    elif other and r < 0.35:
        rng.choice(other)[0] = rng.choice(["", "d", "e"])
    ua = rng.choice(["", "d", "d", "e"])
    ub = ua if rng.random() < 0.65 else rng.choice(["", "d", "e"])
    return ({"attrs": attrs, "route": rng.choice(ROUTES), "under": ua},
            {"attrs": other, "route": rng.choice(ROUTES), "under": ub})


def _r(attrs, route, under):
    return {"attrs": attrs, "route": route, "under": under}


_KV = [["d", "k", "v"], ["d", "l", "w"]]
REGRESSION_EQ += [
    # one dictionary {(d,k): v, (d,l): w} under the default namespace d, stored as k/l or as {d}k/{d}l
    (_r(_KV, "parse", "d"), _r(_KV, "moved-ns", "d")), (_r(_KV, "parse", "d"), _r(_KV, "parse-prefixed", "d")),
    (_r(_KV, "moved", "d"), _r(_KV, "parse", "d")), (_r(_KV, "moved-ns", "d"), _r(_KV, "parse-prefixed", "d")),
    (_r([["", "k", "v"]], "parse", "d"), _r([["d", "k", "v"]], "moved-ns", "d")),
    ('<x xmlns="d" k="v"/>', '<x xmlns="d" xmlns:p="d" p:k="v"/>'), ('<x xmlns="d" xmlns:p="d" p:k="v"/>', '<x xmlns="d" k="v"/>'),
    ('<x xmlns="d" k="v"/>', '<x xmlns="d" xmlns:p="d" p:k="w"/>'), ('<x xmlns="d" k="v" j="w"/>', '<x xmlns="d" xmlns:p="d" p:k="v"/>'),
    # before the move / different default namespaces / no default namespace
    (_r(_KV, "parse", "d"), _r(_KV, "api-ns", "d")), (_r(_KV, "api", ""), _r(_KV, "moved", "d")),
    (_r(_KV, "parse-prefixed", "e"), _r(_KV, "parse", "d")), (_r(_KV, "parse-prefixed", ""), _r(_KV, "api", "")),
    (_r([["", "k", "v"]], "parse", ""), _r([["", "k", "v"]], "moved", "d")), (_r([["e", "k", "v"]], "parse-prefixed", "d"), _r([["e", "k", "v"]], "api", "")),
    (_r([], "api", ""), _r([], "parse", "d")), (_r(_KV, "parse", "d"), _r(_KV[:1], "moved-ns", "d")),
]


def spec_key(node, key):
    """the dictionary key an accessor denotes on `node` (AttrModel.acc_key): Clark notation or local name
    (-> the node's namespace), (ns | None, name); no namespace = the default namespace in scope"""
    if isinstance(key, str):
        ns, name = (key[1:].split("}", 1) if key.startswith("{") else (None, key))
    else:
        ns, name = key
    ns = (node.namespace or "") if ns is None else ns
    return ((node._etree_obj.nsmap.get(None) or "") if ns == "" else ns, name)


def spec_eq_mapping(node, mapping):
    """`collection == mapping` for a plain mapping whose keys are accessors of the collection's node"""
    mine = presented(node)
    keys = [spec_key(node, k) for k in mapping]
    if len(set(keys)) != len(keys):
        # two keys of the mapping denote one entry of the collection (("", k) and (d, k) under the default
        # namespace d): not a pair of dictionaries the property speaks about -> no verdict demanded
        return "skip"
    return (len(mapping) == len(node._etree_obj.attrib)
            and all(k in mine and mine[k] == v for k, v in zip(keys, mapping.values())))


def eq_forms(a, b):
    """the ways of asking whether two collections are equal: (label, question, negated, expected or None = the
    verdict on the two presented dictionaries, decided in Coq)"""
    pb, pa = presented(b), presented(a)
    try:
        sb = b.attributes.as_dict_with_strings()
    except Exception as e:  # noqa: BLE001  (reported as the answer of the forms that need it)
        err = e

        def boom():
            raise err
        return [("b.as_dict_with_strings()", boom, False, None)]
    return [("a == b", lambda: a.attributes == b.attributes, False, None),
            ("b == a", lambda: b.attributes == a.attributes, False, None),
            ("a != b", lambda: a.attributes != b.attributes, True, None),
            ("b != a", lambda: b.attributes != a.attributes, True, None),
            ("a == dict(b)", lambda: a.attributes == pb, False, spec_eq_mapping(a, pb)),
            ("dict(b) == a", lambda: pb == a.attributes, False, spec_eq_mapping(a, pb)),
            ("b == dict(a)", lambda: b.attributes == pa, False, spec_eq_mapping(b, pa)),
            ("a != dict(b)", lambda: a.attributes != pb, True, spec_eq_mapping(a, pb)),
            ("a == b.as_dict_with_strings()", lambda: a.attributes == sb, False, spec_eq_mapping(a, sb)),
            ("b.as_dict_with_strings() == a", lambda: sb == a.attributes, False, spec_eq_mapping(a, sb))]


def check_eq(ctx, pairs):
    recs = []
    with no_gc():
        for x1, x2 in pairs:
            try:
                (a, ka), (b, kb) = build_recipe(x1), build_recipe(x2)
            except Exception as e:  # noqa: BLE001  (a recipe lxml or delb refuses: not a case)
                tally(ctx, "eq-recipe-refused/" + type(e).__name__)
                continue
            inits = (init_of(a), init_of(b))
            answers = []
            for label, f, neg, exp in eq_forms(a, b):
                try:
                    r = f()
                    ans = [1, int(r)] if isinstance(r, bool) else [7, 11]
                except Exception as e:  # noqa: BLE001
                    ans = enc_exc(e)
                answers.append((label, ans, neg, exp))
            recs.append((x1, x2, inits, answers))
    terms = []
    for _, _, i, _ in recs:
        terms.append("eq_obs %s %s" % (c_init(i[0], "init_state"), c_init(i[1], "init_state")))
        terms.append("eq_obs %s %s" % (c_init(i[1], "init_state"), c_init(i[0], "init_state")))
    vals = ctx.coq_eval(PFX + "eq", REQ, terms, chunk=150)
    for n, (x1, x2, inits, answers) in enumerate(recs):
        case = {"eq": [x1, x2], "stores": [inits[0][2], inits[1][2]], "default_namespaces": [inits[0][0], inits[1][0]]}
        ctx.count(len(answers), "eq-comparisons")
        tally(ctx, "eq-pairs")
        val, rval = vals[2 * n], vals[2 * n + 1]
        if val is None or rval is None or len(val) < 4 or len(rval) < 4:
            ctx.mismatch("attrs_eq vs TagAttributes.__eq__", {"case": case, "problem": "coqc failed on the case file"})
            continue
        model, (deq, same_dns, wf) = val[:-3], val[-3:]
        rmodel = rval[:-3]
        if x1 != x2 and answers[0][1] == [1, 1]:
            ctx.nontrivial_case(("eq", json.dumps(x1), json.dumps(x2)))
        if sorted(k for k, _ in inits[0][2]) != sorted(k for k, _ in inits[1][2]) and deq == 1:
            tally(ctx, "eq-pairs/equal-with-different-store-keys")
        if answers[0][0] == "a == b" and model != answers[0][1]:
            ctx.mismatch("attrs_eq vs TagAttributes.__eq__", {"case": case, "impl": answers[0][1], "model": model})
        if len(answers) > 1 and rmodel != answers[1][1]:
            ctx.mismatch("attrs_eq vs TagAttributes.__eq__", {"case": case, "order": "b == a", "impl": answers[1][1], "model": rmodel})
        for label, ans, neg, exp in answers:
            if exp == "skip":
                tally(ctx, "eq-mapping-with-aliasing-keys (no verdict)")
                continue
            want = deq if exp is None else int(exp)
            if ans != [1, want ^ 1 if neg else want]:
                cls = "double-entry" if wf == 0 else None
                tally(ctx, "outcome:eq-fails/" + str(cls))
                ctx.fail("`%s` answers %r but equality of the %s is %r"
                         % (label, ans, "presented dictionaries" if exp is None else "collection with that mapping (keys read as accessors)", bool(want)),
                         dict(case, cls=cls, form=label, impl_answer=ans), classify)
                break


# ------------------------------------------------------------------------------------------------ driver
def witness_recs(ctx, witness_fails):
    """the recorded witnesses, run first; eq witnesses are decided here, sequences by `evaluate`"""
    recs = []
    for f in ctx.findings:
        w = f.get("witness") or {}
        try:
            with no_gc():
                if "eq" in w:
                    a, b = Document(w["eq"][0]).root, Document(w["eq"][1]).root
                    witness_fails[f["id"]] = (a.attributes == b.attributes) != (presented(a) == presented(b))
                elif "ops" in w:
                    recs.append(dict(run_seq(w["kind"], ops=w["ops"], mode="witness"), finding=f["id"]))
        except Exception as e:  # noqa: BLE001
            witness_fails[f["id"]] = e
    return recs


def run(ctx, args):
    ctx.regen(["GenWs.v", "GenAttr.v", "GenAttrKey.v"])
    ctx.build("Props/C11.vo")
    sys.stderr.write("c11: regen+build %.1f s\n" % (time.time() - ctx.t0))
    ctx.notes.append("AttrEnc.cks form: %s" % calibrate(ctx))
    witness_fails = {}

    def replay_open(f):
        r = witness_fails.get(f["id"], True)
        if isinstance(r, Exception):
            raise r
        return r
    recs = witness_recs(ctx, witness_fails)
    if args.replay:
        with open(args.replay) as f:
            case = json.load(f).get("case") or {}
        if "eq" in case:
            check_eq(ctx, [tuple(case["eq"])])
        elif "ops" in case:
            with no_gc():
                recs.append(run_seq(case["kind"], ops=case["ops"], mode=case.get("mode", "replay")))
        evaluate(ctx, recs, witness_fails)
        return ctx.finish("replay of " + args.replay, replay_open=replay_open)
    quick = ctx.tier == "quick"
    per, n_eq, batch = (150, 300, 2400) if quick else (2500, 5000, 2400)
    with no_gc():
        recs += [run_seq(kind, ops=ops) for kind, ops in fixed_cases()]
    plan = [(kind, mode) for mode in ("free", "guarded") for kind in KINDS + EXTRA_KINDS
            if mode == "free" or kind != "parsed-double"]
    todo = [(kind, mode) for kind, mode in plan for _ in range(per if kind in KINDS else max(per // 5, 1))]
    while todo or recs:
        with no_gc():
            for kind, mode in todo[:batch]:
                recs.append(run_seq(kind, gen=make_gen(ctx.rng, mode), mode=mode))
        todo = todo[batch:]
        t0 = time.time()
        evaluate(ctx, recs, witness_fails)
        sys.stderr.write("c11: %d sequences evaluated in Coq in %.1f s (%d to go)\n" % (len(recs), time.time() - t0, len(todo)))
        recs = []
    check_eq(ctx, REGRESSION_EQ + [(gen_eq_xml(ctx.rng), gen_eq_xml(ctx.rng)) for _ in range(n_eq // 3)]
             + [gen_eq_recipes(ctx.rng) for _ in range(n_eq - n_eq // 3)])
    return ctx.finish(
        rule="operation sequences of <= 30 steps (get/set/del/contains/pop/update/iter/len through the mapping, node "
             "subscripts incl. slice deletion, value/local_name/namespace through previously fetched Attribute objects) on "
             "7 kinds of nodes (created with/without namespace, parsed under a default / prefixed / other default "
             "namespace, created and moved under a default namespace, parsed with a prefix bound to the default namespace); "
             "accessors: local name, Clark notation incl. '{}name', (ns, name), ('', name), (None, name), rarely malformed; first the "
             "finding witnesses and hand-written sequences, then random sequences in mode 'free' (uniform) and 'guarded' "
             "(avoids the classes of the open findings so that whole runs stay inside the theorem's domain). evaluations = "
             "steps (each compared with the Gallina model and with the dictionary specification, both evaluated in Coq) "
             "+ comparisons of pairs of nodes: the same or a one-point-mutated attribute set reaching two nodes by "
             "different routes (parsed with unprefixed / prefixed attributes, created detached with / without node "
             "namespace, created and moved under <r xmlns=D>; equal and different default namespaces, so that equal "
             "dictionaries are stored under different lxml keys `k` / `{d}k`), asked as a == b, b == a, !=, against "
             "dict(presented items) and as_dict_with_strings() in both argument orders; verdict = equality of the "
             "presented dictionaries decided in Coq (dict_eqb), for plain mappings with their keys read as accessors. Non-trivial = a sequence that uses a held Attribute object after the "
             "mapping was mutated, or a pair of different documents that compare equal; distinct by (kind, ops) / by the "
             "two documents.",
        replay_open=replay_open)


if __name__ == "__main__":
    common.main(run, "C11")
