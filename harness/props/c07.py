"""C07 - whitespace reduction is the TEI normalisation, exactly and idempotently."""
import itertools
import json
import sys

import common
from common import cnode, enc_node
import impl
from impl import Document, ParserOptions, extract, build, to_xml, no_gc

XML_NS = impl.XML_NS
REQ = ("From Coq Require Import List NArith.\nFrom Delb.Base Require Import PyStr.\n"
       "From Delb.Tree Require Import ATree Encode.\nFrom Delb.Ws Require Import Reduce.\n")

LEADS = ["", " ", "\n  ", " "]
BODIES = ["", "a", "a  b", "a\tb c", "é"]
TRAILS = ["", " ", "\t\n", "  "]


def text_forms():
    out = []
    for l, b, t in itertools.product(LEADS, BODIES, TRAILS):
        s = l + b + t
        if s not in out:
            out.append(s)
    return out


TEXTS = text_forms()


def space_attr(v):
    return [(XML_NS, "space", v)]


def gen_tree(rng, depth, allow_empty_text):
    """random element with mixed content"""
    attrs = []
    r = rng.random()
    if r < 0.12:
        attrs = space_attr("preserve")
    elif r < 0.2:
        attrs = space_attr("default")
    elif r < 0.24:
        attrs = space_attr(rng.choice(["", "Preserve", "x"]))
    if rng.random() < 0.2:
        attrs = attrs + [("", "k", rng.choice(["v", " v  w "]))]
    kids = []
    for _ in range(rng.choice([0, 1, 1, 2, 2, 3, 3, 4, 5])):
        r = rng.random()
        if r < 0.5:
            s = rng.choice(TEXTS)
            if s or allow_empty_text:
                kids.append(("text", s))
        elif r < 0.8 and depth > 0:
            kids.append(gen_tree(rng, depth - 1, allow_empty_text))
        elif r < 0.9:
            kids.append(("comment", rng.choice([" c ", "c", ""])))
        else:
            kids.append(("pi", "t", rng.choice(["", "x  y "])))
    return ("tag", "", rng.choice(["r", "x", "y"]), attrs, kids)


def enum_trees():
    """exhaustive: root with <= 3 children out of {text forms (a subset), <x/>, <x> text </x>, comment}"""
    texts = [" ", "a", " a", "a ", " a ", " \n", "a  b", "  a\t"]
    kinds = [("text", t) for t in texts] + [("tag", "", "x", [], []), ("tag", "", "x", [], [("text", " i ")]),
                                           ("comment", " c ")]
    for n in range(0, 4):
        for combo in itertools.product(kinds, repeat=n):
            for attrs in ([], space_attr("preserve")) if n and n < 3 else ([],):
                yield ("tag", "", "r", list(attrs), list(combo))


def is_merged(t):
    if t[0] != "tag":
        return True
    prev = False
    for c in t[4]:
        if c[0] == "text":
            if prev:
                return False
            prev = True
        else:
            prev = False
    return all(is_merged(c) for c in t[4])


def has_empty_text(t):
    if t[0] == "text":
        return t[1] == ""
    return t[0] == "tag" and any(has_empty_text(c) for c in t[4])


def nows(s):
    return "".join(c for c in s if not c.isspace())


def skel(t):
    """all whitespace erased from text, adjacent texts concatenated, empty text dropped"""
    if t[0] == "tag":
        kids = []
        for c in t[4]:
            if c[0] == "text":
                if nows(c[1]):
                    if kids and kids[-1][0] == "text":
                        kids[-1] = ("text", kids[-1][1] + nows(c[1]))
                    else:
                        kids.append(("text", nows(c[1])))
            else:
                kids.append(skel(c))
        return ("tag", t[1], t[2], t[3], kids)
    if t[0] == "text":
        return ("text", nows(t[1]))
    return t


def classify(finding, case):
    if finding["cls"] == "adjacent-text-nodes":
        return case.get("route") == "api" and not is_merged(tuple_tree(case["t0"]))
    return False


def tuple_tree(t):
    if t[0] == "tag":
        return ("tag", t[1], t[2], [tuple(a) for a in t[3]], [tuple_tree(c) for c in t[4]])
    return tuple(t)


def run_impl(case):
    """returns dict with t0 (what the API shows before), t1 (after reduce), t2 (after reducing twice), tp (parsed with the option)"""
    route, t = case["route"], case["tree"]
    with no_gc():
        if route == "parse":
            xml = to_xml(t)
            doc = Document(xml)
            t0 = extract(doc.root)
            doc.reduce_whitespace()
            t1 = extract(doc.root)
            doc.reduce_whitespace()
            t2 = extract(doc.root)
            docp = Document(xml, parser_options=ParserOptions(reduce_whitespace=True))
            tp = extract(docp.root)
            tq = extract(impl.TagNode.parse(xml, parser_options=ParserOptions(reduce_whitespace=True)))
            return {"xml": xml, "t0": t0, "t1": t1, "t2": t2, "tp": tp, "tq": tq}
        if route == "edited":
            # a document loaded WITH the option, then edited through the API, then reduced by the method
            xml = to_xml(t)
            doc = Document(xml, parser_options=ParserOptions(reduce_whitespace=True))
            with impl.altered_default_filters():
                for kind, target_i, items in case["edits"]:
                    tags = [doc.root] + [n for n in doc.root.iterate_descendants(impl.is_tag_node)]
                    target = tags[target_i % len(tags)]
                    nodes = [i[1] if i[0] == "text" else build(i) for i in items]
                    if kind == "append":
                        target.append_children(*nodes)
                    else:
                        target.insert_children(0, *nodes)
            t0 = extract(doc.root)
            doc.reduce_whitespace()
            t1 = extract(doc.root)
            doc.reduce_whitespace()
            t2 = extract(doc.root)
            return {"xml": xml, "t0": t0, "t1": t1, "t2": t2, "tp": None}
        root = build(t)
        doc = Document(root)
        t0 = extract(doc.root)
        doc.reduce_whitespace()
        t1 = extract(doc.root)
        doc.reduce_whitespace()
        t2 = extract(doc.root)
        # loading an API-built node with the option (the node loader) must equal loading and reducing
        docp = Document(build(t), parser_options=ParserOptions(reduce_whitespace=True))
        tp = extract(docp.root)
        return {"t0": t0, "t1": t1, "t2": t2, "tp": tp}


def check_cases(ctx, cases):
    results = []
    for c in cases:
        try:
            r = run_impl(c)
        except Exception as e:  # noqa: BLE001
            ctx.fail("reduce_whitespace raised %s: %s" % (type(e).__name__, e), dict(c, t0=c["tree"]), classify)
            results.append(None)
            continue
        results.append(r)
    terms = []
    for r in results:
        if r is None:
            continue
        n = cnode(r["t0"])
        terms.append("enc_node (reduce_model %s)" % n)
        terms.append("enc_node (reduce_spec %s)" % n)
    vals = ctx.coq_eval("c07", REQ, terms, chunk=300)
    i = 0
    for c, r in zip(cases, results):
        if r is None:
            continue
        model, spec = vals[i], vals[i + 1]
        i += 2
        ctx.count(1, c["route"] + ("/merged" if is_merged(r["t0"]) else "/adjacent"))
        case = {"route": c["route"], "tree": c["tree"], "t0": r["t0"], "xml": r.get("xml")}
        if "edits" in c:
            case["edits"] = c["edits"]
        if r["t1"] != r["t0"]:
            ctx.nontrivial_case(r["t0"])
        ctx.sample({"route": c["route"], "before": r["t0"], "after": r["t1"]})
        e1 = enc_node(r["t1"])
        if model is None or spec is None:
            ctx.mismatch("reduce_model evaluation", "coqc failed on the case file")
            continue
        if model != e1:
            ctx.mismatch("reduce_model vs Document.reduce_whitespace",
                         {"case": case, "impl": r["t1"], "model": common.dec_node(model)[0]})
        # the property itself, on the implementation
        if spec != e1:
            ctx.fail("result differs from the stated rules (collapse, trim at first/last, one space kept)",
                     dict(case, impl=r["t1"], spec=common.dec_node(spec)[0]), classify)
        if r["t2"] != r["t1"]:
            ctx.fail("reducing twice differs from reducing once", dict(case, once=r["t1"], twice=r["t2"]), classify)
        if skel(r["t1"]) != skel(r["t0"]):
            ctx.fail("something other than whitespace changed", dict(case, impl=r["t1"]), classify)
        if r["tp"] is not None and r["tp"] != r["t1"]:
            ctx.fail("loading with reduce_whitespace=True differs from loading and reducing afterwards",
                     dict(case, loaded_with_option=r["tp"], reduced_after=r["t1"]), classify)
        if r.get("tq") is not None and r["tq"] != r["t1"]:
            ctx.fail("TagNode.parse with reduce_whitespace=True differs from parsing and reducing afterwards",
                     dict(case, parsed_with_option=r["tq"], reduced_after=r["t1"]), classify)


def shrink_failures(ctx):
    """replace the recorded failures by one shrunk representative per kind of failure"""
    if not ctx.failing:
        return
    by_what = {}
    for f in ctx.failing:
        by_what.setdefault(f["what"], f)
    shrunk = []
    for what, f in by_what.items():
        base = {"route": f["case"]["route"], "tree": tuple_tree(f["case"]["tree"])}
        if "edits" in f["case"]:
            base["edits"] = f["case"]["edits"]

        def reductions(c):
            for t in common.tree_reductions(c["tree"]):
                yield dict(c, tree=t)
            for i in range(len(c.get("edits", []))):
                if len(c["edits"]) > 1:
                    yield dict(c, edits=c["edits"][:i] + c["edits"][i + 1:])

        def failing_whats(cands):
            sub = common.Ctx(ctx.prop, ctx.tier, ctx.seed)
            sub.findings = ctx.findings
            out = []
            for c in cands:
                sub.failing = []
                check_cases(sub, [c])
                out.append({x["what"] for x in sub.failing})
            return out
        small = common.shrink(base, what, reductions, failing_whats, rounds=8, width=25)
        sub = common.Ctx(ctx.prop, ctx.tier, ctx.seed)
        sub.findings = ctx.findings
        check_cases(sub, [small])
        hit = [x for x in sub.failing if x["what"] == what]
        shrunk.append(hit[0] if hit else f)
    n = len(ctx.failing)
    ctx.failing = shrunk
    ctx.notes.append("%d failing cases before shrinking; one shrunk representative kept per kind of failure" % n)


def replay_open(f):
    w = f["witness"]
    r = run_impl({"route": w["route"], "tree": tuple_tree(w["tree"])})
    return r["t2"] != r["t1"]


def run(ctx, args):
    ctx.regen(["GenWs.v", "GenNames.v", "GenReduce.v"])
    ctx.build("Props/C07.vo")
    if args.replay:
        with open(args.replay) as f:
            rep = json.load(f)
        case = rep.get("case")
        if case:
            rc = {"route": case["route"], "tree": tuple_tree(case["tree"])}
            if "edits" in case:
                rc["edits"] = [(k, i, [tuple_tree(x) if x[0] == "tag" else tuple(x) for x in items]) for k, i, items in case["edits"]]
            check_cases(ctx, [rc])
        return ctx.finish("replay of " + args.replay, replay_open=replay_open)
    cases = []
    # corpus first
    quick = ctx.tier == "quick"
    # exhaustive small enumeration (every arrangement of up to 3 children out of 11 kinds), parse and API routes
    enum = list(enum_trees())
    if quick:
        enum = [t for i, t in enumerate(enum) if len(t[4]) <= 2 or i % 7 == ctx.seed % 7]
    for t in enum:
        cases.append({"route": "parse", "tree": t})
        if not is_merged(t):
            cases.append({"route": "api", "tree": t})
    n_random = 600 if quick else 12000
    for i in range(n_random):
        api = ctx.rng.random() < 0.35
        t = gen_tree(ctx.rng, 3, allow_empty_text=api)
        cases.append({"route": "api" if api else "parse", "tree": t})
    # histories: load with the option, edit through the API, reduce with the method
    for i in range(150 if quick else 3000):
        t = gen_tree(ctx.rng, 2, allow_empty_text=False)
        edits = []
        for _ in range(ctx.rng.choice([1, 1, 2, 3])):
            items = []
            for _ in range(ctx.rng.choice([1, 1, 2, 3])):
                r = ctx.rng.random()
                if r < 0.7:
                    items.append(("text", ctx.rng.choice([x for x in TEXTS if x])))
                elif r < 0.85:
                    items.append(("comment", " c "))
                else:
                    items.append(("tag", "", "n", [], [("text", ctx.rng.choice([x for x in TEXTS if x]))]))
            edits.append((ctx.rng.choice(["append", "prepend"]), ctx.rng.randrange(8), items))
        cases.append({"route": "edited", "tree": t, "edits": edits})
    check_cases(ctx, cases)
    shrink_failures(ctx)
    return ctx.finish(
        rule="documents: exhaustive arrangements of <=3 children out of 8 whitespace text forms, empty/non-empty element, "
             "comment (with/without xml:space=preserve on the root) + random mixed-content trees of depth <=3 with "
             "nested xml:space directives incl. invalid values; parsed from XML text (merged) and built through the API "
             "(adjacent and empty text nodes), and histories (loaded with the option, edited through the API, reduced by the method). Non-trivial = reduction changed the tree; distinct by the tree before reduction.",
        replay_open=replay_open)


if __name__ == "__main__":
    common.main(run, "C07")
