"""C01 - tree edits behave like edits on a plain ordered tree."""
import json
import sys

import common
import impl
import treeops as T
from treeops import Real, F_ALL, F_DEFAULT, F_TAG
from impl import Document, TagNode, TextNode, no_gc, new_tag_node, new_comment_node, new_processing_instruction_node

TEXTS = ["a", "bb", " ", "c d"]
NEW_TEXTS = ["T", "uu", "w w", " x  y "]


def arrangement(rng, depth, pfx=False):
    """up to 3 text pieces around up to 3 element/comment/PI children; with pfx (the root declares xmlns:p next to a
    default namespace) also prefixed elements that carry un-prefixed attributes and default-namespace descendants"""
    out, prev_text, n_el, n_tx = [], False, 0, 0
    for _ in range(rng.choice([0, 1, 2, 3, 4, 5, 6])):
        if rng.random() < 0.45 and not prev_text and n_tx < 3:
            out.append(rng.choice(TEXTS))
            prev_text, n_tx = True, n_tx + 1
        elif n_el < 3:
            r = rng.random()
            if pfx and r < 0.3:
                out.append(rng.choice(['<p:b k="v"/>', '<p:b k="v"><i k="w"/>t</p:b>', '<p:b><i k="w">t</i><!--c-->u</p:b>',
                                       '<p:b p:k="v"><p:c/><i/></p:b>', '<p:b k="v" p:k="w"/>', '<p:b k="v"><p:c k="1" p:k="2"/></p:b>']))
            elif r < 0.3:
                out.append(rng.choice(["<x/>", '<x k="v"/>', '<z p:k="w" xmlns:p="u"/>']))
            elif r < 0.6 and depth > 0:
                out.append("<y>%s</y>" % arrangement(rng, depth - 1, pfx))
            elif r < 0.8:
                out.append("<!--c%d-->" % n_el)
            else:
                out.append("<?p q%d?>" % n_el)
            prev_text, n_el = False, n_el + 1
    return "".join(out)


def root_siblings(rng, tagc):
    """0-3 comments / PIs before or after the root, distinguishable from each other"""
    n = rng.choice([0, 0, 0, 0, 0, 1, 2, 3])
    return "".join(rng.choice(["<!--%s%d-->" % (tagc, i), "<?%s%d v?>" % (tagc, i)]) for i in range(n))


def gen_doc(rng):
    root = rng.choice(["<r>", "<r>", '<r xmlns="d">', '<r xmlns="d" k="v">', '<r xmlns="d" xmlns:p="u">',
                       '<r xmlns="d" xmlns:p="u" k="v">', '<r xmlns:p="u">', '<p:r xmlns:p="u" k="v" p:k="w">'])
    body = arrangement(rng, 1, pfx="xmlns:p" in root)
    return root_siblings(rng, "pro") + root + body + ("</p:r>" if root.startswith("<p:r") else "</r>") + root_siblings(rng, "epi")


def gen_pool(rng):
    out = []
    for _ in range(rng.choice([0, 1, 2, 3, 4])):
        r = rng.random()
        if r < 0.2:
            out.append(new_tag_node("n"))
        elif r < 0.35:
            out.append(new_tag_node("m", {"k": "v"}))
        elif r < 0.45:
            out.append(new_tag_node("q", {"k": "v"}, namespace="d"))
        elif r < 0.6:
            out.append(new_comment_node("cc"))
        elif r < 0.7:
            out.append(new_processing_instruction_node("tt", "pp"))
        elif r < 0.85:
            out.append(TextNode(rng.choice(NEW_TEXTS)))
        else:
            out.append(new_tag_node("s", children=["u", impl.tag("i"), "w"]))
    return out


def live_nodes(w):
    """id -> (kind, attached?, parent id, dns in scope of the parent) from a concrete dump"""
    out = {}

    def chain(ch, parent, dns):
        if ch[1] is not None:
            out[ch[0]] = ("text", True, parent, dns)
            for i, _ in ch[2]:
                out[i] = ("text", True, parent, dns)

    def el(e, attached, parent, pdns):
        i, k, dns, data, kids = e
        out[i] = (k[0], attached, parent, pdns)
        chain(data, i, dns)
        for c, t in kids:
            el(c, True, i, dns)
            chain(t, i, dns)
    for pro, root, epi in w["docs"]:
        for s in pro + epi:
            el(s, "docsib", None, "")
        el(root, "docroot", None, "")
    for l in w["loose"]:
        if l[0] == "el":
            el(l[1], False, None, "")
        else:
            out[l[1]] = ("text", False, None, "")
    return out


def find_el(w, x):
    def go(e):
        if e[0] == x:
            return e
        for c, _ in e[4]:
            r = go(c)
            if r:
                return r
    for pro, root, epi in w["docs"]:
        r = go(root)
        if r:
            return r
    for l in w["loose"]:
        if l[0] == "el":
            r = go(l[1])
            if r:
                return r


def sensitive(e):
    """a tag with an un-prefixed attribute that no declaration inside the offered tree shields"""
    i, k, dns, data, kids = e
    if k[0] == "tag" and dns == "" and any(a[0] == "" for a in k[3]):
        return True
    return any(sensitive(c) for c, _ in kids)


def vis_kids(real, obj, F):
    with T.filt_ctx(F):
        return list(obj.iterate_children())


def gen_source(real, rng, live, allow_illegal, forbid):
    r = rng.random()
    if r < 0.4:
        return ("str", real.reserve(1)[0], rng.choice(NEW_TEXTS))
    if r < 0.5:
        return ("tag", real.reserve(1)[0], rng.choice(["td", "te"]))
    loose = [i for i, v in live.items() if v[1] is False and i not in forbid]
    if allow_illegal and rng.random() < 0.25:
        att = [i for i, v in live.items() if v[1] is True and i not in forbid]
        if att:
            return ("node", rng.choice(att))
    if loose:
        return ("node", rng.choice(loose))
    return ("str", real.reserve(1)[0], rng.choice(NEW_TEXTS))


def texts_after_hidden(w):
    """text nodes whose preceding sibling is a comment, a PI or another text node (candidates for the filtered
    add_preceding_siblings case)"""
    out = []

    def el(e):
        i, k, dns, data, kids = e
        out.extend(t for t, _ in data[2])
        for c, tail in kids:
            if tail[1] is not None and c[1][0] in ("comment", "pi"):
                out.append(tail[0])
            out.extend(t for t, _ in tail[2])
            el(c)
    for pro, root, epi in w["docs"]:
        el(root)
    for l in w["loose"]:
        if l[0] == "el":
            el(l[1])
    return out


def retain_candidates(w):
    """(tag node with children, filter hiding its preceding sibling): candidates for detach(retain_child_nodes=True)
    under ambient filters -- the place of the retained children must not depend on the caller's filters"""
    out = []

    def el(e):
        i, k, dns, data, kids = e
        prev = "text" if data[1] is not None else None
        for c, tail in kids:
            if c[1][0] == "tag" and (c[3][1] is not None or c[4]):
                if prev in ("comment", "pi"):
                    out.append((c[0], F_DEFAULT))
                    out.append((c[0], F_TAG))
                elif prev == "text":
                    out.append((c[0], F_TAG))
            prev = "text" if tail[1] is not None else c[1][0]
            el(c)
    for pro, root, epi in w["docs"]:
        el(root)
    for l in w["loose"]:
        if l[0] == "el":
            el(l[1])
    return out


def gen_targeted(real, rng, w):
    """add_preceding_siblings(element-like) on such a text node under filters that hide its neighbour; or
    detach(retain_child_nodes=True) on a node with children whose preceding sibling the filters hide"""
    rc = retain_candidates(w)
    if rc and rng.random() < 0.5:
        x, F = rng.choice(rc)
        return F, ("detach", x, True)
    cands = texts_after_hidden(w)
    if not cands:
        return None
    live = live_nodes(w)
    x = rng.choice(cands)
    loose = [i for i, v in live.items() if v[1] is False and v[0] != "text"]
    if loose and rng.random() < 0.5:
        src = ("node", rng.choice(loose))
    else:
        src = ("tag", real.reserve(1)[0], "tp")
    F = rng.choice([F_DEFAULT, F_DEFAULT, F_TAG, (True, False, True, True)])
    return F, ("precede", x, (src,))


def gen_op(real, rng, w, F):
    live = live_nodes(w)
    ids = sorted(live)
    tags = [i for i in ids if live[i][0] == "tag"]
    attached = [i for i in ids if live[i][1] is True]
    kind = rng.choice(["follow", "follow", "precede", "precede", "append", "append", "prepend", "insert", "insert",
                       "detach", "detach", "detach_retain", "replace", "setitem", "delitem", "content", "merge"])

    def sources(x, single=False):
        n = 1 if single else rng.choice([1, 1, 2, 3])
        out, used = [], {x}
        for _ in range(n):
            s = gen_source(real, rng, live, allow_illegal=(n == 1), forbid=used)
            if s[0] == "node":
                used.add(s[1])
            out.append(s)
        return out
    if kind in ("follow", "precede"):
        pool = attached if attached and rng.random() < 0.9 else ids
        x = rng.choice(pool)
        return (kind, x, sources(x))
    if kind in ("append", "prepend"):
        p = rng.choice(tags)
        return (kind, p, sources(p))
    if kind == "insert":
        p = rng.choice(tags)
        n = len(vis_kids(real, real.objs[p], F))
        i = rng.choice(list(range(0, n + 1)) * 3 + [n + 1, -1])
        return (kind, p, i, sources(p))
    if kind == "detach":
        return ("detach", rng.choice(ids), False)
    if kind == "detach_retain":
        return ("detach", rng.choice(tags if rng.random() < 0.9 else ids), True)
    if kind == "replace":
        x = rng.choice(attached if attached and rng.random() < 0.9 else ids)
        return ("replace", x, sources(x, single=True)[0])
    if kind == "setitem":
        p = rng.choice(tags)
        n = len(vis_kids(real, real.objs[p], F))
        i = rng.choice(list(range(0, max(n, 1))) * 3 + [n, -1])
        return ("setitem", p, i, sources(p, single=True)[0])
    if kind == "delitem":
        p = rng.choice(tags)
        n = len(vis_kids(real, real.objs[p], F))
        return ("delitem", p, rng.choice(list(range(-n, n)) * 3 + [n, -n - 1]))
    if kind == "content":
        texts = [i for i in ids if live[i][0] == "text"]
        if not texts:
            return None
        return ("content", rng.choice(texts), rng.choice(["X", "Q q"]))
    return ("merge", rng.choice(tags))


def op_sources(o):
    k = o[0]
    if k in ("follow", "precede", "append", "prepend"):
        return o[2]
    if k == "insert":
        return o[3]
    if k == "replace":
        return [o[2]]
    if k == "setitem":
        return [o[3]]
    return []


def default_ns_meets_prefix(real, o, live):
    """finding C01-13f: an offered subtree carries a default-namespace declaration for a namespace that is bound to a
    *prefix* where it lands: lxml strips the declaration as redundant, the in-scope default namespace of the subtree
    changes and with it the presented namespace of its un-prefixed attributes (decided on the real lxml objects)"""
    tgt = real.objs.get(o[1])
    if tgt is None:
        return False
    if o[0] in ("append", "prepend", "insert", "setitem"):
        ctx = tgt._etree_obj if isinstance(tgt, TagNode) else None
    else:
        par = tgt.parent
        ctx = par._etree_obj if par is not None else None
    if ctx is None:
        return False
    bound = {v for k, v in ctx.nsmap.items() if k is not None}
    for s in op_sources(o):
        if s[0] == "node" and isinstance(real.objs.get(s[1]), TagNode):
            for e in real.objs[s[1]]._etree_obj.iter():
                if isinstance(e.tag, str) and e.nsmap.get(None) in bound:
                    return True
    return False


def skip_op(real, o, w, F):
    """operations outside the modelled domain (named in the evidence rule)"""
    live = live_nodes(w)
    tgt = live.get(o[1])
    if default_ns_meets_prefix(real, o, live):
        return "default-namespace declaration of the offered subtree meets a prefix binding of the same namespace (finding C01-13f)"
    for s in op_sources(o):
        if s[0] == "node":
            sk = live[s[1]]
            if o[0] in ("follow", "precede", "replace") and tgt[2] is None and sk[0] in ("comment", "pi") \
                    and sk[1] is False and (tgt[0] in ("comment", "pi") or tgt[1] == "docroot"):
                return "comment/PI as sibling of a root"
    return None


def classes_of(real, o, w, F):
    """the known-finding classes this operation falls into, decided on the state before the call"""
    live = live_nodes(w)
    out = set()
    k = o[0]
    tgt = live.get(o[1])
    child_op = k in ("append", "prepend", "insert", "setitem")
    tdns = None
    if tgt is not None:
        if child_op:
            e = find_el(w, o[1])
            tdns = e[2] if e else ""
        else:
            tdns = tgt[3]
    for s in op_sources(o):
        if s[0] == "node" and live[s[1]][0] == "tag" and live[s[1]][1] is False:
            e = find_el(w, s[1])
            if e and sensitive(e) and tdns:
                out.add("unprefixed-attribute-crosses-default-namespace")
            if e and tdns and has_attr_in(e, tdns):
                out.add("namespaced-attribute-meets-equal-default-namespace")
    if k == "detach" or k == "delitem" or k == "replace":
        pass
    if k == "setitem" and tgt is not None and tgt[0] == "tag" and o[2] == 0 and o[3][0] != "node" \
            and not vis_kids(real, real.objs[o[1]], F):
        out.add("item-assignment-on-childless-node")
    return sorted(out)


def has_attr_in(e, ns):
    i, k, dns, data, kids = e
    if k[0] == "tag" and any(a[0] == ns for a in k[3]):
        return True
    return any(has_attr_in(c, ns) for c, _ in kids)


def classify(finding, case):
    return finding["cls"] in case.get("classes", [])


def world_has_13b(w):
    def go(e):
        i, k, dns, data, kids = e
        if k[0] == "tag" and dns and any(a[0] == dns for a in k[3]):
            return True
        return any(go(c) for c, _ in kids)
    return any(go(r) for _, r, _ in w["docs"]) or any(go(l[1]) for l in w["loose"] if l[0] == "el")



# ------------------------------------------------------------------------------------------------ independent oracle
class ONode:
    __slots__ = ("i", "p", "kids", "parent")

    def __init__(self, i, p):
        self.i, self.p, self.kids, self.parent = i, p, [], None


def oracle_step(view, o):
    """The edit `o` (ambient filter ()) as naive list surgery on the plain tree `view`, written without looking at
    the code or at Tree/AOps.v: positions as the documentation states them.  Returns the expected view."""
    nodes = {}

    def load(t, parent):
        n = ONode(t[0], t[1])
        n.parent = parent
        nodes[n.i] = n
        n.kids = [load(k, n) for k in t[2]]
        return n
    docs = [([load(x, None) for x in pro], load(r, None), [load(x, None) for x in epi]) for pro, r, epi in view["docs"]]
    loose = [load(t, None) for t in view["loose"]]

    def take(n):
        if n.parent is not None:
            n.parent.kids.remove(n)
            n.parent = None
        elif n in loose:
            loose.remove(n)

    def put(parent, idx, n):
        take(n)
        parent.kids.insert(idx, n)
        n.parent = parent

    def realize(src, ctx):
        if src[0] == "node":
            return nodes[src[1]]
        if src[0] == "str":
            n = ONode(src[1], ("text", src[2]))
        else:
            c = ctx if ctx.p[0] == "tag" else ctx.parent
            n = ONode(src[1], ("tag", c.p[1], src[2], []))
        nodes[n.i] = n
        return n
    k = o[0]
    t = nodes[o[1]]
    if k == "follow":
        par, ctx = t.parent, t
        for s in o[2]:
            n = realize(s, ctx)
            put(par, par.kids.index(ctx) + 1, n)
            ctx = n
    elif k == "precede":
        par, ctx = t.parent, t
        for s in o[2]:
            n = realize(s, ctx)
            put(par, par.kids.index(ctx), n)
            ctx = n
    elif k in ("append", "prepend", "insert"):
        srcs = o[3] if k == "insert" else o[2]
        idx = len(t.kids) if k == "append" else 0 if k == "prepend" else o[2]
        ctx = t if (not t.kids or k == "append" and not t.kids) else None
        for j, s in enumerate(srcs):
            if j == 0:
                if not t.kids:
                    c = t
                elif idx == 0:
                    c = t.kids[0]
                else:
                    c = t.kids[idx - 1]
            else:
                c = prev
            n = realize(s, c)
            put(t, idx + j, n)
            prev = n
    elif k == "detach":
        if t.parent is not None:
            par = t.parent
            idx = par.kids.index(t)
            take(t)
            loose.append(t)
            if o[2] and t.p[0] == "tag":
                for j, c in enumerate(list(t.kids)):
                    put(par, idx + j, c)
    elif k == "replace":
        par = t.parent
        n = realize(o[2], t)
        put(par, par.kids.index(t) + 1, n)
        take(t)
        loose.append(t)
    elif k == "setitem":
        if not t.kids and o[2] == 0:
            n = realize(o[3], t)
            put(t, 0, n)
        else:
            old = t.kids[o[2]]
            n = realize(o[3], old)
            put(t, t.kids.index(old) + 1, n)
            take(old)
            loose.append(old)
    elif k == "delitem":
        c = t.kids[o[2]]
        take(c)
        loose.append(c)
    elif k == "content":
        t.p = ("text", o[2])
    elif k == "merge":
        def merge(n):
            out = []
            for c in n.kids:
                if c.p[0] == "text" and out and out[-1].p[0] == "text":
                    out[-1].p = ("text", out[-1].p[1] + c.p[1])
                else:
                    out.append(c)
                    merge(c)
            n.kids = out
        merge(t)
    for n in nodes.values():
        if n.parent is None and n not in loose and not any(n is r or n in pro or n in epi for pro, r, epi in docs):
            loose.append(n)

    def dump(n):
        return (n.i, n.p, [dump(c) for c in n.kids])
    return T.norm_aworld({"docs": [([dump(x) for x in pro], dump(r), [dump(x) for x in epi]) for pro, r, epi in docs],
                          "loose": [dump(n) for n in loose]})


def run_history(ctx, rng, n_ops, hist_no, fixed=None):
    """runs one history on the implementation; returns the record for the Coq evaluation"""
    real = Real()
    if fixed:
        docs_xml, filt_seq, ops_fixed = fixed["docs"], None, fixed["ops"]
    else:
        docs_xml = [gen_doc(rng) for _ in range(rng.choice([1, 1, 2]))]
        ops_fixed = None
    for x in docs_xml:
        real.docs.append(Document(x))
    pool = fixed.get("pool", []) if fixed else None
    if fixed:
        keep = [impl.build(common_tuple(t)) for t in pool]
    else:
        keep = gen_pool(rng)
    real.dump_world()
    for o in keep:
        real.nid(o)
        if isinstance(o, TagNode):
            real.dump_el(o)
    w0 = real.dump_world()
    rec = {"docs": docs_xml, "w0": w0, "steps": [], "hist": hist_no,
           "pool": pool if fixed else [impl.extract(o) for o in keep]}
    w = w0
    mode = rng.random()
    for step in range(n_ops):
        if ops_fixed is not None:
            if step >= len(ops_fixed):
                break
            F, o = tuple(ops_fixed[step][0]), totuple(ops_fixed[step][1])
        else:
            F = F_ALL if mode < 0.7 or rng.random() < 0.5 else rng.choice([F_DEFAULT, F_DEFAULT, F_TAG])
            o = gen_op(real, rng, w, F)
            if rng.random() < 0.15:
                tg = gen_targeted(real, rng, w)
                if tg:
                    F, o = tg
            if o is None:
                continue
            why = skip_op(real, o, w, F)
            if why:
                ctx.skipped[why] = ctx.skipped.get(why, 0) + 1
                continue
        classes = classes_of(real, o, w, F)
        view_err = None
        try:
            v0 = real.view_world() if all(F) else None
        except KeyError:
            v0 = None
        exc = real.run(F, o)
        w1 = real.dump_world()
        try:
            v1 = real.view_world()
        except KeyError as e:
            v1, view_err = None, "KeyError %s" % e
        partial = exc is not None and len(op_sources(o)) > 1    # objects made before the refusal cannot be numbered
        rec["steps"].append({"F": F, "op": o, "exc": exc, "w": w1, "view": v1, "view_err": view_err,
                             "classes": classes, "w_before_13b": world_has_13b(w), "partial": partial, "view0": v0})
        w = w1
        if exc in ("AssertionError", "AttributeError") or view_err or partial:
            break
    return rec


def totuple(x):
    if isinstance(x, list):
        return tuple(totuple(y) for y in x)
    return x


def common_tuple(t):
    return totuple(t)


def compare(ctx, rec, val):
    if val is None:
        ctx.mismatch("cstep evaluation", "coqc failed on a case file")
        return
    cs, as_, wf = T.decode_both(val)
    if not wf:
        ctx.mismatch("initial world is not well-formed in the model (cwf_b = false)", {"docs": rec["docs"]})
        return
    for st, (cr, tr, cw), (ar, aw) in zip(rec["steps"], cs, as_):
        o, F = st["op"], st["F"]
        case = {"docs": rec["docs"], "pool": rec["pool"], "initial_world": rec["w0"], "ops": [[s["F"], s["op"]] for s in rec["steps"]],
                "failing_step": rec["steps"].index(st), "classes": st["classes"]}
        ctx.count(1, o[0] + ("" if all(F) else "/filtered"))
        for t in tr:
            ctx.branches[t] = ctx.branches.get(t, 0) + 1
        if tr:
            ctx.nontrivial_case((o[0], tuple(tr), st["exc"]))
        ctx.sample({"filter": F, "op": o, "exception": st["exc"], "branches": [list(t) for t in tr]})
        # ---- correspondence: cstep vs the real objects
        mexc = None if cr[0] == "ok" else cr[1]
        rexc = None if st["exc"] is None else T.EXN[st["exc"]]
        if mexc == T.EXN["Unmodelled"]:
            ctx.mismatch("generator produced an operation the model declares unmodelled", {"case": case})
            return
        if mexc != rexc:
            ctx.mismatch("cstep result vs implementation", {"case": case, "impl": st["exc"], "model": cr})
            return
        if cr[0] == "crash" or st.get("partial"):
            return
        tie_broken = False
        if T.norm_cworld(cw) != st["w"]:
            ctx.mismatch("cstep state vs implementation (lxml slots, chains, identities)",
                         {"case": case, "impl": st["w"], "model": T.norm_cworld(cw)})
            tie_broken = True          # still ask whether the property itself fails here (spec as oracle)
        # ---- the property: the client's view vs astep on the plain tree
        if st["view_err"]:
            ctx.fail("reading the attributes raises " + st["view_err"],
                     dict(case, classes=case["classes"] + (["namespaced-attribute-meets-equal-default-namespace"]
                                                           if True else [])), classify)
            return
        if ar != cr:
            ctx.fail("result differs from the plain-tree edit", dict(case, impl=st["exc"], spec=ar), classify)
            return
        if T.norm_aworld(aw) != st["view"]:
            ctx.fail("tree after the call differs from the same edit on a plain ordered tree",
                     dict(case, impl=st["view"], spec=T.norm_aworld(aw)), classify)
            return
        if tie_broken:
            return
        # ---- the same edit by an oracle that shares nothing with the scripts of Tree/AOps.v (ambient filter () only)
        if st.get("view0") is not None:
            ctx.count(1, "independent-oracle")
            try:
                want = st["view0"] if st["exc"] else oracle_step(st["view0"], o)
            except Exception as e:  # noqa: BLE001  the naive edit is not defined (bad index ...): nothing to compare
                want = None
            if want is not None and want != st["view"]:
                ctx.fail("tree after the call differs from the naive plain-tree edit (independent oracle)",
                         dict(case, impl=st["view"], oracle=want), classify)
                return


def gc_chain_cases(ctx):
    """a later member of a chain of text nodes that is the only node object the program still holds survives a garbage
    collection as a member of the tree: an edit through it lands where the plain tree puts it and no text is lost
    (the collector may merge *unreferenced* adjacent text nodes; the Coq model has no collector -- this is checked on
    the implementation only; the general statement is C04's)"""
    import gc
    for slot in ("tail", "data"):
        for held_index in (1, 2):
            for edit in ("follow", "content", "detach", "precede"):
                d = Document("<r><x/>a<y/></r>" if slot == "tail" else "<r>a<x/></r>")
                r = d.root
                with impl.altered_default_filters():
                    a = r[1] if slot == "tail" else r[0]
                    chain = [a] + list(a.add_following_siblings("b", "c"))
                    held = chain[held_index]
                del a, chain
                gc.collect()
                ctx.count(1, "held-chain-member-after-collection")
                ctx.nontrivial_case(("gc-chain", slot, held_index, edit))
                case = {"scenario": "hold only member %d of a %s text chain a,b,c; gc.collect(); %s through it" % (held_index, slot, edit), "classes": []}
                try:
                    with impl.altered_default_filters():
                        if edit == "follow":
                            held.add_following_siblings("d")
                            want = "abdc" if held_index == 1 else "abcd"
                        elif edit == "precede":
                            held.add_preceding_siblings("d")
                            want = "adbc" if held_index == 1 else "abdc"
                        elif edit == "content":
                            held.content = "Z"
                            want = "aZc" if held_index == 1 else "abZ"
                        else:
                            held.detach()
                            want = "ac" if held_index == 1 else "ab"
                        texts = "".join(n.content for n in r.iterate_children() if isinstance(n, TextNode))
                        attached = any(n is held for n in r.iterate_children())
                except Exception as e:  # noqa: BLE001
                    ctx.fail("an edit through a held chain member raises %s after a collection" % type(e).__name__, case, classify)
                    continue
                if texts != want or str(r).count(want) != 1:
                    ctx.fail("text lost or misplaced by an edit through a held chain member after a collection",
                             dict(case, text=texts, expected=want, serialisation=str(r)), classify)
                elif attached == (edit == "detach"):
                    ctx.fail("the held chain member is not where the edit leaves it", case, classify)


def clone_arg_cases(ctx):
    """clone=True inserts a *copy* of a concrete node, also when that node is detached at the moment: the offered
    object stays what it was (parentless, reusable), later changes of it do not show in the tree, and it can still be
    added elsewhere.  (The Coq scripts have no clone argument: checked on the implementation only.)"""
    def offered(kind):
        if kind == "tag":
            return new_tag_node("t", {"k": "v"}, children=["x", impl.tag("i")])
        if kind == "text":
            return TextNode("T")
        if kind == "comment":
            return new_comment_node("cc")
        return new_processing_instruction_node("tt", "pp")
    calls = {
        "append_children": lambda r, n: r.append_children(n, clone=True),
        "prepend_children": lambda r, n: r.prepend_children(n, clone=True),
        "insert_children": lambda r, n: r.insert_children(1, n, clone=True),
        "add_following_siblings": lambda r, n: r[0].add_following_siblings(n, clone=True),
        "add_preceding_siblings": lambda r, n: r[0].add_preceding_siblings(n, clone=True),
        "replace_with": lambda r, n: (r[0].replace_with(n, clone=True), None)[1],
    }
    for kind in ("tag", "text", "comment", "pi"):
        for name, call in calls.items():
            ctx.count(1, "clone-argument")
            ctx.nontrivial_case(("clone-argument", kind, name))
            case = {"scenario": "%s(<detached %s>, clone=True), then the offered node is changed and added elsewhere" % (name, kind), "classes": []}
            with impl.altered_default_filters():
                r = Document("<r><a/>b</r>").root
                n = offered(kind)
                try:
                    res = call(r, n)
                except Exception as e:  # noqa: BLE001
                    ctx.fail("clone=True with a detached node raises %s" % type(e).__name__, case, classify)
                    continue
                inside = any(x is n for x in r.iterate_descendants())
                if inside or n.parent is not None or (res is not None and any(x is n for x in res)):
                    ctx.fail("clone=True inserted the offered node itself instead of a copy", case, classify)
                    continue
                snapshot = str(r)
                if kind == "tag":
                    n.append_children("later")
                    n.attributes["k"] = "changed"
                elif kind == "pi":
                    n.content = "later"
                else:
                    n.content = "later"
                if str(r) != snapshot:
                    ctx.fail("a change of the offered node shows in the tree it was copied into", dict(case, before=snapshot, after=str(r)), classify)
                    continue
                other = Document("<o/>").root
                try:
                    other.append_children(n)
                except Exception as e:  # noqa: BLE001
                    ctx.fail("the offered node cannot be added elsewhere after clone=True (%s)" % type(e).__name__, case, classify)
                    continue
                if not any(x is n for x in other.iterate_children()) or str(r) != snapshot:
                    ctx.fail("adding the offered node elsewhere afterwards went wrong", case, classify)


def check_histories(ctx, recs):
    if not recs:
        return
    terms = [T.ghist(r["w0"], [(s["F"], s["op"]) for s in r["steps"]]) for r in recs]
    vals = ctx.coq_eval("c01", T.REQ, terms, chunk=max(4, len(terms) // 16 + 1))
    for r, v in zip(recs, vals):
        compare(ctx, r, v)


FINDING_RUNS = {
    "C01-13a": {"docs": ['<r xmlns="d"/>'], "pool": [("tag", "", "b", [("", "k", "v")], [])],
                "ops": [[F_ALL, ("append", 0, (("node", 1),))]]},
    "C01-29": {"docs": ["<r>text</r>"], "pool": [], "ops": [[F_TAG, ("append", 0, (("str", 2, "x"),))]]},
}


def replay_open(f):
    wit = f["witness"]
    with no_gc():
        if wit.get("python"):
            env = {"impl": impl, "Document": Document, "TextNode": TextNode, "tag": impl.tag,
                   "altered_default_filters": impl.altered_default_filters, "is_tag_node": impl.is_tag_node,
                   "new_tag_node": new_tag_node}
            try:
                exec(wit["python"], env)
            except Exception as e:  # noqa: BLE001
                return wit.get("raises") == type(e).__name__
            return bool(env.get("violated"))
    return False


def run(ctx, args):
    ctx.branches, ctx.skipped = {}, {}
    ctx.regen(["GenWs.v"])
    ctx.build("Props/C01.vo")
    quick = ctx.tier == "quick"
    recs = []
    gc_chain_cases(ctx)
    clone_arg_cases(ctx)
    with no_gc():
        if args.replay:
            with open(args.replay) as f:
                rep = json.load(f)
            case = rep.get("case")
            if case:
                recs.append(run_history(ctx, ctx.rng, len(case["ops"]), 0,
                                        fixed={"docs": case["docs"], "ops": case["ops"], "pool": case.get("pool", [])}))
        else:
            # batches: the real side and the Coq evaluation of one batch are done before the next one starts
            batches = 1 if quick else 12
            for b in range(batches):
                recs = [run_history(ctx, ctx.rng, ctx.rng.randint(1, 25), b * 1000 + h) for h in range(260 if quick else 300)]
                check_histories(ctx, recs)
            recs = []
    check_histories(ctx, recs)
    ctx.notes.append("COps branches hit (update kind, position of target, offered kind -> count): "
                     + json.dumps(sorted((list(k), v) for k, v in ctx.branches.items())))
    ctx.notes.append("operations left out by the generator: " + json.dumps(ctx.skipped))
    ctx.notes.append("model evaluated with vm_compute inside Coq for every history (no extraction)")
    return ctx.finish(
        rule="histories: 1-2 parsed documents (arrangements of <=3 text pieces around <=3 element/comment/PI children, "
             "two levels, default namespace on/off, prologue/epilogue sometimes) + a pool of parentless nodes, then "
             "1-25 editing calls (all eleven kinds, 1-3 offered nodes: strings, tag(), parentless nodes, attached "
             "nodes for refusals) under ambient filters (), default, is_tag_node; after every call the complete "
             "internal state (lxml text/tail, head and appended text objects with identity, in-scope default "
             "namespace, store attributes) is compared with cstep, and the client's view (iterate_children under "
             "altered_default_filters(), identity, names, presented attributes, content) with astep on the plain "
             "tree, both evaluated in Coq.  Non-trivial = distinct (operation, model branches, outcome).",
        replay_open=replay_open)


if __name__ == "__main__":
    common.main(run, "C01")
