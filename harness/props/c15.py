"""C15 - fetch_or_create_by_xpath finds or adds, and nothing else.

  regen/build   Gen/GenXEval.v, Props/C15.vo
  tie           XPath/FetchCreate.v `foc` (evaluated by coqc) against TagNode.fetch_or_create_by_xpath on trees x paths
                where every prefix of the path exists zero / one / several times, with and without `namespaces`:
                outcome (position of the returned node | exception class) and the complete tree afterwards
  search        the four statements on the implementation: the expression then selects exactly the returned node;
                a second call returns the same object and changes nothing; what was added is one chain below the
                deepest existing match, named / attributed as the expression says, every old node untouched;
                not-accepted expressions raise ValueError, ambiguous trees AmbiguousTreeError, any exception leaves
                the tree unchanged
"""
import json

import common
from common import enc_node, enc_str
import impl
from impl import Document, TagNode, altered_default_filters, no_gc
import xq
import xpath_ast

P_NS, D_NS = "u", "d"


def gen_tree(rng, default_ns):
    def elem(depth):
        name = rng.choice(["a", "a", "b", "b", "c"])
        pre = "p:" if rng.random() < .15 else ""
        attrs = ""
        if rng.random() < .5:
            attrs += ' k="%s"' % rng.choice(["1", "1", "2"])
        if rng.random() < .25:
            attrs += ' j="%s"' % rng.choice(["1", "x"])
        if rng.random() < .12:
            attrs += ' p:k="1"'
        kids = ""
        if depth > 0:
            for _ in range(rng.choice([0, 0, 1, 2, 2, 3])):
                q = rng.random()
                kids += elem(depth - 1) if q < .75 else rng.choice(["t", "<!--c-->", "<?p q?>"])
        return "<%s%s%s>%s</%s%s>" % (pre, name, attrs, kids, pre, name)
    decl = ' xmlns:p="%s"' % P_NS + (' xmlns="%s"' % D_NS if default_ns else "")
    inner = "".join(elem(2) if rng.random() < .8 else rng.choice(["x", "<!--e-->"]) for _ in range(rng.choice([0, 1, 2, 3, 4])))
    return "<r%s>%s</r>" % (decl, inner)


def gen_path(rng):
    """-> (expression, accepted?)"""
    def pred():
        q = rng.random()
        if q < .08:
            # a number literal, in both operand orders: not a string comparison, so not accepted
            return rng.choice(["[@n=1]", "[1=@n]", "[2=@k]", "[@j=2]", "[@xmlns='u']", "[@xmlns:p='u']", "['u'=@xmlns]"])
        if q < .5:
            return "[@%s=%s]" % (rng.choice(["k", "k", "j", "p:k"]), rng.choice(["'1'", "'1'", '"2"', "'x'"]))
        if q < .65:
            return "['%s'=@%s]" % (rng.choice(["1", "2"]), rng.choice(["k", "j"]))
        if q < .85:
            return "[@k='%s' and @j='%s']" % (rng.choice(["1", "2"]), rng.choice(["1", "x"]))
        return "[@k='1'][@j='x']"
    def many():
        """three or four separate brackets on distinct attributes; sometimes a not-locatable one in the middle"""
        names = ["k", "j", "p:k", "n"]
        rng.shuffle(names)
        k = rng.choice([3, 3, 4])
        out = ["[@%s='%s']" % (a, rng.choice(["1", "2", "x"])) for a in names[:k]]
        if rng.random() < .3:
            out[rng.randrange(1, k - 1)] = rng.choice(["[2]", "[@j]", "[@k!='1']", "[1]", "[1=@n]", "[@n=1]"])
        return "".join(out)
    steps = []
    for _ in range(rng.randint(1, 3)):
        s = rng.choice(["a", "a", "b", "b", "c", "p:a", "n"])
        q = rng.random()
        if q < .35:
            s += pred()
        elif q < .55:
            s += many()
        steps.append(s)
    if rng.random() < .06:
        # a reserved attribute name in some position of a multi-step path
        k = rng.randrange(len(steps))
        steps[k] = steps[k].split("[")[0] + rng.choice(["[@xmlns='u']", "[@xmlns:p='u']", "['u'=@xmlns]", "[@k='1' and @xmlns='u']"])
        if len(steps) == 1:
            steps.insert(0, rng.choice(["n", "b"]))
    e = "/".join(steps)
    r = rng.random()
    if r < .12:
        e = "/r/" + e
    elif r < .15:
        e = "/other/" + e
    if rng.random() < .17:
        bad = rng.choice(["a[1]", "a[@k]", "a | b", "a/text()", "descendant::a", "a[@k!='1']", "*", "a[@k='1' or @j='2']",
                          "a/..", "a[@k=1]", "//a", "a[not(@k)]", "a[@k=@j]", "p:*", "a[contains(@k,'1')]"])
        return (bad if rng.random() < .5 else e + "/" + bad), False
    return e, True


def accepted(t):
    """the documented rules: one path, child axis, name tests, attribute = string literal joined by and / stacked"""
    def ok_pred(e):
        if e[0] != "op":
            return False
        if e[1] == "and_":
            return ok_pred(e[2]) and ok_pred(e[3])
        if e[1] != "eq":
            return False
        a, b = e[2], e[3]
        return (a[0] == "attrval" and b[0] == "val" and isinstance(b[1], str)) or \
               (b[0] == "attrval" and a[0] == "val" and isinstance(a[1], str))
    if len(t[1]) != 1:
        return False

    return all(s[1] == ("axis", "child") and s[2][0] == "name" and all(ok_pred(p) for p in s[3]) for s in t[1][0][2])


def has_reserved(t):
    """an attribute predicate names an attribute that cannot be created (`xmlns`, or in the xmlns namespace): for such an
    expression ValueError is a legitimate refusal"""
    def reserved(e):
        if e[0] == "attrval":
            return e[2] == "xmlns" or e[1] == "xmlns"
        if e[0] == "op":
            return reserved(e[2]) or reserved(e[3])
        return False
    return any(reserved(p) for pa in t[1] for s in pa[2] for p in s[3])


def plain_to_tuple(p):
    k = p["kind"]
    if k == "tag":
        return ("tag", p["ns"], p["local"], p["attrs"], [plain_to_tuple(c) for c in p["kids"]])
    if k == "text":
        return ("text", p["content"])
    if k == "comment":
        return ("comment", p["content"])
    return ("pi", p["target"], p["content"])


def create_map(node, namespaces):
    from _delb.names import Namespaces
    ns = Namespaces(Namespaces({"": node.namespace}) if namespaces is None else namespaces)
    return [(k, ns[k] or "") for k in ns]


def classify(finding, case):
    return finding.get("cls") in case.get("classes", [])


AMBIENT = {
    "default": (0, None),
    "none": (1, ()),
    "text": (2, (impl.is_text_node,)),
    "comment": (3, (impl.is_comment_node,)),
    "tag": (4, (impl.is_tag_node,)),
}


class ambient:
    """the caller's ambient default filters around the calls of fetch_or_create_by_xpath"""
    def __init__(self, name):
        flt = AMBIENT[name][1]
        self.cm = altered_default_filters(*flt) if flt is not None else None

    def __enter__(self):
        if self.cm is not None:
            self.cm.__enter__()

    def __exit__(self, *a):
        if self.cm is not None:
            return self.cm.__exit__(*a)


def missing_steps(node, expr, namespaces):
    """how many trailing steps of the path have no match yet (None if that cannot be decided)"""
    absolute = expr.startswith("/")
    steps = expr.lstrip("/").split("/")
    deepest = 0
    for i in range(1, len(steps) + 1):
        try:
            n = len(node.xpath(("/" if absolute else "") + "/".join(steps[:i]), namespaces=namespaces))
        except Exception:       # noqa: BLE001
            return None
        if n == 0:
            break
        deepest = i
    return len(steps) - deepest


def witness_case(src, ctx_pos, expr, namespaces, amb="default"):
    """run one case on the implementation; returns the list of violated statements"""
    from _delb.xpath import parse
    from _delb.exceptions import AmbiguousTreeError, XPathEvaluationError, InvalidOperation
    d = Document(src)
    tree = xq.Tree(d.root)
    node = tree.node_at(tuple(ctx_pos))
    before = plain_to_tuple(tree.plain)
    old = [n for _, n, _ in tree.nodes]
    tup = xpath_ast.to_tuple(parse(expr))
    acc = accepted(tup)
    bad = []
    pre_nodes = None
    try:
        pre_nodes = list(node.xpath(expr, namespaces=namespaces))
        pre_count = len(pre_nodes)
    except Exception:       # noqa: BLE001
        pre_count = None
    missing = missing_steps(node, expr, namespaces) if acc else None
    try:
        with ambient(amb):
            got = node.fetch_or_create_by_xpath(expr, namespaces=namespaces)
        out = ("ok", got)
    except ValueError:
        out = ("rejected", "ValueError")
    except AmbiguousTreeError:
        out = ("rejected", "AmbiguousTreeError")
    except XPathEvaluationError:
        out = ("rejected", "XPathEvaluationError")
    except InvalidOperation:
        out = ("rejected", "InvalidOperation")
    except Exception as ex:     # noqa: BLE001
        out = ("crash", type(ex).__name__)
    after_tree = xq.Tree(d.root)
    after = plain_to_tuple(after_tree.plain)
    if out[0] != "ok":
        if after != before:
            bad.append("an exception (%s) left the tree changed" % out[1])
        if not acc and out[1] != "ValueError":
            bad.append("a not-accepted expression is not rejected with ValueError (%s)" % out[1])
        if acc and out[1] == "ValueError" and not has_reserved(tup):
            bad.append("an accepted expression is rejected")
        if acc and out[0] == "crash":
            bad.append("an accepted expression raises %s" % out[1])
        if acc and pre_count is not None and pre_count >= 2 and out[1] != "AmbiguousTreeError":
            bad.append("several matching branches but no AmbiguousTreeError")
        if acc and pre_count == 1:
            bad.append("the expression selects exactly one node but the call raises %s instead of returning it" % out[1])
        return bad, out, before, after, after_tree, acc
    got = out[1]
    if acc and pre_count == 1 and pre_nodes[0] is not got:
        bad.append("the expression selected exactly one node but another one is returned")
    if not acc:
        bad.append("a not-accepted expression is not rejected")
    if pre_count is not None and pre_count >= 2:
        bad.append("several matching branches but no AmbiguousTreeError")
    # finds
    try:
        sel = list(node.xpath(expr, namespaces=namespaces))
    except Exception as ex:     # noqa: BLE001
        sel = ["raises " + type(ex).__name__]
    if not (len(sel) == 1 and sel[0] is got):
        bad.append("afterwards the expression does not select exactly the returned node")
    # minimal: every old node keeps its relative position, content and attributes; the additions are one chain
    new_nodes = [(p, n) for p, n, _ in after_tree.nodes if not any(n is o for o in old)]
    stripped = strip(after_tree.plain, set(p for p, _ in new_nodes))
    if plain_to_tuple(stripped) != before:
        bad.append("an old node changed its position, content or attributes")
    if new_nodes:
        ok_chain = all(isinstance(n, TagNode) for _, n in new_nodes)
        for (p1, _), (p2, _) in zip(new_nodes, new_nodes[1:]):
            ok_chain = ok_chain and p2 == p1 + (0,)
        ok_chain = ok_chain and new_nodes[-1][1] is got and len(got) == 0
        if not ok_chain:
            bad.append("the additions are not a single chain ending in the returned node")
        else:
            steps = tup[1][0][2]
            k = len(new_nodes)
            eff = dict(xq.effective_nsmap(node, namespaces))
            for (p, n), s in zip(new_nodes, steps[len(steps) - k:]):
                want_ns = eff.get(s[2][1], "") if s[2][1] is not None else eff.get("", "")
                if n.local_name != s[2][2] or (n.namespace or "") != want_ns:
                    bad.append("an added element is not named as the expression says")
                    break
        if pre_count and pre_count == 1:
            bad.append("a node was added although the expression already selected one")
        if missing is not None and len(new_nodes) != missing:
            bad.append("what was added is not the missing part of the branch below the deepest existing match "
                       "(%d elements added, %d steps missing)" % (len(new_nodes), missing))
    # idempotent
    snapshot = plain_to_tuple(xq.Tree(d.root).plain)
    try:
        with ambient(amb):
            again = node.fetch_or_create_by_xpath(expr, namespaces=namespaces)
        if again is not got:
            bad.append("a second call returns a different node")
    except Exception as ex:     # noqa: BLE001
        bad.append("a second call raises %s" % type(ex).__name__)
    if plain_to_tuple(xq.Tree(d.root).plain) != snapshot:
        bad.append("a second call changes the tree")
    return bad, ("ok", after_tree.pos_of(got)), before, after, after_tree, acc


def strip(p, drop):
    q = dict(p)
    q["kids"] = [strip(c, drop) for c in p["kids"] if c["pos"] not in drop]
    return q


def run(ctx, args):
    rng = ctx.rng
    quick = ctx.tier == "quick"
    ctx.regen(["GenXEval.v"])
    ctx.build("Props/C15.vo")
    from _delb.xpath import parse
    n_cases = 700 if quick else 4000
    preamble, terms, meta = [], [], []
    with no_gc():
        for ci in range(n_cases):
            default_ns = rng.random() < .15
            src = gen_tree(rng, default_ns)
            expr, _ = gen_path(rng)
            namespaces = rng.choice([None, None, {"p": P_NS}, {"p": P_NS}, {}, {"p": P_NS, "": D_NS}])
            d0 = Document(src)
            t0 = xq.Tree(d0.root)
            tags = [(p, n) for p, n, _ in t0.nodes if isinstance(n, TagNode)]
            pos, cnode = tags[0] if rng.random() < .7 else rng.choice(tags)
            if rng.random() < .15 and len(tags) > 1:
                # a path to an element that exists: names (and sometimes an attribute) of the way down from the context
                tp, tn = rng.choice(tags[1:])
                if tp[:len(pos)] == pos and len(tp) > len(pos):
                    parts = []
                    for i in range(len(pos) + 1, len(tp) + 1):
                        n_ = t0.node_at(tp[:i])
                        step = ("p:" if n_.namespace == P_NS else "") + n_.local_name
                        if "k" in n_.attributes and rng.random() < .5 and n_.namespace != D_NS:
                            step += "[@k='%s']" % n_.attributes["k"].value
                        parts.append(step)
                    if all(t0.node_at(tp[:i]).namespace in (None, "", P_NS) for i in range(len(pos) + 1, len(tp) + 1)):
                        expr = "/".join(parts)
            try:
                tup = xpath_ast.to_tuple(parse(expr))
            except Exception:       # noqa: BLE001
                continue
            m_eval = xq.effective_nsmap(cnode, namespaces)
            m_create = create_map(cnode, namespaces)
            amb = rng.choice(["default"] * 6 + ["none", "text", "comment", "tag"])
            bad, out, before, after, after_tree, acc = witness_case(src, pos, expr, namespaces, amb)
            small = {"doc": src, "ctx": list(pos), "expr": expr, "namespaces": namespaces, "ambient": amb}
            classes = []
            if dict(m_eval).get("", "") or dict(m_create).get("", ""):
                classes.append("default-namespace-in-effect")
            used = set()
            for st in tup[1][0][2]:
                if st[2][0] in ("name", "anyname") and st[2][1] is not None:
                    used.add(st[2][1])
                stack = list(st[3])
                while stack:
                    x = stack.pop()
                    if x[0] in ("attrval", "hasattr") and x[1] is not None:
                        used.add(x[1])
                    if x[0] == "op":
                        stack += [x[2], x[3]]
                    if x[0] == "fn":
                        stack += list(x[2])
            if any(u not in dict(m_eval) for u in used):
                classes.append("undeclared-prefix")
            if acc and expr.startswith("/"):
                try:
                    if not len(d0.root.xpath("/" + expr[1:].split("/")[0], namespaces=namespaces)):
                        classes.append("absolute-first-step-mismatch")
                except Exception:       # noqa: BLE001
                    pass
            ctx.count(1, ("accepted:" if acc else "not-accepted:") + out[0] + (":" + out[1] if out[0] != "ok" else
                      (":created" if after != before else ":fetched")))
            if after != before:
                ctx.nontrivial_case((src, expr, tuple(pos), json.dumps(namespaces)))
            if dict(m_eval).get("", "") != dict(m_create).get("", ""):
                classes.append("empty-namespaces-mapping")
            if "undeclared-prefix" in classes and out == ("rejected", "XPathEvaluationError") and after != before:
                classes.append("undeclared-prefix-after-creation")
            for b in bad:
                ctx.fail(b, dict(small, classes=classes, outcome=out),
                         None)
            ctx.sample(dict(small, outcome=out[0] + (":" + str(out[1]))))
            # ---- the model on the same case
            key = t0.coq()          # inlined: a preamble with one definition per case would be re-read by every file
            terms.append("run_foc_vis %d%%N %s %s %s %s %s" % (AMBIENT[amb][0], key, xq.coq_nsmap([(k, v) for k, v in m_eval if k in ("", "p", "xml", "xmlns")]),
                                                      xq.coq_nsmap([(k, v) for k, v in m_create if k in ("", "p", "xml", "xmlns")]),
                                                      xpath_ast.coq_ast(tup), xq.coq_pos(pos)))
            if out[0] == "ok":
                want = [0, len(out[1])] + list(out[1]) + enc_node(after)
            else:
                cls = out[1] if out[1] in xq.EXN else "OtherError"
                want = [1 if cls in ("ValueError", "AmbiguousTreeError", "XPathEvaluationError", "InvalidOperation") else 2, xq.EXN.index(cls)] + enc_node(after)
            meta.append((small, want, out))
    res = xq.coq_eval_retry(ctx, "c15_cases", xq.REQ + "\n".join(preamble) + "\n", terms, chunk=120)
    for (small, want, out), got in zip(meta, res):
        if got is None:
            ctx.mismatch("FetchCreate.foc (coqc)", json.dumps(small))
        elif got != want:
            ctx.mismatch("FetchCreate.foc vs TagNode.fetch_or_create_by_xpath",
                         json.dumps(dict(small, real=str(out), model_head=got[:6], real_head=want[:6])))
    for f in ctx.findings:
        if f["status"] == "fixed":
            w = f["witness"]
            bad, out, *_ = witness_case(w["doc"], w["ctx"], w["expr"], w.get("namespaces"), w.get("ambient", "default"))
            ctx.count(1, "fixed-finding-regression-case")
            for b in bad:
                ctx.fail("regression of fixed finding %s: %s" % (f["id"], b), dict(w, outcome=str(out)))
    return ctx.finish(
        rule="generated trees (repeated names so that every prefix of a path exists zero, one or several times; text, "
             "comments, PIs; with and without a default namespace) x child-axis name-test paths with attribute-equality "
             "predicates (relative, absolute, prefixed, and 15 not-accepted forms) x namespaces None / {} / prefixed / "
             "with default; outcome and complete tree afterwards compared with the model; the four statements checked "
             "on the implementation",
        replay_open=replay_open)


def replay_open(f):
    w = f["witness"]
    bad, out, *_ = witness_case(w["doc"], w["ctx"], w["expr"], w.get("namespaces"), w.get("ambient", "default"))
    return bool(bad)


if __name__ == "__main__":
    common.main(run, "C15")
