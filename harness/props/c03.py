"""C03 - formatted output is whitespace-transparent for normalised documents."""
import json

import common
from common import cnode, cstr, cbool, enc_node
import impl
from impl import Document, ParserOptions, TagNode, TextNode, extract, to_xml, no_gc, altered_default_filters
import pp_common as pp

REQ = ("From Coq Require Import List NArith ZArith.\nFrom Delb.Base Require Import PyStr.\n"
       "From Delb.Tree Require Import ATree Merge Encode.\nFrom Delb.Ws Require Import Reduce Pretty Wrap Qualified.\n")

WIDTHS = [0, 1, 2, 3, 4, 5, 6, 7, 8, 9, 10, 11, 12, 20, 40, 80]

PREAMBLE = REQ + """Import ListNotations.
Fixpoint leqb (a b : list N) : bool := match a, b with [] , [] => true | x :: a', y :: b' => (N.eqb x y && leqb a' b')%bool | _, _ => false end.
Definition transparent (t s : node) : list N := enc_bool (leqb (enc_node (reduce_model s)) (enc_node t)).
(* width 0: per option set the model string and whether re-reading + reducing the model's tree gives t back *)
Definition run0 (g : list (str * bool)) (t : node) : list N :=
  enc_bool (leqb (enc_node (reduce_model t)) (enc_node t))
  ++ flat_map (fun ia : str * bool => let c := pretty_chunk (fst ia) (snd ia) t in enc_str (render c) ++ transparent t (seen c)) g.
Definition runw (g : list (str * bool * Z)) (T : node) (sr : list nat) : list N :=
  match get T sr with
  | None => []
  | Some t =>
    enc_bool (leqb (enc_node (reduce_model t)) (enc_node t))
    ++ flat_map (fun iaw : str * bool * Z =>
         let '(i, a, w) := iaw in
         match wrap_real i a w T sr with
         | Some c => enc_str (render c) ++ transparent t (seen c)
         | None => []
         end) g
  end.
(* the document as the serializer of the sub-tree at the (root-first) path p names it: Ws/Qualified.v *)
Fixpoint map_at {A} (i : nat) (f g : A -> A) (l : list A) : list A :=
  match l with [] => [] | x :: r => match i with O => f x :: map g r | S i' => g x :: map_at i' f g r end end.
Fixpoint qual_at (pf : str -> str) (decl : list attr) (p : list nat) (n : node) : node :=
  match p with
  | [] => qual_root pf decl n
  | i :: p' => match n with
               | Tag ns name attrs kids => Tag [] (pf ns ++ name) (map (qual_attr pf) attrs) (map_at i (qual_at pf decl p') (qual pf) kids)
               | _ => n
               end
  end.
Definition seen0 (i : str) (a : bool) (t : node) : list N := enc_node (merge_tree (pretty_seen i a t)).
Definition seenw (i : str) (a : bool) (w : Z) (T : node) (sr : list nat) : list N := enc_node (merge_tree (wrap_seen i a w T sr)).
"""


def cgrid0(g):
    return "[" + "; ".join("(%s, %s)" % (cstr(i), cbool(a)) for i, a, _ in g) + "]"


def cgridw(g):
    return "[" + "; ".join("(%s, %s, (%d)%%Z)" % (cstr(i), cbool(a), w) for i, a, w in g) + "]"


def cpath(rp):
    return "[" + "; ".join("%d%%nat" % i for i in rp) + "]"


# ---------------------------------------------------------------------------------------------- the open finding
def verbatim_newline(t, inside=False):
    """a newline in content that is written verbatim: text under xml:space="preserve", comment, PI, attribute value
    (the Python twin of Wrap.verbatim_newline)"""
    if t[0] == "text":
        return inside and "\n" in t[1]
    if t[0] == "comment":
        return "\n" in t[1]
    if t[0] == "pi":
        return "\n" in t[2]
    here = inside or (pp.XML_NS, "space", "preserve") in [tuple(a) for a in t[3]]
    return any("\n" in a[2] for a in t[3]) or any(verbatim_newline(c, here) for c in t[4])


def subtree_at(T, rp):
    """rp: child indices, innermost first"""
    for i in reversed(rp):
        T = T[4][i]
    return T


def classify(finding, case):
    if finding["cls"] == "indentation-not-xml-whitespace":
        return bool(case.get("indentation", "").strip(" \t\r\n"))
    if finding["cls"] == "verbatim-content-with-newline":
        return case.get("width", 0) > 0 and verbatim_newline(pp.tuple_tree(case["doc"]))
    if finding["cls"] == "foreign-namespace-after-subtree":
        T = pp.tuple_tree(case["doc"])
        t = subtree_at(T, case.get("subtree") or [])
        return (case.get("width", 0) > 0 and bool(case.get("subtree")) and case.get("raises") == "KeyError"
                and bool(pp.namespaces_of(T) - pp.namespaces_of(t)))
    if finding["cls"] == "newline-in-indentation":
        # (fixed by e1f59b7; the theorems hold for these indentations now)
        return case.get("width", 0) > 0 and "\n" in case.get("indentation", "")
    return False


def roundtrip(out):
    """re-read formatted output with whitespace reduction"""
    return extract(Document(out, parser_options=ParserOptions(reduce_whitespace=True)).root)


def replay_open(f):
    still = False
    for key in ("witness", "witness_2"):
        w = f.get(key)
        if not w:
            continue
        doc = pp.load_reduced(w["xml"])
        node = doc.root
        with altered_default_filters():
            for i in reversed(w.get("subtree") or []):
                node = list(node.iterate_children())[i]
        try:
            out = pp.real_serialize(node, w["indentation"], w["width"], w["align"])
        except Exception as e:  # noqa: BLE001
            still = still or type(e).__name__ == w.get("raises")
            continue
        with no_gc():
            still = still or roundtrip(out) != extract(node)
    return still


# ---------------------------------------------------------------------------------------------- cases
def tag_nodes_with_paths(doc):
    out = []

    def walk(n, rp):
        out.append((n, rp))
        for i, c in enumerate(n.iterate_children()):
            if isinstance(c, TagNode):
                walk(c, [i] + rp)
    with altered_default_filters():
        walk(doc.root, [])
    return out


def pick_options(ctx, n0, nw, hint):
    """hint = None | width | (width, indentation): most of the wrapped option sets use the hinted values"""
    width_hint, ind_hint = hint if isinstance(hint, tuple) else (hint, None)
    g = []
    for _ in range(n0):
        g.append((ctx.rng.choice(pp.INDENTS0), ctx.rng.random() < 0.3, 0))
    for _ in range(nw):
        w = width_hint if (width_hint and ctx.rng.random() < 0.6) else ctx.rng.choice(WIDTHS[1:])
        ind = ind_hint if (ind_hint is not None and ctx.rng.random() < 0.7) else ctx.rng.choice(pp.INDENTS0)
        g.append((ind, ctx.rng.random() < 0.25, w))
    return g


def gen_coincidence(rng):
    """the coincidence behind the open finding: a preserved element with a newline in its content, at a depth and
    with a name length such that len('</name>') == depth * len(indentation), followed by text / inline content"""
    ind, depth, n = rng.choice([("  ", 2, 1), ("  ", 3, 3), (" ", 4, 1), ("\t", 4, 1), (" \t", 2, 1), (" \t", 3, 3),
                                ("  ", 2, 2), (" ", 3, 1)])
    name = "bcd"[:n] if n <= 3 else "b" * n
    if rng.random() < 0.3:
        # a comment / PI whose last line is as long as the indentation of the depth (minus the closing delimiter)
        k = depth * len(ind)
        if rng.random() < 0.7 and k >= 3:
            inner_alt = ("comment", "x\n" + "y" * (k - 3))
        elif k >= 2:
            inner_alt = ("pi", "t", "x\n" + "y" * (k - 2))
        else:
            inner_alt = ("comment", "x\ny")
    else:
        inner_alt = None
    inner = inner_alt or ("tag", "", name, [pp.space_attr("preserve")],
             [("text", rng.choice(["x\n", "\n", "x\ny\n", " x \n", "x\n\n", "x\n", "x y", "x\n "]))])
    follow = rng.choice([[("text", "bb")], [("text", "bb")], [("text", " bb cc")], [("text", "bb cc dd ee")],
                         [("text", "bb "), ("tag", "", "i", [], [])], [("text", "unbreakablewordoftwentysix")],
                         [("tag", "", "i", [], [("text", "q")]), ("text", "bb")], [("comment", "c"), ("text", "bb dd")], []])
    lead = rng.choice([[], [("text", "aa ")], [("text", "aa")]])
    t = ("tag", "", "a", [], lead + [inner] + follow)
    for _ in range(depth - 1):
        t = ("tag", "", rng.choice(["r", "x"]), [], rng.choice([[], [("text", "w ")]]) + [t] + rng.choice([[], [("text", " z")]]))
    return to_xml(t), (rng.choice(WIDTHS[1:]), ind)


def gen_lf_indent(rng):
    """indentation with a newline in it and a line width: a text whose trailing space is consumed by a line break,
    followed by an element / comment, at some depth (the writer's offset counts from the newline inside the indentation)"""
    ind = rng.choice(pp.LF_INDENTS + ["\t\n", "\n\n"])
    words = [rng.choice(["a", "b", "aa", "bbb", "cc"]) for _ in range(rng.choice([2, 2, 3]))]
    follow = rng.choice([[("tag", "", "i", [], [])], [("tag", "", "i", [], []), ("text", "c")], [("comment", "")],
                         [("tag", "", "i", [], [("text", "q")]), ("text", " d")]])
    t = ("tag", "", "e", [], [("text", " ".join(words) + " ")] + follow)
    for _ in range(rng.choice([0, 0, 1, 2, 4])):
        t = ("tag", "", rng.choice(["r", "x"]), [], [t])
    return to_xml(t), (rng.choice([1, 1, 2, 3, 4]), ind)


def load_edited(xml, edits):
    """the document is parsed as it is, text nodes are attached next to its text nodes through the API
    (edits: [(number of the text node in document order, 'before' | 'after', content)]), then reduced in place"""
    doc = Document(xml)
    with altered_default_filters():
        texts = [n for n in doc.root.iterate_descendants() if isinstance(n, TextNode)]
    for k, where, content in edits:
        if k < len(texts):
            if where == "before":
                texts[k].add_preceding_siblings(content)
            else:
                texts[k].add_following_siblings(content)
    doc.reduce_whitespace()
    return doc


def gen_edits(rng, xml):
    n = xml.count(">") // 2 + 1
    return [(rng.randrange(n), rng.choice(["before", "after"]), rng.choice([" x", "y ", " ", " z ", "w", "\n q  "]))
            for _ in range(rng.randint(1, 4))]


def check_docs(ctx, docs, max_sub, n0, nw, seen_rate):
    """docs: [(kind, xml, width_hint)] or [(kind, xml, width_hint, edits)] (see load_edited)"""
    items = []
    with no_gc():
        for kind, xml, hint, *more in docs:
            edits = more[0] if more else None
            try:
                doc = pp.load_reduced(xml) if edits is None else load_edited(xml, edits)
            except Exception as e:  # noqa: BLE001
                ctx.notes.append("generator: parser refused a document: %r" % (e,))
                continue
            T = extract(doc.root)
            if not pp.in_domain_ns(T):
                continue
            ns_doc = pp.uses_namespaces(T)
            nodes = tag_nodes_with_paths(doc)
            if kind == "deep":
                picks = list(range(0, len(nodes), 3))
            else:
                picks = [0] + sorted(ctx.rng.sample(range(1, len(nodes)), min(max_sub, len(nodes) - 1)))
            for idx in picks:
                node, rp = nodes[idx]
                t = extract(node)
                view = None
                if ns_doc:
                    # the namespace round trip itself is C02 / C13 matter: only trees the plain serialization gives back
                    if roundtrip(node.serialize()) != t:
                        ctx.notes.append("namespaced sub-tree skipped: its plain serialization is not read back as the tree")
                        continue
                    view = pp.ns_view(node)
                g = pick_options(ctx, n0, nw, hint)
                real = []
                for i, a, w in g:
                    try:
                        real.append(pp.real_serialize(node, i, w, a))
                    except Exception as e:  # noqa: BLE001
                        real.append(None)
                        ctx.fail("serialize raised %s: %s" % (type(e).__name__, e),
                                 {"xml": xml, "api_edits": edits, "doc": T, "subtree": rp, "indentation": i, "width": w,
                                  "align": a, "raises": type(e).__name__}, classify)
                items.append({"kind": kind, "xml": xml, "T": T, "rp": rp, "t": t, "g": g, "real": real, "view": view,
                              "edits": edits})
    terms = []
    for it in items:
        g0 = [o for o in it["g"] if o[2] == 0]
        gw = [o for o in it["g"] if o[2] > 0]
        it["g0"], it["gw"] = g0, gw
        if it["view"] is None:
            terms.append("run0 %s %s" % (cgrid0(g0), cnode(it["t"])))
            terms.append("runw %s %s %s" % (cgridw(gw), cnode(it["T"]), cpath(it["rp"])))
        else:
            tbl, decl = it["view"]
            terms.append("run0 %s (qual_root (pf_of %s) %s %s)" % (cgrid0(g0), pp.ctbl(tbl), pp.cdecl(decl), cnode(it["t"])))
            terms.append("runw %s (qual_at (pf_of %s) %s %s %s) %s" % (cgridw(gw), pp.ctbl(tbl), pp.cdecl(decl),
                                                                   cpath(list(reversed(it["rp"]))), cnode(it["T"]), cpath(it["rp"])))
    vals = ctx.coq_eval("c03", PREAMBLE, terms, chunk=16)
    seen_terms, seen_keys = [], []
    for k, it in enumerate(items):
        v0, vw = vals[2 * k], vals[2 * k + 1]
        if v0 is None or vw is None or not vw:
            ctx.mismatch("pretty/wrap model evaluation", "coqc failed on the case file")
            continue
        reduced = v0[0] == 1
        res = {}
        for grid, v in ((it["g0"], v0), (it["gw"], vw)):
            i = 1
            for o in grid:
                n = v[i]
                s = "".join(chr(c) for c in v[i + 1:i + 1 + n])
                res[o] = (s, v[i + 1 + n] == 1)
                i += 2 + n
        for o, real in zip(it["g"], it["real"]):
            ind, align, w = o
            if real is None:
                continue
            model, model_transparent = res[o]
            case = {"xml": it["xml"], "api_edits": it["edits"], "doc": it["T"], "subtree": it["rp"], "tree": it["t"],
                    "indentation": ind, "width": w, "align": align}
            ctx.count(1, "%s/%s/%s" % (it["kind"], "root" if not it["rp"] else "subtree",
                                       "width0" if w == 0 else "wrapped"))
            if model != real:
                ctx.mismatch("%s vs serialize(FormatOptions(indentation, width, align_attributes))"
                             % ("pretty (Ws/Pretty.v)" if w == 0 else "wrap_real (Ws/Wrap.v)"),
                             {"case": case, "impl": real, "model": model})
            elif it["view"] is None and ctx.rng.random() < seen_rate:
                seen_terms.append("seen0 %s %s %s" % (cstr(ind), cbool(align), cnode(it["t"])) if w == 0 else
                                  "seenw %s %s (%d)%%Z %s %s" % (cstr(ind), cbool(align), w, cnode(it["T"]), cpath(it["rp"])))
                seen_keys.append((case, real))
            if not reduced:
                if not it["rp"] and o == it["g"][0]:
                    # the property's precondition: what the implementation's whitespace reduction leaves (parser
                    # option / Document.reduce_whitespace) is in normal form
                    ctx.fail("the document left by the implementation's whitespace reduction is not reduced "
                             "(reduce_model changes it): formatted output cannot be transparent for it",
                             dict(case, impl=real), classify)
                continue        # a sub-tree below xml:space="preserve" that is not reduced on its own: no demand
            # the property itself, on the implementation
            if real != to_xml(it["t"]):
                ctx.nontrivial_case((it["t"], o))
            try:
                with no_gc():
                    back = roundtrip(real)
            except Exception as e:  # noqa: BLE001
                ctx.fail("formatted output is not re-readable: %s: %s" % (type(e).__name__, e), dict(case, impl=real), classify)
                continue
            ok = back == it["t"]
            if not ok:
                ctx.fail("serializing with format options and re-reading with whitespace reduction does not give the tree back",
                         dict(case, impl=real, reread=back), classify)
            if model == real and ok != model_transparent:
                ctx.mismatch("seen/reduce_model on the model's chunk tree vs re-reading the real output",
                             {"case": case, "impl_transparent": ok, "model_transparent": model_transparent})
            ctx.sample({"tree": it["t"], "indentation": ind, "width": w, "align": align, "output": real}, limit=4)
    if seen_terms:
        svals = ctx.coq_eval("c03s", PREAMBLE, seen_terms, chunk=30)
        for (case, real), sv in zip(seen_keys, svals):
            if sv is None:
                ctx.mismatch("seen evaluation", "coqc failed on the case file")
                continue
            with no_gc():
                parsed = extract(Document(real).root)
            ctx.count(1, "re-parse view")
            if sv != enc_node(parsed):
                ctx.mismatch("what a parser sees in the output (seen) vs the real parser on the real output",
                             {"case": case, "impl": parsed, "model": common.dec_node(sv)[0]})


# ---------------------------------------------------------------------------------------------- the indentation's domain
BAD_INDENTS = ["\u00a0", "\u2003", "\u3000", "\x0b", "\x0c", "\x85", "\u2028", " \u00a0", " \u2003 ", "\t\x0c", "\n\u3000", "\x1c"]
XML_WS_INDENTS = ["\r", "\n ", " \r\n", "\r\t", "\n", " "]
DOMAIN_DOCS = ['<r a="1" b="2"><x c="3" d="4"/></r>', '<p k="v" id="1">aa bb <i k="v" n="2">cc dd</i> ee<!--c--><b/> ff</p>',
               '<!--p--><r a="1" b="2"> <x c="3" d="4"> t </x> </r><?e f?>']


def check_indentation_domain(ctx):
    """white space that is none in XML (str.isspace accepts it) must be refused as indentation by every entry point -
    an output that is returned all the same must be read back as the tree; XML white space (also CR) keeps working"""
    import os
    import tempfile
    from delb import DefaultStringOptions
    tmp = tempfile.mkdtemp(prefix="c03ind")
    path = os.path.join(tmp, "out.xml")

    def by_serialize(doc, fo):
        return doc.root.serialize(format_options=fo)

    def by_str(doc, fo):
        DefaultStringOptions.format_options = fo
        try:
            return str(doc)
        finally:
            DefaultStringOptions.reset_defaults()

    def by_str_node(doc, fo):
        DefaultStringOptions.format_options = fo
        try:
            return str(doc.root)
        finally:
            DefaultStringOptions.reset_defaults()

    def by_write(doc, fo):
        b = pp._Buf()
        doc.write(b, format_options=fo)
        return b.getvalue().decode("utf-8")

    def by_save(doc, fo):
        from pathlib import Path
        doc.save(Path(path), format_options=fo)
        with open(path, encoding="utf-8", newline="") as f:
            return f.read()

    entries = [("node.serialize", by_serialize), ("str(document)", by_str), ("str(node)", by_str_node),
               ("Document.write", by_write), ("Document.save", by_save)]
    try:
        with no_gc():
            for xml in DOMAIN_DOCS:
                doc = pp.load_reduced(xml)
                T = extract(doc.root)
                for ind in BAD_INDENTS + XML_WS_INDENTS:
                    bad = bool(ind.strip(" \t\r\n"))
                    for w in (0, 5, 40):
                        for align in (False, True):
                            for name, fn in entries:
                                case = {"xml": xml, "doc": T, "subtree": [], "indentation": ind, "width": w, "align": align,
                                        "entry": name}
                                ctx.count(1, "indentation domain/%s" % ("not XML white space" if bad else "XML white space"))
                                try:
                                    out = fn(doc, pp.fo(ind, w, align))
                                except ValueError as e:
                                    if not bad:
                                        ctx.fail("XML white space refused as indentation: %s" % e, case, classify)
                                    continue
                                except Exception as e:  # noqa: BLE001
                                    ctx.fail("%s raised %s: %s" % (name, type(e).__name__, e), dict(case, raises=type(e).__name__), classify)
                                    continue
                                ctx.nontrivial_case((xml, ind, w, align, name))
                                try:
                                    back = roundtrip(out)
                                except Exception as e:  # noqa: BLE001
                                    ctx.fail("formatted output is not re-readable: %s: %s" % (type(e).__name__, e), dict(case, impl=out), classify)
                                    continue
                                if back != T:
                                    ctx.fail("serializing with format options and re-reading with whitespace reduction does not give the tree back",
                                             dict(case, impl=out, reread=back), classify)
    finally:
        try:
            if os.path.exists(path):
                os.remove(path)
            os.rmdir(tmp)
        except OSError:
            pass


FIXED = [
    ("<r/>", None), ("<r> </r>", None), ("<r>a b c d e f</r>", 5), ("<r> a <b>x</b> c </r>", 6),
    ("<r>aa <b xml:space=\"preserve\"> x  y </b> cc</r>", 8), ("<r><a/><b/> <c/></r>", 3),
    ("<r>text<!--c-->more <?p q?> words and words</r>", 10), ("<r>a<b>unbreakablewordoftwentysix</b>c d</r>", 7),
    ('<r k="v" id="1"><a long-name="x&amp;y" n=""> x </a> y</r>', 12),
    ("<p>aaa bbb <hi>ccc</hi> ddd, eee <hi>fff ggg</hi>. hhh</p>", 11),
    # siblings with the same content: text, comment and PI nodes compare by content, not by identity
    ("<l>la la<lb/>la la</l>", 8), ("<l>la la<lb/>la la</l>", 40), ("<p>one<!--sic-->two<!--sic--></p>", 12),
    ("<p><hi>A</hi>, B<hi>C</hi>, B</p>", 20), ("<r><p>x<?t a?><b/>y<?t a?></p><q>same<i>same</i>same</q></r>", 6),
    ("<r xml:space=\"preserve\">a <b/>a </r>", 5),
    # white space beyond ASCII
    ("<r>first\u00a0entry <b>second \u2003 entry</b>\u2009third\u3000</r>", 9),
    ("<r xml:space=\"preserve\">x\u00a0y <b xml:space=\"default\">p\u2003\u2003q</b></r>", 30),
]


def gen_preserve_nested(rng):
    """a short inline element that fits the line and contains an xml:space="preserve" descendant whose nested child
    elements (without a directive of their own) hold texts with runs of spaces / leading / trailing whitespace"""
    def ws_text():
        return rng.choice(["  return  1", "if  x:", " a  b ", "x   y", "\tq  r", "  z", "w  "])
    kw = ("tag", "", rng.choice(["kw", "b", "i"]), [], [("text", ws_text())])
    deeper = ("tag", "", "s", [], [("text", ws_text()), kw])
    inner_kids = [("text", ws_text())] + rng.choice([[kw], [deeper], [kw, ("text", ws_text())]])
    code = ("tag", "", "code", [pp.space_attr("preserve")], inner_kids)
    holder = rng.choice([code, ("tag", "", "q", [], [("text", "c "), code]), ("tag", "", "q", [], [code])])
    lead = [("text", rng.choice(["see ", "aa bb ", ""]))] if rng.random() < 0.8 else []
    tail = [("text", rng.choice([" more", " cc dd", "x"]))] if rng.random() < 0.7 else []
    t = ("tag", "", "p", [], [k for k in lead if k[1]] + [holder] + tail)
    if rng.random() < 0.4:
        t = ("tag", "", "r", [], [t])
    return to_xml(t), (rng.choice([40, 80, 80]), rng.choice(pp.INDENTS))


def gen_docs(ctx, n):
    docs = []
    for _ in range(n):
        hint = ctx.rng.choice(WIDTHS[1:13] + [None, None])
        t = pp.gen_mixed_tree(ctx.rng, ctx.rng.choice([1, 2, 2, 3]), width_hint=hint,
                              preserve_rate=ctx.rng.choice([0.0, 0.0, 0.1, 0.25]))
        docs.append(("mixed", to_xml(t), hint))
    for _ in range(n // 4):
        docs.append(("data", to_xml(pp.gen_data_tree(ctx.rng, 2)), ctx.rng.choice(WIDTHS[1:])))
    for _ in range(n // 7):
        xml, hint = gen_coincidence(ctx.rng)
        docs.append(("coincidence", xml, hint))
    for _ in range(max(6, n // 12)):
        xml, hint = gen_preserve_nested(ctx.rng)
        docs.append(("preserve-nested", xml, hint))
    # namespaced documents (run through the models as their qualified view)
    for _ in range(n // 6):
        hint = ctx.rng.choice(WIDTHS[1:13] + [None])
        t = pp.gen_mixed_tree(ctx.rng, ctx.rng.choice([1, 2, 2, 3]), width_hint=hint, preserve_rate=0.08)
        docs.append(("ns-mixed", to_xml(pp.gen_ns_decorate(ctx.rng, t)), hint))
    for _ in range(n // 12):
        docs.append(("ns-data", to_xml(pp.gen_ns_decorate(ctx.rng, pp.gen_data_tree(ctx.rng, 2))), ctx.rng.choice(WIDTHS[1:])))
    # documents edited through the API (text nodes attached next to text nodes), then reduced in place
    for _ in range(n // 8):
        hint = ctx.rng.choice(WIDTHS[1:13] + [None])
        xml = to_xml(pp.gen_mixed_tree(ctx.rng, ctx.rng.choice([1, 2]), width_hint=hint, preserve_rate=0.08))
        docs.append(("api-edited", xml, hint, gen_edits(ctx.rng, xml)))
    for _ in range(max(4, n // 25)):
        xml, hint = gen_lf_indent(ctx.rng)
        docs.append(("lf-indent", xml, hint))
    # the general generators with an indentation that contains a newline
    for _ in range(max(4, n // 25)):
        w = ctx.rng.choice(WIDTHS[1:13])
        t = pp.gen_mixed_tree(ctx.rng, ctx.rng.choice([1, 2, 2]), width_hint=w, preserve_rate=0.05)
        docs.append(("lf-indent-mixed", to_xml(t), (w, ctx.rng.choice(pp.LF_INDENTS))))
    # deep chains (9-12 nested elements): indentation of lines 8 and more levels below the serialization root
    for d, ds in ([(9, True), (11, False)] if ctx.tier == "quick" else [(9, True), (10, False), (12, True), (12, False)]):
        docs.append(("deep", to_xml(pp.gen_deep_chain(ctx.rng, d, data_style=ds)), ctx.rng.choice([8, 12, 20, 40])))
    return docs


def run(ctx, args):
    ctx.regen(["GenWs.v", "GenNames.v", "GenReduce.v", "GenPretty.v", "GenWrap.v"])
    ctx.build("Props/C03.vo")
    if args.replay:
        with open(args.replay) as f:
            rep = json.load(f)
        case = rep.get("case") or {}
        if case.get("xml"):
            docs = [("replay", case["xml"], (case.get("width") or None, case.get("indentation")))
                    + ((case["api_edits"],) if case.get("api_edits") else ())]
            check_docs(ctx, docs, max_sub=50, n0=3, nw=8, seen_rate=1.0)
        return ctx.finish("replay of " + args.replay, replay_open=replay_open)
    quick = ctx.tier == "quick"
    docs = [("fixed", x, h) for x, h in FIXED] + gen_docs(ctx, 140 if quick else 900)
    check_docs(ctx, docs, max_sub=2 if quick else 4, n0=1 if quick else 2, nw=3 if quick else 6,
               seen_rate=0.25 if quick else 0.3)
    check_indentation_domain(ctx)
    return ctx.finish(
        rule="documents: fixed cases (incl. siblings with identical content, non-ASCII white space) + random mixed-content documents of depth <= 3 (now and then the last child repeats the content of an earlier text / comment / PI that is directly followed by a node; word separators now and then with U+00A0 / U+2003 / U+2009 / U+3000; texts with words whose ends are "
             "biased to width-1/width/width+1, long unbreakable words, escaped characters, comments/PIs between texts, "
             "empty elements, attributes, xml:space preserve/default/invalid at any depth, preserved content with "
             "newlines, preserved elements with nested children holding runs of spaces inside inline elements that fit the line) + conventionally laid out documents + chains of 9-12 nested elements; parsed with reduce_whitespace; serialized from the root and "
             "from sampled sub-trees with indentation in {'', ' ', '  ', '\\t', ' \\t', '\\n', ' \\n', '\\n '} x width in {0..12, 20, 40, 80} x "
             "align in {F, T} (option sets drawn per tree; widths biased to the document's word lengths); indentations "
             "with a newline ('\\n', ' \\n', '\\n ') take part in the grid at every width, and ('\\t\\n', '\\n\\n' too) "
             "dedicated documents are biased to them (text ending in a space before an element, at depth 1-5; mixed documents); mixed and "
             "conventionally laid out documents with elements in 3 and attributes in 2 namespaces, run through the models "
             "as their qualified view (Ws/Qualified.v) with the prefix table and declarations read off the real plain "
             "serialization (root and sub-trees; re-read with the real namespace-aware parser); mixed documents parsed "
             "without reduction, with 1-4 text nodes attached next to their text nodes through the API, then reduced with "
             "Document.reduce_whitespace(). The reduced document itself must be in normal form (reduce_model t = t). "
             "The indentation's domain (fixed): 3 documents x 12 indentation strings with white space that is none in XML (U+00A0, U+2003, U+3000, VT, FF, NEL, U+2028, FS, alone and mixed) x 6 of XML white space (incl. CR) x width {0, 5, 40} x align x {node.serialize, str(document), str(node), Document.write, Document.save}: the former must raise ValueError (an output that is returned must read back as the tree), the latter must read back as the tree. "
             "One evaluation = one (tree, options) output compared byte for byte with the model and re-read through the "
             "real parser with ParserOptions(reduce_whitespace=True); a sample is also compared at the parsed-tree level. "
             "Non-trivial = the formatted output differs from the plain serialization; distinct by (tree, options).",
        replay_open=replay_open)


if __name__ == "__main__":
    common.main(run, "C03")
