"""C02 - serialize then parse gives back the same document model."""
import json
import re

import common
from common import cnode, cstr, clist, enc_node, dec_node
import impl
from impl import Document, extract, build, no_gc
import nsgen
from nsgen import (gen_src, gen_api_tree, gen_map, gen_redeclare_case, caller_term, recorded_order, ord_term,
                   real_serialize)

XML_NS = impl.XML_NS
XMLNS_NS = "http://www.w3.org/2000/xmlns/"
REQ = ("From Coq Require Import List NArith.\nFrom Delb.Base Require Import PyStr PyDict.\n"
       "From Delb.Tree Require Import ATree Encode Merge.\nFrom Delb.Ns Require Import Namespaces Prefixes.\n"
       "From Delb.Xml Require Import Plain Reader.\n")
GENLIKE = re.compile(r"ns[0-9]+\Z")
XML_WS = " \t\n\r"


def tuple_tree(t):
    if t[0] == "tag":
        return ("tag", t[1], t[2], [tuple(a) for a in t[3]], [tuple_tree(c) for c in t[4]])
    return tuple(t)


def mapping_of(j):
    return None if j is None else {k: v for k, v in j}


def mapping_json(m):
    return None if m is None else [[k, v] for k, v in m.items()]


def merge(t):
    """adjacent text nodes concatenated, empty ones dropped (Tree/Merge.v merge_tree)"""
    if t[0] != "tag":
        return t
    kids = []
    for c in t[4]:
        if c[0] == "text":
            if c[1] == "":
                continue
            if kids and kids[-1][0] == "text":
                kids[-1] = ("text", kids[-1][1] + c[1])
                continue
            kids.append(c)
        else:
            kids.append(merge(c))
    return ("tag", t[1], t[2], t[3], kids)


def walk(t):
    yield t
    if t[0] == "tag":
        for c in t[4]:
            yield from walk(c)


def lxml_tree(e):
    """content tree of an lxml element, names presented as delb presents them (an un-prefixed attribute gets the
    default namespace in scope), attributes sorted"""
    from lxml import etree
    if e.tag is etree.Comment:
        return ("comment", e.text or "")
    if e.tag is etree.PI:
        return ("pi", e.target, e.text or "")
    q = etree.QName(e)
    dflt = e.nsmap.get(None) or ""
    attrs = []
    for k, v in e.attrib.items():
        aq = etree.QName(k)
        attrs.append((aq.namespace or dflt, aq.localname, v))
    kids = []
    if e.text:
        kids.append(("text", e.text))
    for c in e:
        kids.append(lxml_tree(c))
        if c.tail:
            kids.append(("text", c.tail))
    return ("tag", q.namespace or "", q.localname, sorted(attrs), kids)


def lxml_read(s):
    from lxml import etree
    try:
        e = etree.fromstring(s.encode("utf-8"), etree.XMLParser(resolve_entities=False, no_network=True))
    except Exception:  # noqa: BLE001   (XMLSyntaxError, ValueError, encoding errors: lxml does not read it)
        return None
    try:
        return lxml_tree(e)
    except Exception:  # noqa: BLE001
        # libxml2 only warns about an attribute with an undeclared prefix (<a p:k="v"/>) and keeps the name "p:k";
        # such a document is not namespace-well-formed: counted as rejected, as the reference reader does
        return None


def presented_duplicates(t):
    """two attributes of one element coincide as delb presents them (<b xmlns="u" xmlns:p="u" j="" p:j=""/>): legal XML,
    but the content model (a mapping keyed by presented name) is not defined; the reference reader rejects it"""
    if t is None or t[0] != "tag":
        return False
    keys = [(a[0], a[1]) for a in t[3]]
    return len(set(keys)) != len(keys) or any(presented_duplicates(c) for c in t[4])


def sort_attrs(t):
    if t[0] != "tag":
        return t
    return ("tag", t[1], t[2], sorted(t[3]), [sort_attrs(c) for c in t[4]])


# ------------------------------------------------------------------------------------------------ findings
def store_mismatch(src):
    """13b/13e: an attribute stored under {ns}name whose namespace is the default namespace in scope"""
    from lxml import etree
    try:
        e = etree.fromstring(src.encode("utf-8"))
    except Exception:  # noqa: BLE001
        return False
    for d in e.iter():
        if isinstance(d.tag, str):
            dflt = d.nsmap.get(None)
            if dflt and any(etree.QName(k).namespace == dflt for k in d.attrib):
                return True
    return False


def default_scope_attr(src):
    """13a/13c/13d: an un-prefixed attribute on an element that is in scope of a default namespace declaration"""
    from lxml import etree
    try:
        e = etree.fromstring(src.encode("utf-8"))
    except Exception:  # noqa: BLE001
        return False
    return any(isinstance(d.tag, str) and d.nsmap.get(None) and any(not etree.QName(k).namespace for k in d.attrib)
               for d in e.iter())


def lxml_level_class(case):
    """13a/13c/13d: some attribute's namespace as lxml holds it differs from the namespace its written name resolves
    to - an un-prefixed attribute presented in a default namespace that is written with a prefix, or a prefixed
    attribute whose namespace is written as the default namespace.  Decided from the input: the prefix table is a
    function of (tree, mapping, iteration order)."""
    from lxml import etree
    with no_gc():
        try:
            root = nsgen.make_root(case, lambda t: build(tuple_tree(t)))
            kind, table = nsgen.real_prefixes(root, mapping_of(case.get("mapping")))
            if kind != "ok":
                return False
            pm = dict(table)
            for node in nsgen.bfs_tags(root):
                for a in node.attributes.values():
                    presented = a.namespace or ""
                    written = presented if pm.get(presented, "") != "" else ""
                    stored = [etree.QName(k).namespace or "" for k in node._etree_obj.attrib
                              if etree.QName(k).localname == a.local_name]
                    if written not in stored:
                        return True
        except Exception:  # noqa: BLE001
            return False
    return False


def classify(finding, case):
    cls = finding["cls"]
    t = tuple_tree(case["tree"]) if case.get("tree") else None
    if cls == "caller-prefix-looks-generated":
        return any(p and GENLIKE.match(p) for p in (mapping_of(case.get("mapping")) or {}))
    if cls == "attribute-store-mismatch":
        return case.get("route") == "parse" and store_mismatch(case["src"])
    if cls == "lxml-level-attribute-namespace":
        return lxml_level_class(case)
    if t is None:
        return False
    nodes = list(walk(t))
    if cls == "empty-text-node":
        return any(n[0] == "text" and n[1] == "" for n in nodes)
    if cls == "pi-content-leading-whitespace":
        return any(n[0] == "pi" and n[2][:1] and n[2][0] in XML_WS for n in nodes)
    if cls == "namespace-uri-not-escaped":
        return any(n[0] == "tag" and any(c in ns for c in "&<\"" for ns in [n[1]] + [a[0] for a in n[3]]) for n in nodes)
    if cls == "element-in-xmlns-namespace":
        return any(n[0] == "tag" and n[1] == XMLNS_NS for n in nodes)
    if cls == "attribute-named-xmlns":
        return any(n[0] == "tag" and any((a[0] == "" and a[1] == "xmlns") or a[0] == XMLNS_NS for a in n[3]) for n in nodes)
    return False


# ------------------------------------------------------------------------------------------------ mutations
def mutate(rng, s):
    kind = rng.choice(["truncate", "quote", "lt", "amp", "delete", "dup", "gt", "space", "apos-all", "cdata", "ref"])
    if not s:
        return kind, s
    i = rng.randrange(len(s))
    if kind == "truncate":
        return kind, s[:i]
    if kind == "quote":
        qs = [j for j, c in enumerate(s) if c in "\"'"]
        if not qs:
            return kind, s
        j = rng.choice(qs)
        return kind, s[:j] + ("'" if s[j] == '"' else '"') + s[j + 1:]
    if kind == "lt":
        return kind, s[:i] + "<" + s[i:]
    if kind == "amp":
        return kind, s[:i] + "&" + s[i:]
    if kind == "gt":
        return kind, s[:i] + ">" + s[i:]
    if kind == "delete":
        return kind, s[:i] + s[i + 1:]
    if kind == "dup":
        return kind, s[:i] + s[i] + s[i:]
    if kind == "space":
        return kind, s[:i] + rng.choice([" ", "\n", "\t"]) + s[i:]
    if kind == "apos-all":
        # every attribute delimiter becomes an apostrophe where the value allows it
        return kind, re.sub(r'="([^"\']*)"', r"='\1'", s)
    if kind == "cdata":
        return kind, s[:i] + "<![CDATA[x<&]]>" + s[i:]
    return kind, s[:i] + rng.choice(["&#65;", "&#x42;", "&apos;", "&#0;", "&#xZ;", "&nbsp;", "&#55296;"]) + s[i:]


_decl = re.compile(r"xmlns(?::[^\s=]*)?\s*=\s*(?:\"([^\"]*)\"|'([^']*)')")


def reader_supported(s, uris=None):
    """inputs the reference reader is specified for: no CR (excluded by the property), no DOCTYPE / XML declaration;
    namespace names are not validated as URI references by the reader (libxml2 does), so a mutant must keep the
    declared namespace names of the output it was made from"""
    if "\r" in s or "<!DOCTYPE" in s or s.startswith("<?xml"):
        return False
    if uris is not None:
        return all((a or b) in uris for a, b in _decl.findall(s)) and s.count("xmlns") == len(_decl.findall(s))
    return True


def lxml_true(e):
    """element and attribute names as lxml holds them (no presentation rule), for the lxml-level comparison"""
    from lxml import etree
    if not isinstance(e.tag, str):
        return None
    return (e.tag, sorted(e.attrib.items()), [x for x in (lxml_true(c) for c in e) if x is not None])


# ------------------------------------------------------------------------------------------------ one batch
def observe(case):
    m = mapping_of(case["mapping"])
    with no_gc():
        try:
            root = nsgen.make_root(case, lambda t: build(tuple_tree(t)))
        except Exception:  # noqa: BLE001   (the parser / the API refuses the generated input: not a case)
            return None
        try:
            t = extract(root)
        except KeyError:
            return {"keyerror": True}
        ordl = recorded_order(root)
        ser = real_serialize(root, m)
        true0 = lxml_true(root._etree_obj)
        back = None
        if ser[0] == "ok":
            try:
                back = ("ok", extract(Document(ser[1]).root))
            except Exception as e:  # noqa: BLE001
                back = ("exc", type(e).__name__)
    return {"t": t, "ord": ordl, "ser": ser, "m": m, "back": back, "true0": true0}


def check_cases(ctx, cases):
    observed = [observe(c) for c in cases]
    terms, plan = [], []
    for c, o in zip(cases, observed):
        if o is None or o.get("keyerror"):
            plan.append(None)
            continue
        entry = {"ser": len(terms)}
        terms.append("enc_res_str (serialize %s %s %s)" % (caller_term(o["m"]), ord_term(o["ord"]), cnode(o["t"])))
        if o["ser"][0] == "ok" and reader_supported(o["ser"][1]):
            out = o["ser"][1]
            entry["parse"] = len(terms)
            terms.append("enc_opt_node (parse %s)" % cstr(out))
            muts = []
            uris = set(a or b for a, b in _decl.findall(out))
            for _ in range(2):
                kind, ms = mutate(ctx.rng, out)
                if reader_supported(ms, uris) and len(ms) < 400:
                    muts.append((kind, ms, len(terms)))
                    terms.append("enc_opt_node (parse %s)" % cstr(ms))
            entry["muts"] = muts
        plan.append(entry)
    vals = nsgen.coq_eval_retry(ctx, "c02", REQ, terms, chunk=120)
    for c, o, e in zip(cases, observed, plan):
        case = {"route": c["route"], "mapping": c["mapping"], "src": c.get("src"), "tree": c.get("tree")}
        if c["route"] == "moved":
            case.update(child=c["child"], at=c["at"])
        if o is None:
            ctx.count(1, "not-a-document")
            continue
        if o.get("keyerror"):
            ctx.count(1, c["route"] + "/KeyError")
            ctx.fail("the attribute mapping of the parsed tree raises KeyError: the document has no content model to "
                     "serialize", case, classify)
            continue
        ctx.count(1, c["route"] + "/" + ("none" if o["m"] is None else "mapping"))
        sk, sv = o["ser"]
        v_ser = vals[e["ser"]]
        if v_ser is None:
            ctx.mismatch("model evaluation", "coqc failed on the case file")
            continue
        # ---- (a) the model of the serializer, byte for byte --------------------------------------------
        exp = [0] + [ord(x) for x in sv] if sk == "ok" else \
            {"ValueError": [1], "AssertionError": [2], "InvalidCodePath": [5]}.get(sv, [3])
        if v_ser != exp:
            ctx.mismatch("serialize (model) vs TagNode.serialize", {
                "case": case, "impl": o["ser"], "model": "".join(chr(x) for x in v_ser[1:]) if v_ser[0] == 0 else v_ser})
        want = merge(o["t"])
        specials = sum(1 for n in walk(o["t"]) for s in ([n[1]] if n[0] == "text" else [a[2] for a in n[3]] if n[0] == "tag" else [])
                       if any(ch in s for ch in "&<>\"'") or any(ord(ch) > 127 for ch in s))
        n_ns = len(set(n for l in o["ord"] for n in l))
        if specials or n_ns >= 2 or o["m"]:
            ctx.nontrivial_case((o["t"], sorted((str(k), v) for k, v in (o["m"] or {}).items())))
        ctx.sample({"case": case, "output": sv})
        # ---- (c) the property on the implementation ----------------------------------------------------
        if sk == "exc":
            if sv == "ValueError":
                continue                      # the mapping is refused by Namespaces: no serialization asked for
            ctx.fail("serialize raised %s" % sv, case, classify)
            continue
        fails = []
        if o["back"][0] == "exc":
            fails.append("the output is not re-read by Document(): %s" % o["back"][1])
        elif merge(o["back"][1]) != want:
            fails.append("Document(output) differs from the original content model")
        lx = lxml_read(sv)
        if lx is None:
            fails.append("the output is not (namespace-)well-formed XML for lxml")
        elif lx != want:
            fails.append("lxml.etree.fromstring(output) differs from the original content model")
        else:
            from lxml import etree
            try:
                true1 = lxml_true(etree.fromstring(sv.encode("utf-8")))
            except Exception as ex:  # noqa: BLE001
                true1 = ("unreadable", type(ex).__name__)
            if true1 != o["true0"]:
                fails.append("lxml level: the expanded attribute names held by lxml differ after the round trip "
                             "(equal as presented by delb)")
        if "parse" in e:
            v_parse = vals[e["parse"]]
            if v_parse is None:
                ctx.mismatch("reader evaluation", "coqc failed on the case file")
            else:
                got = None if v_parse == [0] else sort_attrs(dec_node(v_parse, 1)[0])
                # ---- (b) the reference reader against lxml on the serializer's output ----------------------
                if presented_duplicates(lx):
                    ctx.count(0, "skipped/presented-duplicate-attributes")
                elif got != lx:
                    ctx.mismatch("Reader.parse vs lxml on serializer output", {"input": sv, "reader": got, "lxml": lx})
                if got != want:
                    fails.append("the reference reader (Xml/Reader.v parse, evaluated in Coq) does not give back the "
                                 "original content model")
            for kind, ms, idx in e.get("muts", []):
                v = vals[idx]
                ctx.count(1, "mutated/" + kind)
                if v is None:
                    ctx.mismatch("reader evaluation", "coqc failed on a mutated input")
                    continue
                got = None if v == [0] else sort_attrs(dec_node(v, 1)[0])
                lxm = lxml_read(ms)
                if presented_duplicates(lxm):
                    ctx.count(0, "skipped/presented-duplicate-attributes")
                elif got != lxm:
                    ctx.mismatch("Reader.parse vs lxml on mutated input (%s)" % kind, {"input": ms, "reader": got, "lxml": lxm})
        for f in fails[:1]:
            ctx.fail(f, dict(case, output=sv, original=want), classify)


WITNESS_CHECK = {
    "caller-prefix-looks-generated": lambda o: o["ser"] == ("exc", "AssertionError"),
    "attribute-store-mismatch": lambda o: o.get("keyerror") or o["ser"] == ("exc", "KeyError"),
    "empty-text-node": lambda o: o["ser"] == ("exc", "InvalidCodePath"),
    "lxml-level-attribute-namespace": lambda o: o["ser"][0] == "ok" and lxml_true(
        __import__("lxml.etree").etree.fromstring(o["ser"][1].encode("utf-8"))) != o["true0"],
}


def replay_open(f):
    w = f["witness"]
    o = observe(w)
    if o is None:
        return False
    chk = WITNESS_CHECK.get(f["cls"])
    if chk:
        return bool(chk(o))
    if o.get("keyerror") or o["ser"][0] != "ok":
        return True
    return o["back"][0] == "exc" or merge(o["back"][1]) != merge(o["t"]) or lxml_read(o["ser"][1]) != merge(o["t"])


def fixed_cases():
    srcs = ['<r a="&amp;&lt;&gt;&quot;\'">&amp;&lt;&gt;"\']]&gt;<![CDATA[<c>&]]>ü€𝄞</r>',
            '<r xmlns="u1"><a xmlns="" k="v"/><b xmlns="u2" j="w"/></r>',
            '<p:r xmlns:p="u1" p:k="1" k="2"><a/><q:b xmlns:q="u2" q:k="v"/><!-- c --><?t p?></p:r>',
            '<TEI xmlns="t"><p n="1" xml:lang="en">x<hi>y</hi> z</p></TEI>',
            '<r><a xmlns="u1"><b xmlns="u2"/></a></r>', '<r>a<!--x-->b<?p q?>c</r>']
    maps = [None, {}, {None: "u1"}, {"": "u2"}, {"p": "u1"}, {"tei": "t"}, {"ns0": "u2"}, {"p": "u1", "q": "u2"},
            {"xmldsig": "u1"}, {"xmlsec": "u2", "xm": "u1"}, {"xmlx": "t", "x": "u2"}]
    amp = nsgen.AMP_URI
    out0 = [{"route": "parse", "src": '<p:r xmlns:p="%s" xmlns:q="a&amp;b" q:k="v"><p:a/><b/></p:r>' % amp.replace("&", "&amp;"),
             "mapping": mapping_json(m)} for m in (None, {"p": amp}, {None: amp}, {"z": "a&b"})]
    out = out0 + [{"route": "parse", "src": s, "mapping": mapping_json(m)} for s in srcs for m in maps]
    out.append({"route": "moved", "src": '<x xmlns="d"/>', "child": '<b k="v"/>', "at": 0, "mapping": None})     # 13a
    out.append({"route": "parse", "src": '<r:root xmlns:r="u:r" xmlns:d="u:d"><d:item><plain/></d:item></r:root>',
                "mapping": [["r", "u:r"], [None, "u:d"]]})
    for parts in (("]]", ">"), ("a]", "]>b"), ("]", "]", ">"), ("data[i[0]]", "> 0")):
        out.append({"route": "api", "mapping": None,
                    "tree": ("tag", "", "r", [], [("text", x) for x in parts] + [("tag", "", "a", [], [("text", x) for x in parts])])})
    api = [("tag", "", "r", [], [("text", "a"), ("text", "b"), ("tag", "u1", "x", [("u2", "k", 'v"<')], [])]),
           ("tag", "u1", "r", [("", "k", "&amp;")], [("pi", "t", ""), ("comment", ""), ("text", "]]>")])]
    return out + [{"route": "api", "tree": t, "mapping": None} for t in api]


def run(ctx, args):
    ctx.regen(["GenWs.v", "GenNames.v", "GenNs.v", "GenValidators.v", "GenNsValidators.v"])
    ctx.build("Props/C02.vo")
    if args.replay:
        with open(args.replay) as f:
            rep = json.load(f)
        case = rep.get("case")
        if case:
            check_cases(ctx, [{k: case.get(k) for k in ("route", "mapping", "src", "tree", "child", "at") if k in case}])
        return ctx.finish("replay of " + args.replay, level="proof", replay_open=replay_open, explanation=EXPLANATION)
    quick = ctx.tier == "quick"
    nsgen.check_validators(ctx, REQ)
    cases = fixed_cases()
    n = 420 if quick else 9000
    for i in range(n):
        m = mapping_json(gen_map(ctx.rng, colliding=ctx.rng.random() < 0.3))
        r = ctx.rng.random()
        if r < 0.08:
            src, mm = gen_redeclare_case(ctx.rng)
            cases.append({"route": "parse", "src": src, "mapping": mapping_json(mm)})
        elif r < 0.16:
            cases.append(dict(nsgen.gen_moved_case(ctx.rng), mapping=m))
        elif r < 0.55:
            cases.append({"route": "parse", "src": gen_src(ctx.rng, rich=True), "mapping": m})
        else:
            cases.append({"route": "api", "tree": gen_api_tree(ctx.rng, special=ctx.rng.random() < 0.1), "mapping": m})
    check_cases(ctx, cases)
    return ctx.finish(
        rule="(document, caller mapping) pairs: documents parsed from generated XML (nested prefix/default declarations, "
             "text and attribute values out of & < > \" ' ]]> CDATA sections, non-ASCII incl. astral, TAB/LF in text, comments, "
             "PIs) or built through the API (any namespace on any element/attribute, adjacent text nodes, the same special "
             "strings un-escaped), depth <= 3; 10% of the API trees carry one of: empty text node, PI content with leading "
             "white space, '&' in a namespace URI, attribute named xmlns; mappings: None, {}, default, prefixes, clashing. "
             "8% are trees made by a move (a copy of one parsed document's root appended below an element of another: un-namespaced "
             "nodes under a default namespace, finding 13a). Every output is read by Document(), lxml and the Coq reference reader; two mutants per output (truncation, "
             "swapped quote, stray < & >, deleted/duplicated character, inserted white space / CDATA / references) are read by "
             "the Coq reader and lxml. Non-trivial = special characters present, >= 2 namespaces, or a non-empty mapping.",
        level="proof", replay_open=replay_open, explanation=EXPLANATION)


EXPLANATION = ("Proof: Props/C02.v C02_roundtrip (all well-formed trees, all accepted caller mappings "
               "with NCName prefixes, all iteration orders) over the serializer model and the reference reader, rebuilt by this "
               "run. Correspondence: model vs TagNode.serialize byte for byte; reference reader vs lxml on outputs and mutants. "
               "Search: serialize -> {Document(), lxml, Coq reader} == original content model (presented names, merged text), "
               "plus the lxml-level comparison of stored attribute names.")


if __name__ == "__main__":
    common.main(run, "C02")
