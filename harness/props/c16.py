"""C16 - any string is either a parsed XPath expression or an XPathParsingError.

regen (Gen/GenXPath.v from /repo) -> build Props/C16.vo -> correspondence (Gallina model of tokenizer +
parser evaluated by vm_compute through ctx.coq_eval against _delb.xpath.parse: outcome class, exception
type, position, message, str(exception), AST) -> cache half (random histories of earlier parse / evaluate
calls; cached vs fresh ASTs and evaluation results) -> direct search on the implementation alone (any
exception that is not an XPathParsingError escaping parse(s), a position outside the expression, a
message that does not render) -> known findings, evidence.

The model is evaluated inside Coq only (no OCaml extraction); the direct search needs no model."""
import json
import os
import sys
import time

import common
from common import cstr
import impl  # noqa: F401  (puts /repo on sys.path, silences warnings)
import xpath_ast

from _delb.xpath import parse as rparse
from _delb.xpath.tokenizer import tokenize as rtokenize
from _delb.exceptions import XPathParsingError, XPathUnsupportedStandardFeature
from _delb.names import Namespaces

REQ = ("From Coq Require Import List NArith.\nFrom Delb.Base Require Import PyStr.\n"
       "From Delb.XPath Require Import ParseEnc.\n")

XCLASS = ["IndexError", "KeyError", "AssertionError", "ValueError", "NotImplementedError"]
NESTING_MODELLED = 200       # up to this bracket nesting the interpreter must not run out of stack (recursion limit 1000)
NESTING_OVERFLOW = 3000      # from this nesting on it certainly does: the outcome must be the model's parse_under true

# ------------------------------------------------------------------------------------------------
# inputs

VOC = ["a", "b", "node", "text", "comment", "processing-instruction", "last", "position", "not", "contains",
       "concat", "starts-with", "boolean", "foo", "child", "self", "ancestor-or-self", "following",
       "preceding-sibling", "descendant_or-self", "evaluate", "generator", "__class__", "__slots__", "__doc__",
       "__dict__", "and", "or", "/", "//", ".", "..", "::", ":", "*", "@", "[", "]", "(", ")", ",", "|", "=", "!=",
       "<", "<=", ">", ">=", "+", "-", "1", "23", "007", "'s'", '"t"', "'", '"', " ", "\n", "\t", "$", "#", "ä",
       "é1", "\\", "a-b", "a.b", "٣", "٣٤", "'a\\'b'", "'\\", "·", "̀", "‿",
       "\U00010000x", "×", "÷", "Ⅰ", "!", "\r", " ", "{", "}", "~", "༳", "²", "〇"]
VALID = ["a", "a/b", "//a", "./a", "../a", "a[1]", "a[@k]", "a[@k='v']", "a[@p:k]", "a[last()]", "a[position()=1]",
         "a[not(@k)]", "a[contains(@k,'v')]", "a[@k and @j]", "a[@k or 1=1]", "p:a", "p:*", "*", "text()", "comment()",
         "processing-instruction()", "processing-instruction('x')", "node()", "self::a",
         "descendant-or-self::node()", "a|b", "/a/b[1][@k]", "a[(1)]", "a[concat('a','b')='ab']", "/*",
         "a[starts-with(@k,\"x\")]", "ancestor::p:*[2]", "following-sibling::text()[1]", "a[@k!='v' and not(@j<=3)]",
         "//p:a[boolean(@k)]/..", "a [ 1 ] / b", "äö/ü[@é='è']", "a[text()='x']",
         "/", "a[@k>=1][@j<2]|//c", "preceding::*", "a[concat(@a,'b',\"c\")]", "parent::node()/child::a"]


def soup(rng):
    return "".join(rng.choice(VOC) for _ in range(rng.randint(0, 8)))


def real_tokens(s):
    try:
        return [t.string for t in rtokenize.__wrapped__(s)]
    except Exception:  # noqa: BLE001
        return None


def mutate(rng):
    s = rng.choice(VALID)
    q = rng.random()
    if q < .2:
        return s[:rng.randint(0, len(s))]                                   # truncation
    if q < .4:
        i = rng.randint(0, len(s))
        return s[:i] + rng.choice(VOC) + s[i:]                              # insertion of a vocabulary item
    if q < .5:
        i = rng.randint(0, max(0, len(s) - 1))
        return s[:i] + s[i + 1:]                                            # deletion of a character
    if q < .8:                                                              # single-token mutations
        toks = real_tokens(s) or list(s)
        i = rng.randrange(len(toks)) if toks else 0
        r = rng.random()
        if not toks:
            return s
        if r < .4:
            toks[i] = rng.choice(VOC)
        elif r < .7:
            del toks[i]
        else:
            toks.insert(i, toks[i])
        return rng.choice(["", " "]).join(toks)
    return s + rng.choice(["/", "|", "[", "]", "(", ")", " ", "//", "::", ","]) + rng.choice(VALID + [""])


def brackets(rng):
    base = rng.choice(VALID)
    extra = "".join(rng.choice("[]()") for _ in range(rng.randint(1, 4)))
    i = rng.randint(0, len(base))
    return base[:i] + extra + base[i:]


def unknowns(rng):
    name = rng.choice(["foo", "count", "string-length", "lang", "x.y", "ä", "last", "text", "comment", "node",
                       "processing-instruction", "not", "position", "concat", "contains", "boolean", "starts-with"])
    arg = rng.choice(["", "1", "'a'", "@k", "1,2", "'a','b','c'", "@a,@b", "x", "(1)", ",", "1,", ",1", "1 or"])
    axis = rng.choice(["child", "attribute", "namespace", "descendant-or-self", "foo", "self", "evaluate", "generator",
                       "__init__", "__hash__", "__doc__", "ancestor_or-self", "preceding-sibling", "x-y", "Child"])
    r = rng.random()
    if r < .3:
        return "a[%s(%s)]" % (name, arg)
    if r < .5:
        return "%s(%s)" % (name, arg)
    if r < .7:
        return "%s::%s" % (axis, rng.choice(["a", "*", "node()", "p:a", "", "text()", "%s(%s)" % (name, arg)]))
    if r < .85:
        return "a/%s(%s)/b" % (name, arg)
    return "%s::%s[%s(%s)]" % (axis, rng.choice(["a", "*"]), name, arg)


def unicode_names(rng):
    pool = ["ä", "Öx", "αβ", "中文", "a·b", "à", "‿a", "x⁀", "٣",
            "\U00010400", "\U000effff", "퟿", "豈", "�", "￾", "Ⰰ", "↏", "←", ";",
            "Ϳ", "‌", "​", "　", "、", "_", "-a", ".a", "a.", "a-", "À", "×", "ø"]
    n = lambda: rng.choice(pool)  # noqa: E731
    return rng.choice(["%s", "%s/%s", "%s:%s", "//%s[@%s='%s']", "%s::%s", "%s[%s(@%s)]", "%s[%s]", "%s %s",
                       "'%s%s'"]).replace("%s", "{}").format(n(), n(), n())


def numbers(rng):
    d = rng.choice(["0", "1", "9", "٣", "०", "１", "\U0001d7d8", "௦"])
    n = "".join(rng.choice([d, rng.choice("0123456789")]) for _ in range(rng.randint(1, 12)))
    return rng.choice(["a[%s]", "a[@k=%s]", "a[%s=%s]", "a[%s", "%s", "a[position()<%s]"]).replace("%s", n)


FAMILIES = [("soup", soup, 30), ("mutation", mutate, 30), ("brackets", brackets, 10), ("unknown-names", unknowns, 14),
            ("unicode", unicode_names, 10), ("numbers", numbers, 6)]


def gen_case(rng):
    total = sum(w for _, _, w in FAMILIES)
    x = rng.randrange(total)
    for name, fn, w in FAMILIES:
        if x < w:
            return name, fn(rng)
        x -= w
    raise AssertionError


FIXED = ["", " ", "a", "a/", "/", "//", "self::node()[1]/", "last()", "a]", "a[1 or]", "a[=]", "foo(1)", "comment(1)",
         "a[f(,)]", "a[concat('a',)]", "a[1,]", "a)", "a[(]", "a[)]", "(", "a[]", "a()", "a[()]", "@a", "@a/", "a/@b", ".::",
         "x::", "::", "a::b::c", "p:", ":a", "p::*", "a[1][2][3]", "a[1]b", "a[1]]", "a|", "|a", "a||b", "|", "a[or]",
         "a[1 or or 2]", "a[1 = or 2]", "a[1 or 2 and 3 = 4]", "a[(1 or 2)]", "a[not((@a))]", "a[\"x]", "a['x\\']",
         "a['x\\\n']", "'", "a[concat()]", "a[concat(1)]", "a[contains(1)]", "a[last(1)]", "a[text(1)]",
         "processing-instruction(('a'))", "processing-instruction(abc)", "processing-instruction('a' 'b')",
         "processing-instruction('a')[1]", "a[processing-instruction('a')]", "a[processing-instruction()]",
         "evaluate::a", "__class__::a", "__dict__::p:*", "__hash__::a", "generator::a", "ancestor_or-self::a",
         "a[" + "1" * 40 + "]", "a[٣٤]", "a[1 2]", "a[@]", "a[@1]", "a[@a:]", "a[@a:b:c]", "a[.]", "a[..]",
         "a[*]", "a[b]", "a[b/c]", "a[//b]", "a[1]/", "a[1]//", "a//", "a/|b", "a|b/", "/|/", "a[b|c]", "a[1|2]"]


# ------------------------------------------------------------------------------------------------
# the implementation

PARSE_BUDGET = 5            # seconds one parse() may take in this process before it counts as not terminating


def budget_for(s):
    """grouping is quadratic in the nesting depth, so the very long nested inputs of the overflow cases get more time"""
    return PARSE_BUDGET + len(s) / 50.0


class ParseTimeout(BaseException):
    pass


def _alarm(signum, frame):
    raise ParseTimeout()


def real_outcome(s, fresh=True):
    """('ok', enc_ast) | ('xpe', position, unsupported, message, str(e), problems) | ('crash', type name)
    | ('timeout',)  -- the call did not return within PARSE_BUDGET seconds (SIGALRM; the regex engine and the
    interpreter both poll for signals, and the inputs most likely to hang are first run in a child process
    by termination_probe, which cannot hang this process)"""
    import signal
    if fresh:
        rparse.cache_clear()
        rtokenize.cache_clear()
    old = signal.signal(signal.SIGALRM, _alarm)
    signal.setitimer(signal.ITIMER_REAL, budget_for(s))
    try:
        try:
            ast = rparse(s)
        finally:
            signal.setitimer(signal.ITIMER_REAL, 0)
            signal.signal(signal.SIGALRM, old)
    except ParseTimeout:
        return ("timeout",)
    except XPathParsingError as e:
        problems = []
        try:
            rendered = str(e)
            if not isinstance(rendered, str):
                problems.append("str(e) is not a string")
        except Exception as x:  # noqa: BLE001
            rendered = None
            problems.append("str(e) raises %s" % type(x).__name__)
        if e.expression != s:
            problems.append("e.expression is not the expression")
        if not isinstance(e.position, int) or isinstance(e.position, bool) or not (0 <= e.position <= len(s)):
            problems.append("position %r outside the expression" % (e.position,))
        if not isinstance(e.message, str):
            problems.append("message is not a string")
        if type(e) not in (XPathParsingError, XPathUnsupportedStandardFeature):
            problems.append("unexpected subclass %s" % type(e).__name__)
        return ("xpe", e.position, isinstance(e, XPathUnsupportedStandardFeature), e.message, rendered, problems)
    except RecursionError:
        return ("crash", "RecursionError")
    except Exception as e:  # noqa: BLE001
        return ("crash", type(e).__name__)
    try:
        return ("ok", xpath_ast.enc_ast(ast))
    except xpath_ast.NotRepresentable as e:
        return ("ok", ["not representable", str(e)])


def enc_real(r):
    if r[0] == "timeout":
        return [2, 98]
    if r[0] == "ok":
        return [0] + list(r[1])
    if r[0] == "xpe":
        out = [1, r[1], 1 if r[2] else 0] + common.enc_str(r[3] if isinstance(r[3], str) else "")
        return out + (common.enc_str(r[4]) if r[4] is not None else [])
    return [2, XCLASS.index(r[1]) if r[1] in XCLASS else 99]


def max_nesting(s):
    d = m = 0
    for c in s:
        if c in "[(":
            d += 1
            m = max(m, d)
        elif c in "])":
            d = max(0, d - 1)
    return m


# the nine defects this check found on the original tree, all repaired since (findings.d/C16.json, status fixed):
# kept as regression inputs; each must now be an XPathParsingError (or, for the axis names, a rejected axis)
REGRESSION = ["a/", "/", "//", "self::node()[1]/", "a/|b", "last()", "foo()", "a]", "a)", "a[1 or]", "a[=]", "a[or]",
              "foo(1)", "comment(1)", "a[f(,)]", "a[concat('a',)]", "__dict__::a", "__slots__::a", "__module__::a",
              "evaluate::a", "__class__::a", "ancestor_or_self::a", "ancestor_or-self::a"]


# names that are attributes / methods of an Axis object (or of every object), and underscore spellings of the real
# axes: Axis(name) must accept the eleven XPath axis names and nothing else (finding C16-attribute-as-axis, repaired)
NOT_AN_AXIS = ["evaluate", "generator", "__eq__", "__init__", "__class__", "__dict__", "__slots__", "__module__", "__repr__",
               "__hash__", "__doc__", "__new__", "__str__", "__getattribute__", "__reduce__", "__sizeof__", "__ne__",
               "ancestor_or_self", "descendant_or_self", "following_sibling", "preceding_sibling", "ancestor_or-self",
               "Child", "SELF", "attribute", "namespace", "_names", "x-y"]
MALFORMED_AXES = ["%s::%s" % (n, t) for n in NOT_AN_AXIS for t in ("a", "node()", "*")] + \
    ["a/%s::b" % n for n in NOT_AN_AXIS[:12]] + ["//%s::*[1]" % n for n in NOT_AN_AXIS[:12]]


def rejected_everywhere(ctx):
    """fixed, seed-independent: every string of the regression corpus and every `<not an axis>::test` must be rejected
    with XPathParsingError by parse() AND by NodeBase.xpath() (the second observation point of the property): neither
    may return, and no other exception type may escape"""
    doc = impl.Document('<r xmlns:p="urn:p"><a k="v"><b/>x</a><p:a/><!--c--></r>')
    for s in REGRESSION + MALFORMED_AXES:
        case = {"expression": s, "family": "rejected-everywhere"}
        r = real_outcome(s)
        ctx.count(1, "rejected/parse/" + (r[0] if r[0] != "crash" else "crash:" + r[1]))
        if r[0] in ("crash", "timeout") or (r[0] == "xpe" and r[5]):
            judge(ctx, case, r)
        elif r[0] == "ok":
            ctx.fail("parse(%r) returns an expression; it is not an XPath expression of the supported language "
                     "(regression corpus of the repaired findings: XPathParsingError expected)" % s, case)
        for node in (doc.root, doc.root[0]):
            try:
                res = node.xpath(s)
                what = "returned %d nodes" % len(list(res))
            except XPathParsingError:
                ctx.count(1, "rejected/xpath/xpe")
                continue
            except Exception as e:  # noqa: BLE001
                what = "raised %s" % type(e).__name__
            ctx.count(1, "rejected/xpath/" + what.split()[0])
            ctx.fail("NodeBase.xpath(%r) %s instead of raising XPathParsingError" % (s, what), dict(case, via="xpath"))


INDEPENDENCE_CHILD = r"""
import sys, json
sys.setrecursionlimit(10000)
from _delb.xpath import parse
from _delb.exceptions import XPathParsingError
import xpath_ast
def outcome(f, s):
    try:
        return ["ok", xpath_ast.enc_ast(f(s))]
    except XPathParsingError as e:
        return ["xpe", e.position, e.message, type(e).__name__]
    except BaseException as e:
        return ["crash", type(e).__name__]
for s in json.load(sys.stdin):
    print(json.dumps([s, outcome(parse.__wrapped__, s), outcome(parse.__wrapped__, s), outcome(parse, s), outcome(parse, s)]),
          flush=True)
"""


def independence_inputs():
    """fixed, seed-independent: every registered function with 0..4 arguments (most of them a wrong number), twice in
    different surroundings, so that a later string uses a function / argument count an earlier one was rejected or
    accepted with; then the regression corpus and the valid expressions"""
    from _delb.plugins import plugin_manager
    out = []
    for name in sorted(plugin_manager.xpath_functions) + ["foo"]:
        for k in range(5):
            args = ",".join(["@x", "1", "'s'", "@y", "2"][:k])
            out.append("//a[%s(%s)]" % (name, args))
            out.append("b[@k and %s(%s)]" % (name, ",".join(["'t'", "@z", "3", "4", "@w"][:k])))
            out.append("//a[%s(%s)]" % (name, args) + "/c")
    return out + REGRESSION + VALID + MALFORMED_AXES[:20]


def history_independence(ctx):
    """parsing is deterministic and independent of what was parsed before: in two fresh interpreters the same fixed list
    is parsed in opposite orders, every string four times (twice uncached through parse.__wrapped__, twice through the
    lru_cache); all eight outcomes of a string must be the same.  (State that survives parse.cache_clear(), e.g. a
    module-level memo, cannot be seen by comparing within this process, where earlier phases have already run.)"""
    import subprocess
    inputs = independence_inputs()
    env = dict(os.environ, PYTHONPATH=common.REPO + os.pathsep + os.path.join(common.VERIF, "harness"), PYTHONHASHSEED="0")
    seen = {}
    for label, order in (("forward", inputs), ("backward", inputs[::-1])):
        try:
            p = subprocess.run([common.PY, "-c", INDEPENDENCE_CHILD], input=json.dumps(order), capture_output=True,
                               text=True, env=env, timeout=300)
        except subprocess.TimeoutExpired:
            ctx.fail("parsing the fixed list did not finish within 300 s", {"family": "independence", "order": label})
            return
        lines = [l for l in p.stdout.splitlines() if l.startswith("[")]
        if len(lines) != len(order):
            ctx.mismatch("history independence child", {"order": label, "stderr": p.stderr[-600:], "lines": len(lines)})
            return
        for pos, line in enumerate(lines):
            rec = json.loads(line)
            s, outs = rec[0], rec[1:]
            ctx.count(1, "independence/" + outs[0][0])
            for name, o in zip(("first uncached parse", "second uncached parse", "first cached parse", "second cached parse"),
                               outs):
                key = (label, name)
                if s in seen and seen[s][1] != o:
                    ctx.fail("parse(%r) depends on what was parsed before: %s in the %s run gives %s, %s in the %s run gave %s"
                             % (s, name, label, str(o)[:120], seen[s][0][1], seen[s][0][0], str(seen[s][1])[:120]),
                             {"expression": s, "family": "independence", "order": label, "index": pos,
                              "parsed_before": order[max(0, pos - 6):pos]})
                    break
                seen.setdefault(s, (key, o))
    ctx.nontrivial_case(("independence", len(inputs)))


EXTENSION_CHILD = r"""
import sys, json, functools, inspect, operator
from _delb.plugins import plugin_manager
from _delb.xpath import parse
from _delb.exceptions import XPathParsingError
import delb

class Upper:                       # an instance of a class with __call__
    def __call__(self, context, string):
        return str(string).upper()
class Joiner:
    def __call__(self, context, *strings):
        return "".join(str(x) for x in strings)
class Methods:
    def pick(self, context, a, b):
        return a
def _prefixed(prefix, context, string):
    return prefix + str(string)
def _plain(context, a, b):
    return a

EXTENSIONS = {
    "vx-upper": Upper(),                                   # callable instance, one argument
    "vx-join": Joiner(),                                   # callable instance, *args
    "vx-prefixed": functools.partial(_prefixed, ">"),      # functools.partial, one argument left
    "vx-pick": Methods().pick,                             # bound method, two arguments
    "vx-contains": operator.contains,                      # C callable (a, b, /): context + one argument
    "vx-plain": _plain,                                    # an ordinary function, for comparison
}
for name, obj in EXTENSIONS.items():
    plugin_manager.register_xpath_function(name)(obj)

def accepted(obj, k):
    # the documented rule: the first parameter is the context, the others are the expression's arguments
    ps = list(inspect.signature(obj).parameters.values())
    if len(ps) > 1 and ps[-1].kind != inspect.Parameter.VAR_POSITIONAL:
        return len(ps) == k + 1
    return True

root = delb.Document("<r><a k='v'/><a/></r>").root
ARGS = ["@k", "'s'", "1", "@j", "'t'"]
for name, obj in EXTENSIONS.items():
    for k in range(5):
        call = "%s(%s)" % (name, ",".join(ARGS[:k]))
        for s in ("a[%s]" % call, "//a[%s='x' and @k]" % call, "a[not(%s)]" % call):
            want = "ok" if accepted(obj, k) else "xpe"
            got = []
            for label, f in (("parse", parse.__wrapped__), ("parse again", parse.__wrapped__), ("cached parse", parse)):
                try:
                    f(s); got.append("ok")
                except XPathParsingError as e:
                    try:
                        str(e); got.append("xpe")
                    except BaseException as x:
                        got.append("str(e) raises " + type(x).__name__)
                except BaseException as e:
                    got.append(type(e).__name__)
            via_xpath = None
            if want == "xpe":
                try:
                    root.xpath(s); via_xpath = "returned"
                except XPathParsingError:
                    via_xpath = "xpe"
                except BaseException as e:
                    via_xpath = type(e).__name__
            print(json.dumps({"s": s, "kind": type(obj).__name__, "args": k, "want": want, "got": got, "xpath": via_xpath}),
                  flush=True)
print(json.dumps({"done": True}), flush=True)
"""


def extension_functions(ctx):
    """XPath functions registered by the application (plugin_manager.register_xpath_function) need not be plain Python
    functions: a callable instance, a functools.partial, a bound method, a C callable.  Expressions calling them with the
    right number of arguments must parse, with a wrong number raise XPathParsingError (from parse() and from
    NodeBase.xpath()), never anything else.  Run in a child interpreter so that the registry of this process, the
    generated function table and the other phases are not affected."""
    import subprocess
    env = dict(os.environ, PYTHONPATH=common.REPO + os.pathsep + os.path.join(common.VERIF, "harness"), PYTHONHASHSEED="0")
    try:
        p = subprocess.run([common.PY, "-c", EXTENSION_CHILD], capture_output=True, text=True, env=env, timeout=300)
    except subprocess.TimeoutExpired:
        ctx.fail("parsing calls of registered extension functions did not finish within 300 s", {"family": "extension"})
        return
    recs = [json.loads(l) for l in p.stdout.splitlines() if l.startswith("{")]
    if not recs or not recs[-1].get("done"):
        ctx.mismatch("extension function child", {"stderr": p.stderr[-800:], "records": len(recs)})
        return
    for r in recs[:-1]:
        ctx.count(1, "extension/%s/%s" % (r["kind"], r["want"]))
        case = {"expression": r["s"], "family": "extension", "registered": r["kind"], "arguments": r["args"]}
        bad = [g for g in r["got"] if g != r["want"]]
        if bad:
            others = [g for g in r["got"] if g not in ("ok", "xpe")]
            if others:
                ctx.fail("parse(%r) raises %s instead of %s (the function is a registered %s)"
                         % (r["s"], others[0], "XPathParsingError" if r["want"] == "xpe" else "returning an expression",
                            r["kind"]), dict(case, exception=others[0]))
            else:
                ctx.fail("parse(%r) %s although the registered %s takes %s %d arguments"
                         % (r["s"], "is rejected" if r["want"] == "ok" else "returns an expression", r["kind"],
                            "" if r["want"] == "ok" else "not", r["args"]), dict(case, outcomes=r["got"]))
        elif r["xpath"] not in (None, "xpe"):
            ctx.fail("NodeBase.xpath(%r) %s instead of raising XPathParsingError" % (r["s"], r["xpath"]), dict(case, via="xpath"))
    ctx.nontrivial_case(("extension", len(recs)))


def replay_open(f):
    return False             # no open finding


# ------------------------------------------------------------------------------------------------
# correspondence + property on each case

def show(enc):
    """readable form of an encoded outcome (for replay files)"""
    try:
        if enc[0] == 1:
            n = enc[3]
            msg = "".join(chr(c) for c in enc[4:4 + n])
            rest = enc[4 + n:]
            text = "".join(chr(c) for c in rest[1:1 + rest[0]]) if rest else None
            return {"XPathParsingError": {"position": enc[1], "unsupported": bool(enc[2]), "message": msg, "str": text}}
        if enc[0] == 2:
            return {"crash": XCLASS[enc[-1]] if enc[-1] < len(XCLASS) else enc[-1], "site": enc[1] if len(enc) > 2 else None}
        if enc[0] == 0:
            return {"ok_ast_encoding": enc[1:80]}
    except Exception:  # noqa: BLE001
        pass
    return enc[:80]


def check_cases(ctx, cases):
    """cases: [(family, expression)]"""
    reals = []
    for fam, s in cases:
        reals.append(real_outcome(s))
    terms = [("parse_overflow_enc %s" if fam == "overflow" else "parse_enc %s") % cstr(s) for fam, s in cases]
    vals = ctx.coq_eval("c16", REQ, terms, chunk=250)
    if any(v is None for v in vals):
        # a concurrent rebuild of a shared library makes coqc refuse stale .vo files: rebuild once and retry
        ctx.build("Props/C16.vo")
        retry = [i for i, v in enumerate(vals) if v is None]
        again = ctx.coq_eval("c16r", REQ, [terms[i] for i in retry], chunk=250)
        for i, v in zip(retry, again):
            vals[i] = v
    for (fam, s), r, model in zip(cases, reals, vals):
        ctx.count(1, fam + "/" + (r[0] if r[0] != "crash" else "crash:" + r[1]))
        case = {"expression": s if len(s) < 200 else s[:80] + "...(%d characters)" % len(s), "family": fam}
        if r[0] != "ok" or (len(r[1]) > 12):
            ctx.nontrivial_case(s)
        if r[0] == "timeout":
            judge(ctx, dict(case, expression=s), r)
            continue
        if model is None:
            ctx.mismatch("model evaluation", {"case": case, "detail": "coqc failed on the case file"})
        elif model[:1] == [3]:
            ctx.mismatch("model ran out of fuel (C16_total says it cannot)", case)
        elif model[0] == 2:
            ctx.mismatch("the model leaves through a crash site (C16_total says it cannot)",
                         {"case": case, "impl": [str(x)[:200] for x in r[:5]], "model": show(model)})
        elif model != enc_real(r):
            ctx.mismatch("parse model vs _delb.xpath.parse", {"case": case, "impl": show(enc_real(r)), "model": show(model)})
        judge(ctx, dict(case, expression=s), r)
        if r[0] == "xpe":
            ctx.sample({"expression": case["expression"], "position": r[1], "str": r[4]})


def judge(ctx, case, r):
    """the property itself, on the implementation"""
    if r[0] == "timeout":
        ctx.fail("parse(%r) did not terminate within %d s" % (case["expression"][:80], budget_for(case["expression"])),
                 dict(case, timeout=True))
    elif r[0] == "crash":
        ctx.fail("parse(%r) raises %s instead of XPathParsingError" % (case["expression"][:80], r[1]),
                 dict(case, exception=r[1]))
    elif r[0] == "xpe" and r[5]:
        ctx.fail("XPathParsingError of parse(%r): %s" % (case["expression"][:80], "; ".join(r[5])), case)


# ------------------------------------------------------------------------------------------------
# cache half

# evaluation contexts: with and without the prefixes the pool's expressions use (an AST shared through the parse
# cache must not remember anything about the mapping it was evaluated under before)
NS_MAPPINGS = [None, {}, {"p": "urn:p"}, {"q": "urn:q"}, {"p": "urn:other"}, {"p": "urn:p", "q": "urn:q"}]


def eval_result(ast, root, namespaces):
    """the node objects themselves (kept alive by the caller, so that identities can be compared)"""
    try:
        return ("ok", list(ast.evaluate(root, Namespaces(namespaces or {}))))
    except Exception as e:  # noqa: BLE001
        return ("exc", type(e).__name__)


def same_results(a, b):
    if a[0] != b[0]:
        return False
    if a[0] == "exc":
        return a[1] == b[1]
    return len(a[1]) == len(b[1]) and all(x is y for x, y in zip(a[1], b[1]))


def ast_nodes(x):
    """all AST node objects below (and including) x"""
    import _delb.xpath.ast as A
    out, todo = [], [x]
    while todo:
        n = todo.pop()
        if isinstance(n, A.Node):
            out.append(n)
            for slot in getattr(type(n), "__slots__", ()):
                v = getattr(n, slot, None)
                todo.extend(v if isinstance(v, (tuple, list)) else [v])
    return out


def cached_property_state(ctx, ast_obj, case):
    """every value a functools.cached_property has stored on a node of the (shared) AST equals a fresh computation"""
    import functools
    for n in ast_nodes(ast_obj):
        for cls in type(n).__mro__:
            for name, member in vars(cls).items():
                if isinstance(member, functools.cached_property) and name in getattr(n, "__dict__", {}):
                    stored = n.__dict__[name]
                    try:
                        fresh = member.func(n)
                        same = stored == fresh
                    except Exception as e:  # noqa: BLE001
                        same, fresh = False, "raises " + type(e).__name__
                    ctx.count(1, "cached_property/" + name)
                    if not same:
                        ctx.fail("stored %s.%s differs from a fresh computation" % (type(n).__name__, name),
                                 dict(case, stored=str(stored)[:200], fresh=str(fresh)[:200]))


def touch_cached_properties(ast_obj):
    """what fetch_or_create_by_xpath reads"""
    try:
        ast_obj._is_unambiguously_locatable
        for path in ast_obj.location_paths:
            for step in path.location_steps:
                step._derived_attributes
    except Exception:  # noqa: BLE001
        pass


# comparisons with the literal on the left, alone, under `and`, and in a second predicate: fetch_or_create_by_xpath
# derives the attributes of the node it creates from them
LITERAL_LEFT = ['cit["en"=@lang]', "cit['en'=@lang and @n='1']", "a[@k='v']['x'=@j]", "entry/cit['x'=@type]",
                "cit['en'=@lang and 'y'=@m]", "b['1'=@n][@k='v']"]


def cache_half(ctx, n_histories, hist_len):
    docs = [impl.Document('<r xmlns:p="urn:p" k="v"><a k="v" j="1">x<b/>y</a><p:a/><a><c k="w"/></a><!--c--><?t d?></r>'),
            impl.Document("<a><a><a/></a>text<b k='1'/></a>")]
    pool = VALID + [s for s in FIXED + REGRESSION if len(s) < 30] + \
        LITERAL_LEFT + ["p:a", "p:*", "q:a", "*[@p:n]", "*[@p:n='2']", "a[@q:k]", "//p:a[@p:k and @j]", "p:a/q:b", "ancestor::p:*"]
    for _ in range(n_histories):
        rparse.cache_clear()
        rtokenize.cache_clear()
        hist = []
        k = ctx.rng.choice([3, 20, 70, 140])               # below and above the cache size of 64
        names = ["n%d" % i for i in range(k)]
        for _ in range(hist_len):
            q = ctx.rng.random()
            s = ctx.rng.choice(pool) if q < .6 else (ctx.rng.choice(names) + ctx.rng.choice(["", "[1]", "/b", "/"]))
            if q > .9:
                s = ctx.rng.choice(LITERAL_LEFT)
            op = ctx.rng.choice(["parse", "parse", "tokenize", "xpath", "evaluate", "inspect", "create", "clear"]) \
                if q > .02 else "clear"
            hist.append((op, s))
            try:
                if op == "parse":
                    rparse(s)
                elif op == "tokenize":
                    rtokenize(s)
                elif op == "xpath":
                    ctx.rng.choice(docs).root.xpath(s, namespaces=ctx.rng.choice(NS_MAPPINGS))
                elif op == "evaluate":
                    list(rparse(s).evaluate(ctx.rng.choice(docs).root, Namespaces(ctx.rng.choice(NS_MAPPINGS) or {})))
                elif op == "inspect":
                    touch_cached_properties(rparse(s))
                elif op == "create":
                    # a tree without the target, so that the call has to create it (twice: create, then fetch)
                    r0 = impl.Document("<a><b/></a>").root
                    r0.fetch_or_create_by_xpath(s)
                    r0.fetch_or_create_by_xpath(s)
                else:
                    ctx.rng.choice([rparse, rtokenize]).cache_clear()
            except Exception:  # noqa: BLE001
                pass
        # what fetch_or_create_by_xpath had to create from (it reads the derived attributes of every predicate of the
        # shared AST) is always probed, as are the last calls and a few random members of the pool
        created = [h[1] for h in hist if h[0] == "create"]
        ctx.rng.shuffle(created)
        probes = [h[1] for h in hist[-6:]] + [ctx.rng.choice(pool) for _ in range(6)] + created[:8] \
            + [ctx.rng.choice(LITERAL_LEFT)]
        for s in probes:
            cached = real_outcome(s, fresh=False)
            try:
                c_ast = rparse(s)
            except Exception:  # noqa: BLE001
                c_ast = None
            try:
                f_ast = rparse.__wrapped__(s)
                fresh = ("ok", xpath_ast.enc_ast(f_ast))
            except XPathParsingError as e:
                f_ast = None
                fresh = ("xpe", e.position if e.position is not None else 0, isinstance(e, XPathUnsupportedStandardFeature),
                         e.message)
            except Exception as e:  # noqa: BLE001
                f_ast = None
                fresh = ("crash", type(e).__name__)
            ctx.count(1, "cache/" + cached[0])
            case = {"expression": s, "history": hist[-40:], "family": "cache"}
            same = cached[:1] == fresh[:1] and (cached[1] == fresh[1] if cached[0] != "xpe" else cached[1:4] == fresh[1:4])
            if not same:
                ctx.fail("cached parse differs from a fresh parse", dict(case, cached=str(cached)[:300], fresh=str(fresh)[:300]))
                continue
            try:
                tk_c = [tuple(t) for t in rtokenize(s)]
                tk_f = [tuple(t) for t in rtokenize.__wrapped__(s)]
                if tk_c != tk_f:
                    ctx.fail("cached tokenize differs from a fresh tokenize", case)
            except XPathParsingError:
                pass
            if c_ast is not None and f_ast is not None:
                cached_property_state(ctx, c_ast, case)
                touch_cached_properties(f_ast)
                touch_cached_properties(c_ast)
                for a, b in zip(ast_nodes(c_ast), ast_nodes(f_ast)):
                    for name in ("_is_unambiguously_locatable", "_derived_attributes", "_anders_predicates"):
                        if name in getattr(a, "__dict__", {}) or name in getattr(b, "__dict__", {}):
                            if a.__dict__.get(name) != b.__dict__.get(name):
                                ctx.fail("cached property %s differs between the cached and a fresh AST" % name,
                                         dict(case, cached=str(a.__dict__.get(name))[:200], fresh=str(b.__dict__.get(name))[:200]))
                try:
                    if not (c_ast == f_ast):
                        ctx.fail("cached AST != fresh AST (==)", case)
                except Exception as e:  # noqa: BLE001
                    ctx.fail("comparing the cached with the fresh AST raises %s" % type(e).__name__,
                             dict(case, exception=type(e).__name__))
                order = list(NS_MAPPINGS)
                ctx.rng.shuffle(order)
                for ns in order:                    # the same cached AST under one mapping after the other
                    for d in docs:
                        for node in (d.root, d.root[0]):
                            with impl.no_gc():
                                a, b = eval_result(c_ast, node, ns), eval_result(rparse.__wrapped__(s), node, ns)
                                same = same_results(a, b)
                            if not same:
                                ctx.fail("cached and fresh expression evaluate differently",
                                         dict(case, namespaces=ns, cached=str(a)[:200], fresh=str(b)[:200]))
        ctx.nontrivial_case(("cache", tuple(hist)))


# ------------------------------------------------------------------------------------------------

PROBE_CHILD = r"""
import sys, time, json, signal
from _delb.xpath import parse
budget = float(sys.argv[1])
class T(BaseException): pass
def h(*a): raise T()
signal.signal(signal.SIGALRM, h)
for line in sys.stdin:
    s = json.loads(line)
    print(json.dumps({"start": s}), flush=True)
    t = time.time()
    signal.setitimer(signal.ITIMER_REAL, budget)
    try:
        try:
            parse.__wrapped__(s)
        finally:
            signal.setitimer(signal.ITIMER_REAL, 0)
        r = "returned"
    except T:
        r = "timeout"
    except BaseException as e:
        r = type(e).__name__
    print(json.dumps({"done": r, "s": round(time.time() - t, 3)}), flush=True)
"""


def suspicious_inputs(rng, n):
    """inputs on which a backtracking tokenizer is most likely to blow up: unterminated string literals followed by
    20..40 further characters, truncations inside the string literals of valid expressions, runs of name / digit /
    whitespace characters followed by a character that ends nothing"""
    out = []
    tails = ["a" * k for k in (20, 24, 28, 32, 36, 40)] + ["ab cd/ef[1]=2 and x or y(z)w"[:k] for k in (20, 28)] \
        + ["x" * 15 + "\\" + "y" * 15, " " * 30, "1" * 30, "[" * 30, "a='" * 10, "é" * 30]
    for q in ("'", '"'):
        for t in tails:
            out.append("a[@k=" + q + t)
            out.append(q + t)
            out.append("a[contains(@k," + q + t + ")]")
    for v in VALID:
        for q in ("'", '"'):
            i = v.find(q)
            if i >= 0:
                out.append(v[:i + 1] + "b" * 30)
                out.append(v[:i + 2] + "c" * 26 + v[i + 2:].replace(q, ""))
    out += ["a" * 40 + "$", "1" * 40 + "$", " " * 40 + "$", "a" + ":" * 40, "a" + "." * 41, "/" * 41 + "$", "<=" * 20 + "!"]
    while len(out) < n:
        q = rng.choice("'\"")
        out.append(rng.choice(VALID) + rng.choice(["[@k=", "[", "/", " "]) + q
                   + "".join(rng.choice(["a", " ", "\\a", "=", "b]", "/", "1", "é"]) for _ in range(rng.randint(18, 40))))
    return out[:n]


def termination_probe(ctx, n):
    """returns False when an input was found on which parse() does not come back in time (the caller then skips the
    in-process phases that parse arbitrary strings).  The child is killed when it exceeds its overall budget, so
    this cannot hang the check whatever the implementation does."""
    import subprocess
    inputs = suspicious_inputs(ctx.rng, n)
    env = dict(os.environ, PYTHONPATH=common.REPO, PYTHONHASHSEED="0")
    p = subprocess.Popen([common.PY, "-c", PROBE_CHILD, str(PARSE_BUDGET)], stdin=subprocess.PIPE, stdout=subprocess.PIPE,
                         stderr=subprocess.DEVNULL, text=True, env=env)
    overall = PARSE_BUDGET * 4 + 60
    try:
        out, _ = p.communicate("".join(json.dumps(s) + "\n" for s in inputs), timeout=overall)
        killed = False
    except subprocess.TimeoutExpired as e:
        p.kill()
        out = p.communicate()[0] or ""
        killed = True
    started, ok, slowest = None, True, 0.0
    for line in out.splitlines():
        try:
            rec = json.loads(line)
        except ValueError:
            continue
        if "start" in rec:
            started = rec["start"]
        else:
            ctx.count(1, "termination/" + rec["done"])
            slowest = max(slowest, rec.get("s", 0))
            if rec["done"] == "timeout":
                ok = False
                ctx.fail("parse(%r) did not terminate within %d s" % (started[:80], PARSE_BUDGET),
                         {"expression": started, "family": "termination", "timeout": True})
                break
            started = None
    if killed and ok:
        ok = False
        ctx.fail("parse(%r) did not terminate (child process killed after %d s; SIGALRM had no effect)"
                 % ((started or "?")[:80], overall), {"expression": started or "?", "family": "termination", "timeout": True})
    ctx.notes.append("termination probe: %d inputs, slowest %.3f s" % (len(inputs), slowest))
    return ok


def ambient_int_limit(ctx):
    """the application may lower (or lift) the interpreter's limit on int <-> str conversions after delb was imported:
    no other exception type may escape parse() under that setting either.  The limit is restored whatever happens.
    (The model is not compared here: its limit is the one read when Gen/GenXPath.v was generated.)"""
    if not hasattr(sys, "set_int_max_str_digits"):
        return
    old = sys.get_int_max_str_digits()
    try:
        for limit in (640, 1000, 0, old):
            sys.set_int_max_str_digits(limit)
            lengths = {1, 639, 640, 641, 999, 1000, 1001, 2000, old - 1, old, old + 1, old + 700}
            if limit:
                lengths |= {limit - 1, limit, limit + 1}
            for k in sorted(x for x in lengths if x > 0):
                for d in ("1", "٣"):
                    for tmpl in ("a[%s]", "a[@k=%s]", "a[position()<%s and 1]"):
                        s = tmpl % (d * k)
                        r = real_outcome(s)
                        ctx.count(1, "search/int-limit-%d/%s" % (limit, r[0] if r[0] != "crash" else "crash:" + r[1]))
                        judge(ctx, {"expression": s if k < 60 else tmpl % ("<%d times %s>" % (k, d)), "family": "int-limit",
                                    "ambient": "sys.set_int_max_str_digits(%d)" % limit, "digits": k, "digit": d,
                                    "template": tmpl}, r)
    finally:
        sys.set_int_max_str_digits(old)


def direct_search(ctx, n):
    """the implementation alone, at volume"""
    t0 = time.time()
    for i in range(n):
        fam, s = gen_case(ctx.rng)
        r = real_outcome(s)
        ctx.count(1, "search/" + (r[0] if r[0] != "crash" else "crash:" + r[1]))
        judge(ctx, {"expression": s, "family": fam}, r)
    # resource classes (not modelled): deep nesting, long digit strings
    # between NESTING_MODELLED and NESTING_OVERFLOW either outcome of parse_under is allowed, a crash never is; the
    # three shapes use one (grouping, brackets) or two (function calls) interpreter frames per nesting level
    for depth in (50, NESTING_MODELLED - 1, 300, 400, 500, 600, 700, 800, 900, 1000, 1200, 1600, 2000, NESTING_OVERFLOW):
        for s in ("a[" + "(" * depth + "1" + ")" * depth + "]", "a" + "[b" * (depth // 2) + "]" * (depth // 2),
                  "a[" + "not(" * (depth // 2) + "1" + ")" * (depth // 2) + "]"):
            r = real_outcome(s)
            ctx.count(1, "search/nesting/" + r[0])
            judge(ctx, {"expression": s, "family": "nesting"}, r)
    for s in ("a[" + "7" * sys.get_int_max_str_digits() + "]", "a[" + "7" * (sys.get_int_max_str_digits() + 1) + "]"):
        r = real_outcome(s)
        ctx.count(1, "search/long-number/" + r[0])
        judge(ctx, {"expression": s, "family": "numbers"}, r)
    return time.time() - t0


def run(ctx, args):
    ctx.regen(["GenWs.v", "GenXPath.v", "GenXPathFns.v"])
    ctx.build("Props/C16.vo")
    ctx.trusted.append("XPath model evaluated with vm_compute only (no extraction); CPython `re` semantics of the token "
                       "alternation, functools.lru_cache, inspect.signature and the recursion limit are modelled, not verified")
    if args.replay:
        with open(args.replay) as f:
            rep = json.load(f)
        case = rep.get("case")
        if case and case.get("family") == "int-limit":
            ambient_int_limit(ctx)
        elif case and case.get("family") == "independence":
            history_independence(ctx)
        elif case and case.get("family") == "extension":
            extension_functions(ctx)
        elif case and case.get("family") == "rejected-everywhere":
            rejected_everywhere(ctx)
        elif case and "expression" in case:
            check_cases(ctx, [(case.get("family", "replay"), case["expression"])])
        return ctx.finish("replay of " + args.replay, replay_open=replay_open)
    quick = ctx.tier == "quick"
    cases = [("fixed", s) for s in FIXED + VALID] + [("regression", s) for s in REGRESSION if s not in FIXED]
    # resource limits: a number literal one digit beyond / at int's limit; nesting far beyond the recursion limit
    lim = sys.get_int_max_str_digits()
    # (a literal of exactly `lim` digits parses; it is exercised on the implementation in direct_search only:
    # printing a 4300-digit number out of Coq takes minutes)
    cases += [("long-number", "a[" + "1" * (lim + 1) + "]"), ("long-number", "a[@k=" + "٣" * (lim + 1) + "]"),
              ("long-number", "a[" + "9" * 300 + "]")]
    cases += [("overflow", "a[" + "(" * NESTING_OVERFLOW + "1" + ")" * NESTING_OVERFLOW + "]"),
              ("overflow", "a" + "[b" * NESTING_OVERFLOW + "]" * NESTING_OVERFLOW)]
    cases += [("nesting", "a[" + "(" * d + "1" + ")" * d + "]") for d in (10, 60)]
    seen = set(s for _, s in cases)
    n = 2500 if quick else 30000
    while len(cases) < n:
        fam, s = gen_case(ctx.rng)
        if s in seen or len(s) > 60 or max_nesting(s) >= NESTING_MODELLED:
            continue
        seen.add(s)
        cases.append((fam, s))
    if not termination_probe(ctx, 150 if quick else 600):
        # parse() does not come back on some input: do not feed this process arbitrary strings
        return ctx.finish("termination probe only (a parse did not terminate; the other phases were skipped)",
                          replay_open=replay_open)
    history_independence(ctx)
    extension_functions(ctx)
    rejected_everywhere(ctx)
    check_cases(ctx, cases)
    cache_half(ctx, 40 if quick else 600, 120)
    ambient_int_limit(ctx)
    direct_search(ctx, 40000 if quick else 1000000)
    return ctx.finish(
        rule="expressions: fixed list of boundary cases + generated token soups over the XPath vocabulary (names, axes, "
             "functions, every operator and bracket, quotes, escapes, Unicode digits/names, stray characters), truncations / "
             "insertions / deletions / single-token replacements, removals and duplications of 43 valid expressions, unbalanced "
             "bracket insertions, unknown functions / axes / node tests with argument lists, Unicode names at the borders of "
             "the name ranges, digit strings of several scripts; each compared with the Gallina model (vm_compute) on outcome "
             "class, exception type, position, message, str(e) and AST. Cache half: histories of 120 parse/tokenize/xpath/"
             "evaluate/inspect/fetch_or_create/cache_clear calls over 3..140 distinct expressions, then cached vs fresh AST, ==, "
             "stored cached_property values vs fresh computation, and evaluation on two documents. Direct search: the same generators on the implementation alone. Non-trivial = not a short successful "
             "parse; distinct by expression / history.",
        replay_open=replay_open)


if __name__ == "__main__":
    common.main(run, "C16")
