"""C17 - compare_trees reports equal exactly when two trees are equal.

regen/build -> correspondence (Misc/Compare.v `compare` against delb.utils.compare_trees: verdict, difference kind
and the path of the reported node pair, both argument orders, a grid of ambient filter settings) -> direct search
(bool(compare_trees(a, b)) against the Coq specification `spec_equal` = tree equality after filtering; symmetry;
the reported pair really differs) -> finish.
"""
import contextlib
import json

import common
from common import cnode, cstr, clist
import impl
from impl import (Document, TagNode, TextNode, CommentNode, ProcessingInstructionNode, altered_default_filters,
                  is_tag_node, is_text_node, is_comment_node, is_processing_instruction_node, compare_trees,
                  extract, build, no_gc)

REQ = ("From Coq Require Import List NArith.\nFrom Delb.Base Require Import PyStr.\n"
       "From Delb.Tree Require Import ATree.\nFrom Delb.Misc Require Import Compare.\n")


# ---------------------------------------------------------------------------------------------- ambient filters
def _not_b(n):
    return not (isinstance(n, TagNode) and n.local_name == "b")


def _not_t(n):
    return not (isinstance(n, (TextNode, CommentNode, ProcessingInstructionNode)) and n.content == "t")


def _tag_or_comment(n):
    return is_tag_node(n) or is_comment_node(n)


def _none(n):
    return False


NOT_B = "FNot (FNameIs %s)" % cstr("b")
NOT_T = "FNot (FContentIs %s)" % cstr("t")
# name, layers [(filters, extend)] entered outermost first (None = do not touch the stack), Coq `list fspec`,
# python predicate list (what the top of the stack must contain, for the independent python oracle)
GRID = [
    ("none ()", [((), False)], [], []),
    ("library default", None, ["FTagOrText"], [impl._nodes._is_tag_or_text_node]),
    ("is_tag_node", [((is_tag_node,), False)], ["FTag"], [is_tag_node]),
    ("is_text_node", [((is_text_node,), False)], ["FText"], [is_text_node]),
    ("is_comment_node", [((is_comment_node,), False)], ["FComment"], [is_comment_node]),
    ("is_processing_instruction_node", [((is_processing_instruction_node,), False)], ["FPI"],
     [is_processing_instruction_node]),
    ("custom: no tag named b", [((_not_b,), False)], [NOT_B], [_not_b]),
    ("custom: tag or comment", [((_tag_or_comment,), False)], ["FOr FTag FComment"], [_tag_or_comment]),
    ("two filters: no content t, no tag b", [((_not_t, _not_b), False)], [NOT_T, NOT_B], [_not_t, _not_b]),
    ("nested extend: default + no content t", [((_not_t,), True)], ["FTagOrText", NOT_T],
     [impl._nodes._is_tag_or_text_node, _not_t]),
    ("nested replace: comments, then tags", [((is_comment_node,), False), ((is_tag_node,), False)], ["FTag"],
     [is_tag_node]),
    ("nested extend twice: () + PI-or-not... tags/comments + no b", [((_tag_or_comment,), False), ((_not_b,), True)],
     ["FOr FTag FComment", NOT_B], [_tag_or_comment, _not_b]),
    ("custom: rejects everything", [((_none,), False)], ["FNone"], [_none]),
]
COQ_GRID = clist(clist(fs) for _, _, fs, _ in GRID)


@contextlib.contextmanager
def ambient(layers):
    with contextlib.ExitStack() as st:
        for filters, extend in (layers or []):
            st.enter_context(altered_default_filters(*filters, extend=extend))
        yield


# ---------------------------------------------------------------------------------------------- trees and mutants
NAMES = ["a", "b", "c"]
NSS = ["", "u", "v"]
ATTR_KEYS = [("", "k"), ("", "j"), ("u", "k"), ("v", "j")]
TEXTS = ["t", "x", "t t", "é"]


def gen_tree(rng, depth):
    attrs = sorted((ns, k, rng.choice(["1", "2", ""])) for ns, k in rng.sample(ATTR_KEYS, rng.choice([0, 0, 1, 2, 3])))
    kids = []
    for _ in range(rng.choice([0, 1, 2, 2, 3, 3, 4])):
        kids.append(gen_node(rng, depth - 1))
    return ("tag", rng.choice(NSS[:2]), rng.choice(NAMES), attrs, kids)


def gen_node(rng, depth):
    q = rng.random()
    if q < 0.3:
        return ("text", rng.choice(TEXTS))
    if q < 0.42:
        return ("comment", rng.choice(["t", "c", " c "]))
    if q < 0.54:
        return ("pi", rng.choice(["p", "q"]), rng.choice(["t", "y", ""]))
    if depth > 0:
        return gen_tree(rng, depth)
    return ("tag", "", rng.choice(NAMES), [], [])


def paths(t, p=()):
    out = [p]
    if t[0] == "tag":
        for i, k in enumerate(t[4]):
            out += paths(k, p + (i,))
    return out


def get(t, p):
    for i in p:
        t = t[4][i]
    return t


def setp(t, p, new):
    """replace (new is a node), remove (new is None) or splice (new is a list) at path p"""
    if not p:
        return new
    kids = list(t[4])
    if len(p) == 1:
        if new is None:
            kids.pop(p[0])
        elif isinstance(new, list):
            kids[p[0]:p[0] + 1] = new
        else:
            kids[p[0]] = new
    else:
        kids[p[0]] = setp(kids[p[0]], p[1:], new)
    return (t[0], t[1], t[2], t[3], kids)


FRESH = [("text", "T"), ("comment", "C"), ("pi", "n", "N"), ("tag", "", "n", [], [])]


def pi_content(s):
    """content a processing instruction may have: no leading XML white space (refused by the validator since 528fc02;
    a parser would drop it anyway)"""
    return s.lstrip(" \t\n\r")


def mutants_at(t, p):
    """every single-point mutation of the node at path p: (kind, mutated tree)"""
    n = get(t, p)
    out = []
    if n[0] == "tag":
        _, ns, name, attrs, kids = n
        out.append(("element renamed", ("tag", ns, name + "x", attrs, kids)))
        for ns2 in NSS:
            if ns2 != ns:
                out.append(("element re-namespaced", ("tag", ns2, name, attrs, kids)))
        have = {(a, b) for a, b, _ in attrs}
        for key in [("", "zz"), ("u", "zz")] + [k for k in ATTR_KEYS if k not in have][:1]:
            out.append(("attribute added", ("tag", ns, name, sorted(attrs + [(key[0], key[1], "1")]), kids)))
        for i, (a, b, v) in enumerate(attrs):
            rest = attrs[:i] + attrs[i + 1:]
            out.append(("attribute removed", ("tag", ns, name, rest, kids)))
            out.append(("attribute changed", ("tag", ns, name, sorted(rest + [(a, b, v + "!")]), kids)))
            a2 = "w" if a != "w" else ""
            out.append(("attribute re-namespaced", ("tag", ns, name, sorted(rest + [(a2, b, v)]), kids)))
            if ns and a != ns and (ns, b) not in {(x, y) for x, y, _ in rest}:
                out.append(("attribute moved into the element's namespace", ("tag", ns, name, sorted(rest + [(ns, b, v)]), kids)))
        for i in range(len(kids) + 1):
            for f in FRESH:
                what = {"text": "text added", "comment": "comment added", "pi": "PI added", "tag": "element added"}[f[0]]
                out.append((what, ("tag", ns, name, attrs, kids[:i] + [f] + kids[i:])))
        for i in range(len(kids) - 1):
            if kids[i] != kids[i + 1]:
                k2 = list(kids)
                k2[i], k2[i + 1] = k2[i + 1], k2[i]
                out.append(("siblings swapped", ("tag", ns, name, attrs, k2)))
        res = [(k, setp(t, p, m)) for k, m in out]
        res.append(("node kind changed", setp(t, p, ("text", name))))
        res.append(("node kind changed", setp(t, p, ("comment", name))))
        if p:
            res.append(("element removed", setp(t, p, None)))
            if kids:
                res.append(("element unwrapped", setp(t, p, list(kids))))
        return res
    if n[0] == "text":
        res = [("text changed", setp(t, p, ("text", n[1] + "!"))), ("text changed", setp(t, p, ("text", n[1][:-1] + "z"))),
               ("node kind changed", setp(t, p, ("comment", n[1]))), ("node kind changed", setp(t, p, ("pi", "p", pi_content(n[1])))),
               ("node kind changed", setp(t, p, ("tag", "", "a", [], [("text", n[1])])))]
        if p:
            res.append(("text removed", setp(t, p, None)))
        return res
    if n[0] == "comment":
        res = [("comment changed", setp(t, p, ("comment", n[1] + "!"))), ("node kind changed", setp(t, p, ("text", n[1]))),
               ("node kind changed", setp(t, p, ("pi", "p", pi_content(n[1]))))]
        if p:
            res.append(("comment removed", setp(t, p, None)))
        return res
    res = [("PI target changed", setp(t, p, ("pi", n[1] + "x", n[2]))), ("PI content changed", setp(t, p, ("pi", n[1], n[2] + "!"))),
           ("node kind changed", setp(t, p, ("comment", n[2] or "c"))), ("node kind changed", setp(t, p, ("text", n[2] or "c")))]
    if p:
        res.append(("PI removed", setp(t, p, None)))
    return res


def all_mutants(t):
    for p in paths(t):
        for kind, m in mutants_at(t, p):
            yield kind, list(p), m


def xml_ok(t):
    """the XML route can express the tree (known namespaces; text where the parser would not merge it away)"""
    if t[0] != "tag":
        return True
    if t[1] not in ("",) + tuple(PREFIX) or any(a not in ("",) + tuple(PREFIX) for a, _, _ in t[3]):
        return False
    return all(xml_ok(c) for c in t[4])


def tuple_tree(t):
    if t[0] == "tag":
        return ("tag", t[1], t[2], [tuple(a) for a in t[3]], [tuple_tree(c) for c in t[4]])
    return tuple(t)


# ---------------------------------------------------------------------------------------------- running the code
KINDS = {"None_": 0, "NodeType": 1, "TagNamespace": 2, "TagLocalName": 3, "TagAttributes": 4, "TagChildrenSize": 5,
         "NodeContent": 6}


def find_path(root, target):
    if root is target:
        return []
    if isinstance(root, TagNode):
        for i, c in enumerate(root.iterate_children()):
            p = find_path(c, target)
            if p is not None:
                return [i] + p
    return None


def filtered_py(node, preds):
    """python-side restatement of the oracle: content tree of `node` with every descendant dropped whose real node
    one of the ambient predicates rejects (the root itself is never filtered); attributes sorted"""
    with altered_default_filters():
        return _filtered(node, preds)


def _filtered(node, preds):
    if isinstance(node, TagNode):
        attrs = sorted(((a.namespace or "", a.local_name, a.value) for a in node.attributes.values()))
        kids = [_filtered(c, preds) for c in node.iterate_children() if all(p(c) for p in preds)]
        return ("tag", node.namespace or "", node.local_name, attrs, kids)
    return impl._extract(node)


PREFIX = {"u": "p", "v": "q", "w": "s"}


def xml_prefixed(t, declared=()):
    """XML text in which every namespace is bound to a *prefix* (never the default namespace), declared where first
    used; attributes without namespace are written plain, so an element in a prefixed namespace can carry `x` next
    to `p:x`"""
    k = t[0]
    if k == "text":
        return impl.esc_text(t[1])
    if k == "comment":
        return "<!--%s-->" % t[1]
    if k == "pi":
        return "<?%s %s?>" % (t[1], t[2]) if t[2] else "<?%s?>" % t[1]
    ns, name, attrs, kids = t[1], t[2], t[3], t[4]
    declared = list(declared)
    decl = ""
    for n in [ns] + [a for a, _, _ in attrs]:
        if n and n not in declared:
            declared.append(n)
            decl += ' xmlns:%s="%s"' % (PREFIX[n], n)
    q = (PREFIX[ns] + ":" + name) if ns else name
    out_attrs = "".join(' %s="%s"' % ((PREFIX[a] + ":" + b) if a else b, impl.esc_attr(v)) for a, b, v in attrs)
    inner = "".join(xml_prefixed(c, declared) for c in kids)
    return "<%s%s%s>%s</%s>" % (q, decl, out_attrs, inner, q) if kids else "<%s%s%s/>" % (q, decl, out_attrs)


def xml_default_and_prefix(t, default=""):
    """XML text in which an element's namespace is bound to the default namespace AND to a prefix on that element;
    attributes in a namespace are written with the prefix, attributes without namespace plain"""
    k = t[0]
    if k != "tag":
        return xml_prefixed(t)
    ns, name, attrs, kids = t[1], t[2], t[3], t[4]
    decl = ""
    if ns != default:
        decl += ' xmlns="%s"' % ns
    for n in sorted({ns} | {a for a, _, _ in attrs}):
        if n:
            decl += ' xmlns:%s="%s"' % (PREFIX[n], n)
    out_attrs = "".join(' %s="%s"' % ((PREFIX[a] + ":" + b) if a else b, impl.esc_attr(v)) for a, b, v in attrs)
    inner = "".join(xml_default_and_prefix(c, ns) for c in kids)
    return "<%s%s%s>%s</%s>" % (name, decl, out_attrs, inner, name) if kids else "<%s%s%s/>" % (name, decl, out_attrs)


def from_xml(t, style="prefixed"):
    if t[0] != "tag":
        return build(t)
    return Document(xml_prefixed(t) if style == "prefixed" else xml_default_and_prefix(t)).root


def make_pair(case):
    """returns the two real trees for a case"""
    route = case.get("route", "api")
    if route.startswith("xml"):
        a = from_xml(case["a"])
        if route == "xml-clone":
            return a, a.clone(deep=True)
        if route == "xml-reparse":
            return a, (Document(str(a)).root if isinstance(a, TagNode) else from_xml(case["b"]))
        if route == "xml-mixed":
            # b binds the elements' namespaces to the default namespace and to a prefix at once
            return a, from_xml(case["b"], "default+prefix")
        return a, from_xml(case["b"])
    a = build(case["a"])
    if route == "clone":
        b = a.clone(deep=True)
    elif route == "reparse":
        b = Document(str(a)).root if isinstance(a, TagNode) else build(case["b"])
    else:
        b = build(case["b"])
    return a, b


def run_impl(case):
    a, b = make_pair(case)
    return observe(a, b)


def observe(a, b):
    """under every ambient setting: verdict, kind, path of the reported pair, in both argument orders"""
    ea, eb = extract(a), extract(b)
    out = []
    for name, layers, _coq, preds in GRID:
        with ambient(layers):
            r1 = compare_trees(a, b)
            r2 = compare_trees(b, a)
            o = {}
            for tag, r, x, y in (("ab", r1, a, b), ("ba", r2, b, a)):
                k = KINDS[r.difference_kind.name]
                if k == 0:
                    o[tag] = {"equal": bool(r), "enc": [0], "named": r.lhn is None and r.rhn is None}
                else:
                    pl = find_path(x, r.lhn)
                    pr = find_path(y, r.rhn)
                    o[tag] = {"equal": bool(r), "enc": None if pl is None else [k, len(pl)] + pl,
                              "named": pl is not None and pl == pr}
                    if pl is not None and pl == pr:
                        o[tag]["pair_differs"] = filtered_py(r.lhn, preds) != filtered_py(r.rhn, preds)
            o["py_equal"] = filtered_py(a, preds) == filtered_py(b, preds)
        out.append(o)
    return ea, eb, out


# ---------------------------------------------------------------------------------------------- histories
HBASE = ("tag", "", "root", [],
         [("tag", "", "a", [("", "k", "v"), ("", "x", "1"), ("u", "m", "9")], [("text", "t"), ("tag", "", "b", [("", "n", "0")], [])]),
          ("tag", "", "c", [], [])])
# (kind, path, key, value, prefetch the Attribute object before the first comparison)
HEDITS = [
    ("Attribute.value =", [0, 1], ["", "n"], "1", False),
    ("Attribute.value =", [0], ["", "x"], "2", True),
    ("attributes[key] =", [0], ["", "k"], "w", False),
    ("attributes[new key] =", [1], ["", "new"], "1", False),
    ("Attribute.local_name =", [0], ["", "x"], "xx", True),
    ("Attribute.namespace =", [0], ["", "k"], "w", False),
    ("del attributes[key]", [0], ["u", "m"], None, False),
    ("TextNode.content =", [0, 0], None, "changed", False),
    ("append_children(text)", [1], None, "T", False),
    ("append_children(element)", [0, 1], None, None, False),
    ("detach()", [0, 1], None, None, False),
]


def akey(key):
    return key[1] if not key[0] else (key[0], key[1])


def node_at(root, path):
    with altered_default_filters():
        n = root
        for i in path:
            n = n[i]
        return n


def apply_hedit(e, n, att):
    kind, value = e["kind"], e.get("value")
    if kind == "Attribute.value =":
        (att if att is not None else n.attributes[akey(e["key"])]).value = value
    elif kind == "Attribute.local_name =":
        (att if att is not None else n.attributes[akey(e["key"])]).local_name = value
    elif kind == "Attribute.namespace =":
        (att if att is not None else n.attributes[akey(e["key"])]).namespace = value
    elif kind in ("attributes[key] =", "attributes[new key] ="):
        n.attributes[akey(e["key"])] = value
    elif kind == "del attributes[key]":
        del n.attributes[akey(e["key"])]
    elif kind == "TextNode.content =":
        n.content = value
    elif kind == "append_children(text)":
        with altered_default_filters():
            n.append_children(value)
    elif kind == "append_children(element)":
        with altered_default_filters():
            n.append_children(impl.tag("new"))
    elif kind == "detach()":
        n.detach()
    else:
        raise ValueError(kind)


def run_history(h):
    """compare, edit one of the two trees through the API on node objects taken before the first comparison, compare
    again on the same objects ...; returns [(step description, (ea, eb, obs))]"""
    def mk():
        return build(h["base"]) if h["route"] == "api" else Document(impl.to_xml(h["base"])).root
    a = mk()
    b = a.clone(deep=True) if h.get("b") == "clone" else mk()
    trees = {"a": a, "b": b}
    held = []
    for e in h["edits"]:
        n = node_at(trees[e["side"]], e["path"])
        att = n.attributes[akey(e["key"])] if (e.get("prefetch") and e["kind"].startswith("Attribute.")) else None
        held.append((n, att))
    out = [("initial", observe(a, b))]
    for e, (n, att) in zip(h["edits"], held):
        apply_hedit(e, n, att)
        out.append(("%s on %s" % (e["kind"], e["side"]), observe(a, b)))
    return out


def hedit(kind, path, key, value, prefetch, side):
    return {"kind": kind, "path": path, "key": key, "value": value, "prefetch": prefetch, "side": side}


def fixed_histories():
    hs = []
    for route in ("parse", "api"):
        for bkind in ("clone", "rebuilt"):
            # one history per editing route: edit b (trees differ), the same edit on a (trees agree again)
            for ed in HEDITS:
                hs.append({"base": HBASE, "route": route, "b": bkind,
                           "edits": [hedit(*ed, side="b"), hedit(*ed, side="a")]})
        # and one long history through all routes, alternating the sides
        edits = []
        for i, ed in enumerate(HEDITS[:9]):
            first, second = ("b", "a") if i % 2 == 0 else ("a", "b")
            edits += [hedit(*ed, side=first), hedit(*ed, side=second)]
        hs.append({"base": HBASE, "route": route, "b": "clone", "edits": edits})
    return hs


def random_history(rng):
    eds = [ed for ed in rng.sample(HEDITS[:9], rng.choice([2, 3, 4]))]
    eds.sort(key=HEDITS.index)
    edits = []
    for ed in eds:
        sides = rng.choice([["a"], ["b"], ["a", "b"], ["b", "a"]])
        edits += [hedit(ed[0], ed[1], ed[2], ed[3], rng.random() < 0.5, sd) for sd in sides]
    return {"base": HBASE, "route": rng.choice(["parse", "api"]), "b": rng.choice(["clone", "rebuilt"]), "edits": edits}


def wf_tree(t):
    if t[0] != "tag":
        return True
    keys = [(a, b) for a, b, _ in t[3]]
    return len(set(keys)) == len(keys) and all(wf_tree(c) for c in t[4])


def decode_obs(vals):
    """[enc_result ab ++ enc_result ba ++ [spec]] per grid entry"""
    out = []
    i = 0

    def res(i):
        if vals[i] == 0:
            return [0], i + 1
        n = vals[i + 1]
        return vals[i:i + 2 + n], i + 2 + n
    while i < len(vals):
        ab, i = res(i)
        ba, i = res(i)
        out.append((ab, ba, vals[i] == 1))
        i += 1
    return out


def check_cases(ctx, cases):
    runs = []
    flat = []
    with no_gc():
        for c in cases:
            try:
                if c.get("history") is not None:
                    steps = run_history(c["history"])
                    results = [(dict(c, kind="history: " + what, route="history:" + c["history"]["route"], step=i), r)
                               for i, (what, r) in enumerate(steps)]
                else:
                    results = [(c, run_impl(c))]
            except Exception as e:  # noqa: BLE001
                ctx.fail("compare_trees (or building / editing the trees) raised %s: %s" % (type(e).__name__, e), c)
                continue
            for cc, (ea, eb, obs) in results:
                flat.append(cc)
                if not (wf_tree(ea) and wf_tree(eb)):
                    ctx.count(1, "outside domain (duplicate presented attribute keys)")
                    runs.append(None)
                    continue
                runs.append((ea, eb, obs))
    cases = flat
    terms = ["obs %s %s %s" % (COQ_GRID, cnode(r[0]), cnode(r[1])) for r in runs if r is not None]
    vals = ctx.coq_eval("c17", REQ, terms, chunk=60)
    vi = 0
    for c, r in zip(cases, runs):
        if r is None:
            continue
        ea, eb, obs = r
        v = vals[vi]
        vi += 1
        if v is None:
            ctx.mismatch("Compare.obs evaluation", "coqc failed on the case file")
            continue
        model = decode_obs(v)
        for (name, _l, _c, _p), o, (m_ab, m_ba, spec) in zip(GRID, obs, model):
            ctx.count(1, "%s / %s" % (c.get("kind", "?"), "equal" if spec else "different"))
            case = {"a": ea, "b": eb, "filter": name, "route": c.get("route", "api"), "kind": c.get("kind"),
                    "path": c.get("path")}
            if c.get("history") is not None:
                case["history"] = c["history"]
                case["step"] = c.get("step")
            if ea != eb:
                ctx.nontrivial_case((ea, eb, name))
            # correspondence: model = implementation (verdict, kind, path), both orders
            for tag, m in (("ab", m_ab), ("ba", m_ba)):
                if o[tag]["enc"] != m:
                    ctx.mismatch("Compare.compare vs compare_trees (%s)" % tag,
                                 {"case": case, "impl": o[tag]["enc"], "model": m})
            # the python restatement of the oracle agrees with the Coq specification
            if o["py_equal"] != spec:
                ctx.mismatch("Compare.spec_equal vs python oracle", {"case": case, "coq": spec, "python": o["py_equal"]})
            # the property itself, on the implementation
            for tag in ("ab", "ba"):
                if o[tag]["equal"] != spec:
                    ctx.fail("compare_trees reports %s (%s) but the trees are %s under the active filters"
                             % ("equal" if o[tag]["equal"] else "a difference", tag, "equal" if spec else "different"),
                             dict(case, order=tag))
                elif not o[tag]["equal"]:
                    if not o[tag]["named"]:
                        ctx.fail("a difference is reported without naming a node pair at one position", dict(case, order=tag))
                    elif not o[tag].get("pair_differs", True):
                        ctx.fail("the reported node pair does not differ", dict(case, order=tag))
            if o["ab"]["equal"] != o["ba"]["equal"]:
                ctx.fail("the verdict depends on argument order", case)
        ctx.sample({"a": ea, "b": eb, "mutation": c.get("kind"), "at": c.get("path"),
                    "verdicts": {g[0]: o["ab"]["enc"] for g, o in zip(GRID, obs)}})


BASES = [
    ("tag", "", "r", [("", "k", "1"), ("u", "k", "2")],
     [("text", "t"), ("tag", "u", "a", [("", "j", "")], [("comment", "c"), ("text", "x"), ("pi", "p", "y")]),
      ("comment", "t"), ("tag", "", "b", [], [("tag", "", "c", [("v", "j", "1")], [("text", "t t")])]), ("pi", "q", "")]),
    ("tag", "u", "b", [], [("text", "x"), ("text", "t")]),
]
# parsed from XML with prefixed namespaces: un-namespaced attributes on elements in a (prefixed) namespace, alone and
# next to an attribute of the same local name in the element's own namespace, at depths 0-2
XML_BASES = [
    ("tag", "", "r", [], [("tag", "u", "e", [("", "x", "1")], [("text", "t")]),
                          ("tag", "u", "a", [("", "x", "2"), ("u", "x", "2")], [("tag", "v", "c", [("", "j", "1"), ("u", "j", "1")], [])])]),
    ("tag", "u", "b", [("", "k", "1"), ("u", "k", "2"), ("v", "k", "1")], [("comment", "c"), ("tag", "u", "a", [("", "k", "")], [])]),
]


def gen_xml_tree(rng, depth):
    """random tree for the XML route: namespaced elements carry un-namespaced attributes and same-named twins"""
    ns = rng.choice(["", "u", "u", "v"])
    attrs = []
    for k in rng.sample(["x", "k", "j"], rng.choice([0, 1, 1, 2])):
        r = rng.random()
        if r < 0.45 or not ns:
            attrs.append(("", k, rng.choice(["1", "2"])))
        elif r < 0.6:
            attrs.append((ns, k, rng.choice(["1", "2"])))
        else:
            v = rng.choice(["1", "2"])
            attrs += [("", k, v), (ns, k, rng.choice([v, v, "3"]))]
    kids = []
    for _ in range(rng.choice([0, 1, 2, 2, 3])):
        q = rng.random()
        if q < 0.3:
            kids.append(("text", rng.choice(TEXTS)))
        elif q < 0.4:
            kids.append(("comment", "c"))
        elif depth > 0:
            kids.append(gen_xml_tree(rng, depth - 1))
    # the parser merges adjacent text: keep one
    merged = []
    for c in kids:
        if c[0] == "text" and merged and merged[-1][0] == "text":
            continue
        merged.append(c)
    return ("tag", ns, rng.choice(NAMES), sorted(attrs), merged)


def run(ctx, args):
    ctx.regen(["GenWs.v"])
    ctx.build("Props/C17.vo")
    if args.replay:
        with open(args.replay) as f:
            rep = json.load(f)
        case = rep.get("case")
        if case and case.get("history"):
            h = case["history"]
            h["base"] = tuple_tree(h["base"])
            check_cases(ctx, [{"history": h, "kind": "history"}])
        elif case:
            check_cases(ctx, [{"a": tuple_tree(case["a"]), "b": tuple_tree(case["b"]),
                               "route": case.get("route") if str(case.get("route", "")).startswith("xml") else "api",
                               "kind": case.get("kind"), "path": case.get("path")}])
        return ctx.finish("replay of " + args.replay)
    quick = ctx.tier == "quick"
    rng = ctx.rng
    cases = []
    # (0) histories: compare, edit either tree through an API route on node objects taken before, compare again
    for h in fixed_histories():
        cases.append({"history": h, "kind": "history"})
    for _ in range(10 if quick else 300):
        cases.append({"history": random_history(rng), "kind": "history"})
    # (1) every single-point mutation at every position of fixed trees that contain all node kinds at three depths
    for t in BASES:
        ms = list(all_mutants(t))
        if quick:
            ms = [m for i, m in enumerate(ms) if i % 3 == ctx.seed % 3]
        cases.append({"a": t, "b": t, "kind": "no mutation"})
        cases.append({"a": t, "b": t, "kind": "clone", "route": "clone"})
        cases.append({"a": t, "b": t, "kind": "re-parsed serialization", "route": "reparse"})
        for kind, p, m in ms:
            if m[0] == "tag" or not p:
                cases.append({"a": t, "b": m, "kind": kind, "path": p})
    # (1b) the same through the XML route with prefixed namespaces
    xml_trees = list(XML_BASES) + [gen_xml_tree(rng, 2) for _ in range(25 if quick else 600)]
    for i, t in enumerate(xml_trees):
        cases.append({"a": t, "b": t, "kind": "no mutation", "route": "xml"})
        cases.append({"a": t, "b": t, "kind": "clone", "route": "xml-clone"})
        cases.append({"a": t, "b": t, "kind": "re-parsed serialization", "route": "xml-reparse"})
        ms = [m for m in all_mutants(t) if m[0].startswith(("attribute", "element re-namespaced", "element renamed"))
              or i >= len(XML_BASES)]
        if i >= len(XML_BASES):
            ms = rng.sample(ms, min(4 if quick else 8, len(ms)))
        for kind, p, m in ms:
            if m[0] == "tag" and xml_ok(m):
                cases.append({"a": t, "b": m, "kind": kind, "path": p, "route": "xml"})
                if kind.startswith("attribute"):
                    cases.append({"a": t, "b": m, "kind": kind + " (b: default+prefix binding)", "path": p, "route": "xml-mixed"})
        cases.append({"a": t, "b": t, "kind": "no mutation (b: default+prefix binding)", "route": "xml-mixed"})
    # (2) random trees: unmutated copy, clone, re-parse, and a sample of their single-point mutants (each kind)
    n_trees = 150 if quick else 2500
    per_tree = 4 if quick else 8
    for _ in range(n_trees):
        t = gen_tree(rng, 3) if rng.random() < 0.93 else gen_node(rng, 0)
        cases.append({"a": t, "b": t, "kind": "no mutation"})
        cases.append({"a": t, "b": t, "kind": "clone", "route": "clone"})
        if t[0] == "tag":
            cases.append({"a": t, "b": t, "kind": "re-parsed serialization", "route": "reparse"})
        ms = list(all_mutants(t))
        by_kind = {}
        for m in ms:
            by_kind.setdefault(m[0], []).append(m)
        for kind in rng.sample(sorted(by_kind), min(per_tree, len(by_kind))):
            k, p, m = rng.choice(by_kind[kind])
            cases.append({"a": t, "b": m, "kind": k, "path": p})
    check_cases(ctx, cases)
    return ctx.finish(
        rule="pairs (tree, copy with 0 or 1 point mutation): every mutation of every node of two fixed trees holding all "
             "node kinds at depths 0-3 (quick: every third) + random trees of depth <=3 (attributes in up to 3 namespaces, "
             "adjacent text nodes, empty values) with their copy, deep clone, re-parsed serialization and sampled mutants of "
             "each kind (rename, re-namespace, attribute added/removed/changed/re-namespaced, text/comment/PI/element "
             "added/removed/changed, unwrap, swap, node kind change) at any depth; the same through an XML route in which "
             "every namespace is bound to a prefix (un-namespaced attributes on namespaced elements, alone and next to the "
             "same local name in the element's namespace); each pair under %d ambient filter settings "
             "and in both argument orders. Histories: the two trees (parsed or API-built; the second a deep clone or rebuilt) "
             "are compared, then one of them is edited on node / Attribute objects taken before the first comparison "
             "(Attribute.value / .local_name / .namespace, attributes[key] =, del, TextNode.content, append_children, detach), "
             "compared again on the same objects, the same edit is made on the other tree, compared again. One evaluation = one (pair, filter setting). Non-trivial = the two trees differ; "
             "distinct by (tree a, tree b, filter setting)." % len(GRID))


if __name__ == "__main__":
    common.main(run, "C17")
