"""C09 - a node lives in at most one place; rejected edits change nothing."""
import json

import common
import impl
import treeops as T
import c01
from treeops import Real, F_ALL, F_DEFAULT
F_TEXT = (False, True, False, False)
from impl import Document, TextNode, no_gc, new_tag_node, new_comment_node, new_processing_instruction_node

REQ_VAL = ("From Coq Require Import List NArith.\nFrom Delb.Base Require Import PyStr.\n"
           "From Delb.Gen Require Import GenValidators.\nLocal Open Scope N_scope.\n")


def attempts(real, rng, w):
    """illegal single-node calls for the state w: (category, op, expected exception or None when only 'must raise')"""
    live = c01.live_nodes(w)
    ids = sorted(live)
    tags = [i for i in ids if live[i][0] == "tag"]
    attached = [i for i in ids if live[i][1] is True]
    loose = [i for i in ids if live[i][1] is False]
    roots = [i for i in ids if live[i][1] == "docroot"]
    out = []

    def anc(x):
        s = set()
        while x is not None:
            s.add(x)
            x = live[x][2]
        return s
    # A: an attached node offered elsewhere (every kind and position of offered node, every kind of target)
    for n in attached:
        for x in ids:
            if x == n or n in anc(x) or live[x][1] in ("docsib",):
                continue
            if live[x][1] is True or live[x][1] is False and live[x][0] != "tag":
                kind = rng.choice(["follow", "precede", "replace"])
                if live[x][1] is True:
                    out.append(("attached-offered", (kind, x, (("node", n),)) if kind != "replace" else ("replace", x, ("node", n)),
                                "InvalidOperation"))
            if live[x][0] == "tag":
                nk = len(c01.vis_kids(real, real.objs[x], F_ALL))
                kind = rng.choice(["append", "prepend", "insert", "setitem"])
                if kind == "insert":
                    out.append(("attached-offered", ("insert", x, rng.randint(0, nk), (("node", n),)), "InvalidOperation"))
                elif kind == "setitem":
                    if nk:
                        out.append(("attached-offered", ("setitem", x, rng.randrange(nk), ("node", n)), "InvalidOperation"))
                    else:
                        out.append(("attached-to-childless-item", ("setitem", x, 0, ("node", n)), "InvalidOperation"))
                else:
                    out.append(("attached-offered", (kind, x, (("node", n),)), "InvalidOperation"))
    # B: roots
    for r in roots:
        out.append(("detach-document-root", ("detach", r, False), "InvalidOperation"))
        out.append(("replace-root", ("replace", r, ("str", real.reserve(1)[0], "T")), "InvalidOperation"))
    for n in loose:
        if live[n][0] == "tag":
            out.append(("retain-on-parentless", ("detach", n, True), "InvalidOperation"))
        out.append(("replace-root", ("replace", n, ("str", real.reserve(1)[0], "T")), "InvalidOperation"))
    for r in [i for i in ids if live[i][0] in ("comment", "pi") and live[i][1] in (False, "docsib")]:
        for n in loose:
            if n != r and live[n][0] in ("comment", "pi"):
                out.append(("replace-parentless-comment", ("replace", r, ("node", n)), "InvalidOperation"))
    # C: text / tag as sibling of a root
    for r in roots + loose:
        for src in (("str", real.reserve(1)[0], "T"), ("tag", real.reserve(1)[0], "td")):
            if live[r][0] != "tag" and src[0] == "tag":
                out.append(("tagdef-next-to-parentless-text", (rng.choice(["follow", "precede"]), r, (src,)), "InvalidOperation"))
            else:
                out.append(("sibling-of-root", (rng.choice(["follow", "precede"]), r, (src,)),
                            "TypeError" if live[r][0] == "tag" else "InvalidOperation"))
        for n in loose:
            if n != r and live[n][0] in ("tag", "text"):
                out.append(("sibling-of-root", (rng.choice(["follow", "precede"]), r, (("node", n),)),
                            "TypeError" if live[r][0] == "tag" else "InvalidOperation"))
    # a comment / PI next to a document's root offered elsewhere (it has a sibling: the root)
    docsibs = [i for i in ids if live[i][1] == "docsib"]
    for n in docsibs:
        for p in tags:
            if live[p][1] != "docroot" or True:
                out.append(("document-sibling-offered", (rng.choice(["append", "prepend"]), p, (("node", n),)), "InvalidOperation"))
        for x in attached:
            out.append(("document-sibling-offered", (rng.choice(["follow", "precede"]), x, (("node", n),)), "InvalidOperation"))
    # a comment / PI offered as sibling of a parentless text or tag node
    for r in loose:
        if live[r][0] in ("text", "tag"):
            for n in loose:
                if n != r and live[n][0] in ("comment", "pi"):
                    out.append(("comment-next-to-parentless-text-or-tag", (rng.choice(["follow", "precede"]), r, (("node", n),)),
                                "TypeError" if live[r][0] == "tag" else "InvalidOperation"))
    # a document's root offered as sibling
    for r in roots:
        for x in attached:
            if r not in anc(x):
                out.append(("document-root-offered", (rng.choice(["follow", "precede"]), x, (("node", r),)), "InvalidOperation"))
    # D: positions
    for p in tags:
        nk = len(c01.vis_kids(real, real.objs[p], F_ALL))
        out.append(("index-out-of-range", ("insert", p, nk + 1 + rng.randint(0, 2), (("str", real.reserve(1)[0], "T"),)), "IndexError"))
        out.append(("index-out-of-range", ("insert", p, -1 - rng.randint(0, 2), (("str", real.reserve(1)[0], "T"),)), "ValueError"))
        if nk or rng.random() < 0.5:
            out.append(("index-out-of-range", ("setitem", p, nk + rng.randint(0 if nk else 1, 2), ("str", real.reserve(1)[0], "T")), "IndexError"))
        out.append(("index-out-of-range", ("delitem", p, nk + rng.randint(0, 2)), "IndexError"))
        for k in range(1, nk + 2):
            out.append(("negative-item-index", ("setitem", p, -k, ("str", real.reserve(1)[0], "T")), "IndexError"))
    # a document's root offered; an ancestor (or the node itself) offered  (findings 20, 21 of round 1, repaired)
    for r in roots:
        for p in tags:
            if p != r:
                out.append(("document-root-offered", ("append", p, (("node", r),)), "InvalidOperation"))
    for n in loose:
        if live[n][0] == "tag":
            for x in ids:
                if n in anc(x):
                    if x != n:
                        out.append(("ancestor-offered", (rng.choice(["follow", "precede"]), x, (("node", n),)), "InvalidOperation"))
                    if live[x][0] == "tag":
                        out.append(("ancestor-offered", (rng.choice(["append", "prepend"]), x, (("node", n),)), "InvalidOperation"))
    return out


CLASS_OF = {}      # findings 19-22 are repaired: no class is excused


def classify(finding, case):
    return finding["cls"] == CLASS_OF.get(case.get("category"))


SMALL_DOCS = ["<r/><!--c-->", "<!--c--><r/>", "<?p q?><r></r>", '<r xmlns="d"/><?e f?>', "<r/><!--c--><?e f?>", "<r>t</r><!--c-->"]


def run_case(ctx, rng, h):
    real = Real()
    docs_xml = [rng.choice(SMALL_DOCS) if rng.random() < 0.3 else c01.gen_doc(rng) for _ in range(rng.choice([1, 1, 2]))]
    root_assign = []
    for x in docs_xml:
        d = Document(x)
        # the root setter is outside the Coq model: it is exercised before the first dump, so that the refusals below are
        # also demanded of documents whose root was (re-)assigned
        r = rng.random()
        try:
            if r < 0.25:
                d.root = d.root
                root_assign.append("self")
            elif r < 0.35:
                d.root = d.root.clone(deep=True)
                root_assign.append("clone")
            else:
                root_assign.append(None)
        except Exception as e:  # noqa: BLE001
            ctx.fail("assigning a document's own root (or a clone of it) as its root raises %s" % type(e).__name__,
                     {"category": "root-setter", "doc": x, "exception": type(e).__name__}, classify)
            root_assign.append("failed")
        real.docs.append(d)
    keep = c01.gen_pool(rng) + [impl.TextNode("L"), impl.new_comment_node("lc"), impl.new_processing_instruction_node("lp", "v")]
    real.dump_world()
    for o in keep:
        real.nid(o)
        if isinstance(o, impl.TagNode):
            real.dump_el(o)
    w0 = real.dump_world()
    rec = {"docs": docs_xml, "w0": w0, "steps": [], "root_assign": root_assign}
    w = w0
    for _ in range(rng.randint(0, 10)):          # reach a state through legal edits
        o = c01.gen_op(real, rng, w, F_ALL)
        if o is None or c01.skip_op(real, o, w, F_ALL) or c01.classes_of(real, o, w, F_ALL):
            continue
        if any(s[0] == "node" and c01.live_nodes(w)[s[1]][1] is True for s in c01.op_sources(o)):
            continue
        exc = real.run(F_ALL, o)
        w1 = real.dump_world()
        partial = exc is not None and len(c01.op_sources(o)) > 1
        rec["steps"].append({"op": o, "exc": exc, "w": w1, "category": "legal", "expect": None, "before": w, "partial": partial})
        w = w1
        if exc in ("AssertionError", "AttributeError") or partial:
            return rec
    cands = attempts(real, rng, w)
    rng.shuffle(cands)
    seen = {}
    for cat, o, expect in cands:
        if seen.get(cat, 0) >= 3 or len(rec["steps"]) > 52:
            continue
        seen[cat] = seen.get(cat, 0) + 1
        # the refusals do not depend on the caller's filters (positions do: those calls run under ())
        F = F_ALL if o[0] in ("insert", "setitem", "delitem") else rng.choice([F_DEFAULT, F_DEFAULT, F_DEFAULT, F_TEXT, F_ALL, F_ALL])
        exc = real.run(F, o)
        w1 = real.dump_world()
        rec["steps"].append({"op": o, "exc": exc, "w": w1, "category": cat, "expect": expect, "before": w, "F": F})
        if w1 != w:
            break
    return rec


def compare(ctx, rec, val):
    if val is None:
        ctx.mismatch("cstep evaluation", "coqc failed on a case file")
        return
    cs, as_, wf = T.decode_both(val)
    for idx, (st, (cr, tr, cw)) in enumerate(zip(rec["steps"], cs)):
        o = st["op"]
        case = {"docs": rec["docs"], "root_assigned_before": rec["root_assign"], "initial_world": rec["w0"],
                "ops": [[s.get("F", F_ALL), s["op"]] for s in rec["steps"][:idx + 1]],
                "category": st["category"], "exception": st["exc"]}
        ctx.count(1, st["category"])
        if st["category"] != "legal":
            live = c01.live_nodes(st["before"])
            srcs = c01.op_sources(o)
            offered = tuple((live[s[1]][0], live[s[1]][1]) if s[0] == "node" else s[0] for s in srcs)
            ctx.nontrivial_case((st["category"], o[0], live[o[1]][:2], offered, st["exc"]))
            ctx.sample({"category": st["category"], "op": o, "exception": st["exc"]})
            # ---- the property on the implementation
            changed = st["w"] != st["before"]
            if st["exc"] is None:
                ctx.fail("an illegal call was accepted", dict(case, after=st["w"]), classify)
                return
            if st["expect"] and st["exc"] != st["expect"]:
                ctx.fail("refused with %s instead of %s" % (st["exc"], st["expect"]), case, classify)
                return
            if st["expect"] is None and st["exc"] not in ("InvalidOperation", "TypeError"):
                ctx.fail("fails with %s instead of a refusal" % st["exc"], case, classify)
                return
            if changed:
                ctx.fail("the trees differ after a refused call", dict(case, before=st["before"], after=st["w"]), classify)
                return
        # ---- correspondence with cstep
        mexc = None if cr[0] == "ok" else cr[1]
        rexc = None if st["exc"] is None else T.EXN[st["exc"]]
        if mexc != rexc:
            ctx.mismatch("cstep result vs implementation", {"case": case, "impl": st["exc"], "model": cr})
            return
        if st["category"] != "legal" and cr[0] != "rejected":
            ctx.mismatch("the model does not classify the exception as a refusal", {"case": case, "model": cr})
            return
        if cr[0] == "crash" or st.get("partial"):
            return
        if T.norm_cworld(cw) != st["w"]:
            ctx.mismatch("cstep state vs implementation", {"case": case, "impl": st["w"], "model": T.norm_cworld(cw)})
            return


ALPHA = ["-", "-", "a", " ", "x", "m", "l", "X", "M", "L", "K", "é"]


REQ_SPEC = ("From Coq Require Import List NArith.\nFrom Delb.Base Require Import PyStr.\n"
            "From Delb.Conc Require Import SetterSpec.\nLocal Open Scope N_scope.\n")
MULTILINE = ["a\n--", "a\nb-", "\n-", "x\n--y", "first line\nsecond -- line", "a\nb", "--\nx", "a-\nb", "\n"]


def comment_rule_py(s):
    """the stated rule (XML 1.0, 2.5), independent of the source"""
    return "--" in s or s.endswith("-")


def validator_cases(ctx, n):
    strs = ["", "-", "--", "a-", "a--b", "-a", "xml", "XML", "xMl", "xmlx", "xm", " xml", "\u2133"] + MULTILINE
    for _ in range(n):
        strs.append("".join(ctx.rng.choice(ALPHA + ["\n"]) for _ in range(ctx.rng.randint(0, 6))))
    # the independent rule, evaluated in Coq (Conc/SetterSpec.v does not depend on anything generated from the validators)
    spec_vals = ctx.coq_eval("c09r", REQ_SPEC, ["[if comment_rule %s then 1 else 0]" % T.gstr(s) for s in strs], chunk=400)
    terms = []
    for s in strs:
        terms.append("[if comment_content_refused %s then 1 else 0]" % T.gstr(s))
        terms.append("[if pi_target_refused %s then 1 else 0]" % T.gstr(s))
    vals = ctx.coq_eval("c09v", REQ_VAL, terms, chunk=400)
    for i, s in enumerate(strs):
        # ---- comment content against the stated rule: attached and parentless comments
        rule = comment_rule_py(s)
        if spec_vals[i] is not None and bool(spec_vals[i][0]) != rule:
            ctx.mismatch("comment_rule in Coq vs the same rule in Python", {"value": s})
        for where in ("attached", "parentless"):
            ctx.count(1, "comment-rule/" + where)
            node = new_comment_node("c")
            r = Document("<r/>").root
            if where == "attached":
                r.append_children(node)
            before = (str(r), node.content)
            try:
                node.content = s
                raised = None
            except Exception as e:  # noqa: BLE001
                raised = type(e).__name__
            case = {"category": "validator", "value": s, "comment": where, "exception": raised}
            if rule and raised is None:
                ctx.fail("the content setter accepts what the rule for comments refuses ('--' inside or '-' at the end): "
                         "the tree now serialises to ill-formed XML", dict(case, serialisation=str(r) if where == "attached" else str(node)), classify)
            elif raised not in (None, "ValueError"):
                ctx.fail("comment content assignment fails with %s" % raised, case, classify)
            elif raised and (str(r), node.content) != before:
                ctx.fail("node changed by a refused comment content assignment", case, classify)
            elif not rule and raised:
                ctx.mismatch("the content setter refuses a value the stated rule accepts", {"case": case})
        # ---- the generated validators against the implementation
        for which, v in (("comment", vals[2 * i]), ("pi", vals[2 * i + 1])):
            ctx.count(1, "validator/" + which)
            node = new_comment_node("c") if which == "comment" else new_processing_instruction_node("t", "c")
            r = Document("<r/>").root
            r.append_children(node)
            before = (str(r), node.content, getattr(node, "target", None))
            try:
                if which == "comment":
                    node.content = s
                else:
                    node.target = s
                raised = None
            except ValueError:
                raised = "ValueError"
            except Exception as e:  # noqa: BLE001
                raised = type(e).__name__
            if v is None:
                ctx.mismatch("validator evaluation", "coqc failed")
                continue
            if bool(v[0]) != (raised == "ValueError"):
                ctx.mismatch("generated %s validator vs implementation" % which, {"value": s, "impl": raised, "model": v})
            if raised and (str(r), node.content, getattr(node, "target", None)) != before:
                ctx.fail("node changed by a refused %s assignment" % which, {"value": s, "category": "validator"}, classify)
            if raised and raised != "ValueError":
                ctx.fail("%s assignment fails with %s" % (which, raised), {"value": s, "category": "validator"}, classify)
            ctx.nontrivial_case((which, s))


def replay_open(f):
    return c01.replay_open(f)


def chain_cases(ctx):
    """a comment / PI without a parent that has comment / PI siblings (a chain of top-level nodes) is not detached: no
    member of the chain may be added elsewhere, under any ambient filter.  Such chains are outside the Coq model (they
    are reported as unmodelled there), so this is checked on the implementation only."""
    filters = [None, impl.is_text_node, impl.is_tag_node, ()]
    for filt in filters:
        for member in range(3):
            for how in ("append", "follow", "precede", "replace", "insert"):
                with impl.altered_default_filters():
                    c1 = impl.new_comment_node("first")
                    c1.add_following_siblings(impl.new_processing_instruction_node("second", "x"), impl.new_comment_node("third"))
                    chain = [c1] + list(c1.iterate_following_siblings())
                    doc = Document("<r><a/>t</r>")
                    target = doc.root
                    before = ([str(x) for x in chain], str(doc))
                offered = chain[member]
                ctx.count(1, "parentless-chain")
                ctx.nontrivial_case(("chain", str(filt), member, how))

                def call():
                    if how == "append":
                        target.append_children(offered)
                    elif how == "follow":
                        target[0].add_following_siblings(offered)
                    elif how == "precede":
                        target[0].add_preceding_siblings(offered)
                    elif how == "replace":
                        target[0].replace_with(offered)
                    else:
                        target.insert_children(0, offered)
                try:
                    if filt is None:
                        call()
                    elif filt == ():
                        with impl.altered_default_filters():
                            call()
                    else:
                        with impl.altered_default_filters(filt):
                            call()
                    outcome = None
                except Exception as e:  # noqa: BLE001
                    outcome = type(e).__name__
                with impl.altered_default_filters():
                    c0 = chain[0]
                    while c0.fetch_preceding_sibling() is not None:
                        c0 = c0.fetch_preceding_sibling()
                    after = ([str(c0)] + [str(x) for x in c0.iterate_following_siblings()], str(doc))
                case = {"category": "parentless-chain", "filter": str(filt), "member": member, "call": how, "exception": outcome}
                if outcome != "InvalidOperation":
                    ctx.fail("a member of a chain of parentless comments / PIs was not refused with InvalidOperation (%s)" % outcome, case, classify)
                elif after != before:
                    ctx.fail("the trees differ after a refused call", dict(case, before=before, after=after), classify)


def root_setter_cases(ctx):
    """`document.root = node` demands a detached tag node: a node with a parent is refused with ValueError also when it
    is an only child (or has only comment / PI siblings) and its tree belongs to no document; nothing changes.  The
    root setter is outside the Coq model: checked on the implementation only."""
    builds = [
        ("only child", lambda: impl.new_tag_node("p", children=[impl.tag("k")])),
        ("comment siblings", lambda: impl.new_tag_node("p", children=[impl.new_comment_node("a"), impl.tag("k"), impl.new_comment_node("b")])),
        ("pi sibling", lambda: impl.new_tag_node("p", children=[impl.tag("k"), impl.new_processing_instruction_node("t", "v")])),
        ("text sibling", lambda: impl.new_tag_node("p", children=["t", impl.tag("k")])),
        ("nested only child", lambda: impl.new_tag_node("p", children=[impl.new_tag_node("q", children=[impl.tag("k")])])),
    ]
    for label, build in builds:
        for filt in (None, (), impl.is_tag_node):
            p = build()
            with impl.altered_default_filters():
                k = next(x for x in p.iterate_descendants() if isinstance(x, impl.TagNode) and x.local_name == "k")
                kp = k.parent
            doc = Document("<!--pro--><r>t</r><!--epi-->")
            old = doc.root
            before = (str(p), str(doc))
            ctx.count(1, "root-setter")
            ctx.nontrivial_case(("root-setter", label, str(filt)))
            try:
                if filt is None:
                    doc.root = k
                elif filt == ():
                    with impl.altered_default_filters():
                        doc.root = k
                else:
                    with impl.altered_default_filters(filt):
                        doc.root = k
                outcome = None
            except Exception as e:  # noqa: BLE001
                outcome = type(e).__name__
            case = {"category": "root-setter", "offered": label, "filter": str(filt), "exception": outcome}
            with impl.altered_default_filters():
                same = doc.root is old and k.parent is kp and (str(p), str(doc)) == before
            if outcome != "ValueError":
                ctx.fail("an attached node was accepted as a document's root (%s)" % outcome, case, classify)
            elif not same:
                ctx.fail("the trees differ after a refused root assignment", case, classify)
            # the constructor route: Document(node) with the same attached node of a document-less tree
            p2 = build()
            with impl.altered_default_filters():
                k2 = next(x for x in p2.iterate_descendants() if isinstance(x, impl.TagNode) and x.local_name == "k")
                kp2 = k2.parent
            before2 = str(p2)
            ctx.count(1, "root-setter")
            ctx.nontrivial_case(("document-constructor", label, str(filt)))
            try:
                if filt is None:
                    made = Document(k2)
                elif filt == ():
                    with impl.altered_default_filters():
                        made = Document(k2)
                else:
                    with impl.altered_default_filters(filt):
                        made = Document(k2)
                outcome2 = None
            except Exception as e:  # noqa: BLE001
                outcome2 = type(e).__name__
            case2 = {"category": "root-setter", "call": "Document(node)", "offered": label, "filter": str(filt), "exception": outcome2}
            with impl.altered_default_filters():
                same2 = k2.parent is kp2 and str(p2) == before2 and k2.document is None
            if outcome2 != "ValueError":
                ctx.fail("Document(node) accepted an attached node of a document-less tree (%s): it is a child of its parent "
                         "and a document's root at once" % outcome2, case2, classify)
            elif not same2:
                ctx.fail("the tree differs after a refused Document(node)", case2, classify)


XMLNS = "http://www.w3.org/2000/xmlns/"
REQ_SET = T.REQ.replace("CTree COps CEncode", "CTree COps CEncode Setters")


def reserved_attribute(w):
    def go(e):
        i, k, dns, data, kids = e
        if k[0] == "tag" and any(a[0] == XMLNS or a[1] == "xmlns" for a in k[3]):
            return True
        return any(go(c) for c, _ in kids)
    return any(go(r) for _, r, _ in w["docs"]) or any(go(l[1]) for l in w["loose"] if l[0] == "el")


def setter_cases(ctx):
    """comment content, PI target, PI content, attribute creation and renaming through every route: refused exactly when
    the generated validator (evaluated in Coq through csetter) refuses, with ValueError, and then the complete internal
    state of all trees is as before"""
    xml = '<!--pro--><?pp a?><r xmlns="d" k="v"><!--c--><?p q?><x k="v" a="1">t</x></r><?e f?>'
    pi_contents = [" x", "\tx", "\nx", "\rx", "x ", "", "x", "  ", "x\n y"]
    names = [("", "xmlns"), (XMLNS, "a"), (XMLNS, "xmlns"), ("", "xmlnsx"), ("", "a"), ("u", "xmlns"), ("u", "b"), ("d", "k")]
    cases = []      # (label, setter term maker, python call)

    def fresh():
        real = Real()
        real.docs.append(Document(xml))
        loose_pi = impl.new_processing_instruction_node("lp", "v")
        loose_c = impl.new_comment_node("lc")
        real.dump_world()
        real.nid(loose_pi)
        real.nid(loose_c)
        w = real.dump_world()
        live = c01.live_nodes(w)
        byk = {}
        for i, v in sorted(live.items()):
            byk.setdefault((v[0], v[1]), []).append(i)
        return real, w, byk, loose_pi, loose_c

    def run_one(label, term_of, call_of, expect_kind):
        real, w, byk, lpi, lc = fresh()
        before = w
        term, target = term_of(byk)
        try:
            held = call_of(real, byk)
            exc = None
        except Exception as e:  # noqa: BLE001
            exc, held = type(e).__name__, None
        after = real.dump_world()
        cases.append({"label": label, "term": "csetter_enc %s %s" % (T.gworld(before), term), "exc": exc, "before": before,
                      "after": after, "held": held})

    def obj(real, byk, key, j=0):
        return real.objs[byk[key][j]]
    # PI content: attached, next to the root, parentless; and the constructor
    for s_ in pi_contents:
        for key, lab in ((("pi", True), "attached"), (("pi", "docsib"), "document-level"), (("pi", False), "parentless")):
            run_one("pi.content (%s) = %r" % (lab, s_),
                    lambda byk, key=key, s_=s_: ("(SetPIContent %d %s)" % (byk[key][0], T.gstr(s_)), byk[key][0]),
                    lambda real, byk, key=key, s_=s_: setattr(obj(real, byk, key), "content", s_), "pi")
        run_one("new_processing_instruction_node('t', %r)" % s_,
                lambda byk, s_=s_: ("(SetPIContent %d %s)" % (byk[("pi", False)][0], T.gstr(s_)), None),
                lambda real, byk, s_=s_: impl.new_processing_instruction_node("t", s_), "pi-new")
    # comment content and PI target through the model as well
    for s_ in ["a--b", "a-", "ok", "-x"]:
        run_one("comment.content = %r" % s_,
                lambda byk, s_=s_: ("(SetCommentContent %d %s)" % (byk[("comment", True)][0], T.gstr(s_)), None),
                lambda real, byk, s_=s_: setattr(obj(real, byk, ("comment", True)), "content", s_), "comment")
    for s_ in ["xml", "XmL", "", "ok"]:
        run_one("pi.target = %r" % s_,
                lambda byk, s_=s_: ("(SetPITarget %d %s)" % (byk[("pi", True)][0], T.gstr(s_)), None),
                lambda real, byk, s_=s_: setattr(obj(real, byk, ("pi", True)), "target", s_), "target")
    # attributes: every route that creates or renames one
    def xnode(real, byk):
        return next(real.objs[i] for i in byk[("tag", True)] if real.objs[i].local_name == "x")

    routes = {
        "attributes[(ns, name)] = v": lambda n, ns, nm: n.attributes.__setitem__((ns, nm), "1"),
        "attributes['{ns}name'] = v": lambda n, ns, nm: n.attributes.__setitem__(("{%s}%s" % (ns, nm)) if ns else nm, "1"),
        "node[(ns, name)] = v": lambda n, ns, nm: n.__setitem__((ns, nm), "1"),
        "attributes.update": lambda n, ns, nm: n.attributes.update({(ns, nm): "1"}),
        "attributes.setdefault": lambda n, ns, nm: n.attributes.setdefault((ns, nm), "1"),
        "new_tag_node(attributes=)": lambda n, ns, nm: impl.new_tag_node("n", attributes={(ns, nm): "1"}),
        "append tag() definition": lambda n, ns, nm: n.append_children(impl.tag("n", {(("{%s}%s" % (ns, nm)) if ns else nm): "1"})),
        "Attribute.local_name / namespace": None,
    }
    # direct tuples whose local name holds Clark notation, and a reserved name in the default namespace
    names = names + [("d", "xmlns"), ("", "{u}xmlns"), ("", "{%s}a" % XMLNS), ("", "{u}b")]
    for ns, nm in names:
        for route, fn in routes.items():
            if nm.startswith("{") and route not in ("attributes[(ns, name)] = v", "node[(ns, name)] = v", "attributes.update",
                                                      "attributes.setdefault", "new_tag_node(attributes=)"):
                continue
            def call(real, byk, ns=ns, nm=nm, fn=fn, route=route):
                n = xnode(real, byk)
                if fn is not None:
                    fn(n, ns, nm)
                    return None
                a = n.attributes["a"]            # renaming an attached Attribute
                if a.local_name != nm:
                    a.local_name = nm
                if (a.namespace or "") != ns:
                    a.namespace = ns
                return None

            def term(byk, ns=ns, nm=nm, route=route):
                if route == "append tag() definition" and ns:
                    # tag() keeps a Clark-notation string key as the *name* ('', '{ns}name'): that is what is validated
                    return ("(SetAttribute %d %s %s %s)" % (byk[("tag", True)][-1], T.gstr(""), T.gstr("{%s}%s" % (ns, nm)), T.gstr("1")), None)
                return ("(SetAttribute %d %s %s %s)" % (byk[("tag", True)][-1], T.gstr(ns), T.gstr(nm), T.gstr("1")), None)
            run_one("%s with (%r, %r)" % (route, ns, nm), term, call, "attr")
    vals = ctx.coq_eval("c09s", REQ_SET, [c["term"] for c in cases], chunk=max(8, len(cases) // 16 + 1))
    for c, v in zip(cases, vals):
        ctx.count(1, "setter")
        ctx.nontrivial_case(("setter", c["label"]))
        case = {"category": "setter", "call": c["label"], "exception": c["exc"]}
        if v is None:
            ctx.mismatch("csetter evaluation", "coqc failed")
            return
        d = T.Dec(v)
        res = d.framed().result()
        mw = T.norm_cworld(d.framed().cworld())
        refused = res[0] == "rejected"
        if refused and c["exc"] is None:
            # the validator of the source refuses this value, but this route did not raise
            ctx.fail("a value the validator refuses was accepted without ValueError", dict(case, after=c["after"]), classify)
            continue
        if refused != (c["exc"] == "ValueError"):
            ctx.mismatch("csetter (generated validators) vs implementation", {"case": case, "model": res})
            continue
        if c["exc"] not in (None, "ValueError"):
            ctx.fail("a setter fails with %s" % c["exc"], case, classify)
            continue
        if not refused and reserved_attribute(c["after"]):
            ctx.fail("an attribute named xmlns / in the xmlns namespace was created without ValueError",
                     dict(case, after=c["after"]), classify)
        if refused:
            if c["after"] != c["before"]:
                ctx.fail("the trees differ after a refused assignment", dict(case, before=c["before"], after=c["after"]), classify)
            if mw != c["before"]:
                ctx.mismatch("csetter changed the world on a refusal", {"case": case})


def fixed_cases(ctx):
    """the witnesses of repaired findings must not fail again"""
    for f in common.load_findings():
        if f["property"] == "C09" and f["status"] == "fixed" and f.get("witness", {}).get("python"):
            ctx.count(1, "fixed-finding-witness")
            if c01.replay_open(f):
                ctx.fail("the witness of the repaired finding %s fails again" % f["id"], {"category": "regression", "finding": f["id"]}, classify)


def run(ctx, args):
    ctx.branches, ctx.skipped = {}, {}
    ctx.regen(["GenWs.v", "GenValidators.v"])
    ctx.build("Conc/SetterSpec.vo")
    ctx.build("Props/C09.vo")
    quick = ctx.tier == "quick"
    with no_gc():
        for b in range(1 if quick else 10):
            recs = [run_case(ctx, ctx.rng, b * 1000 + h) for h in range(90 if quick else 120)]
            terms = [T.ghist(r["w0"], [(s.get("F", F_ALL), s["op"]) for s in r["steps"]]) for r in recs]
            vals = ctx.coq_eval("c09", T.REQ, terms, chunk=max(4, len(terms) // 16 + 1))
            for r, v in zip(recs, vals):
                compare(ctx, r, v)
        validator_cases(ctx, 150 if quick else 3000)
        chain_cases(ctx)
        root_setter_cases(ctx)
        setter_cases(ctx)
        fixed_cases(ctx)
    return ctx.finish(
        rule="states: 1-2 parsed documents (as in C01) + a pool of parentless nodes, 0-10 legal edits; then illegal "
             "single-node calls sampled from the full product for that state: every attached node (text in DATA, "
             "TAIL and APPENDED position, tag, comment, PI) offered to every other node through add_following / "
             "add_preceding / replace_with / append / prepend / insert / item assignment; detach and replace of roots, "
             "retain on parentless nodes, text / tag() / parentless nodes as siblings of document roots and parentless "
             "nodes, out-of-range positions; for each: exception class, and the complete internal state of all trees "
             "before and after (must be identical), and the same from cstep in Coq.  Validators: generated Gallina "
             "definitions vs the setters on fixed and random strings.  Non-trivial = distinct (category, call, target "
             "kind/state, offered kind/state, exception).",
        replay_open=replay_open)


if __name__ == "__main__":
    common.main(run, "C09")
