"""C05 - all navigation relations describe one and the same ordered tree.

Trees: parsed documents and trees reached by edit histories through the public API (chained text nodes, text at every
slot, comments, PIs).  For every node, a grid of ambient filters D (default_filters[-1]) and passed filters F:
  (a) correspondence: every navigation result of the real API == Conc/CNav.v evaluated in Coq on the dumped concrete
      structure (lxml slots + chains of text objects), for all D of the grid;
  Histories are stateful: before every edit step all navigation relations are queried on the held node objects (results
  discarded), the final queries are made ON THE SAME OBJECTS, so a relation must describe the current tree, not a
  remembered one; fixed histories move subtrees to another level, insert / remove siblings before held nodes and merge
  text nodes.  A few relations are also queried in the body of loops over suspended iterators (they must see the caller's
  filters), and one case holds only a later member of a tail text chain across gc.collect().
  (b) direct search: the relations the property states, checked on the real API results, with Tree/ANav.v evaluated in
      Coq on the plain tree (read through iterate_children only) as the oracle: the routines whose theorem is unguarded
      (UNGUARDED below) under all ambient filters, the others under none, the library default (tag or text), tags only.
"""
import gc
import json
import sys

import common
from common import cstr
import impl
from impl import (Document, TagNode, TextNode, CommentNode, ProcessingInstructionNode, altered_default_filters,
                  new_tag_node, new_comment_node, new_processing_instruction_node, tag, is_tag_node, is_text_node,
                  is_comment_node, no_gc)
from _delb.nodes import _wrapper_cache, DETACHED
from _delb.exceptions import InvalidCodePath, InvalidOperation
from _delb.utils import _sort_nodes_in_document_order
from delb import get_traverser

REQ = ("From Coq Require Import List NArith ZArith.\nFrom Delb.Base Require Import PyStr.\n"
       "From Delb.Tree Require Import ATree ITree ANav.\nFrom Delb.Conc Require Import CTree CNav CNavDump.\n"
       "Local Open Scope N_scope.\n")


def _tag_or_text(n):
    return isinstance(n, (TagNode, TextNode))


def _not_x(n):
    return n.local_name != "x"


# ambient filters (default_filters[-1]); "strict" = the property's relations are demanded under it (see module doc)
AMBIENT = [("none", (), True), ("default", None, True), ("tags", (is_tag_node,), True),
           ("text", (is_text_node,), False), ("comments", (is_comment_node,), False),
           ("tags-not-x", (is_tag_node, _not_x), False)]
# passed filters
PASSED = [("none", ()), ("tag", (is_tag_node,)), ("text", (is_text_node,)), ("comment", (is_comment_node,)),
          ("tag-not-x", (is_tag_node, _not_x))]
SLICES = [(None, None), (0, 2), (1, None), (None, -1), (-2, None), (1, 3)]
ROUTINE = {1: "iterate_children", 2: "__len__", 3: "first_child", 4: "last_child", 5: "__getitem__(int)",
           6: "__getitem__(slice)", 7: "index", 8: "parent", 9: "fetch_following_sibling",
           10: "iterate_following_siblings", 11: "fetch_preceding_sibling", 12: "iterate_preceding_siblings",
           13: "iterate_descendants", 14: "last_descendant", 15: "iterate_ancestors", 16: "depth",
           17: "iterate_following", 18: "iterate_preceding", 19: "full_text", 20: "traverse_bf_ltr_ttb",
           21: "traverse_df_ltr_btt", 22: "traverse_df_ltr_ttb", 23: "_sort_nodes_in_document_order",
           24: "fetch_following", 25: "fetch_preceding", 26: "location_path", 27: "document"}

DOCS_TOP = ['<!--p--><r>a<x/>b</r><!--e-->', '<?pi x?><!--p--><r><a><!--c--></a>t</r>', '<r><x>1</x>2</r><!--e--><?pi y?>']
DOCS = ['<r>a<x/>b<!--c-->d<y>e<z/>f</y>g</r>', '<r><x/><y/></r>', '<r>t</r>', '<r/>',
        '<r><a><!--c--></a><x>1<i/>2<?p q?>3</x>4<y/>5</r>', '<r><!--c--><x><y><z>t</z></y></x><?p q?></r>',
        '<r><x>1<i/>2<j/>3</x>4<y/>5</r>', '<r><a><b><!--c--><?p?></b></a>t<x><x>u</x></x></r>']
STRS = ["T", "uu", "w w", " "]
# fixed histories (detection must not depend on the seed): queries are made on the held objects before every step and
# after the last one.  <r><a><b><c>t</c></b></a><x><y/></x>u</r>: r0 a1 b2 c3 t4 x5 y6 u7
MOVE_DOC = '<r><a><b><c>t</c></b></a><x><y/></x>u</r>'
FIXED_HISTORIES = [
    (MOVE_DOC, [["detach", 2, 0, [["str", "-"]]], ["append", 3, 0, [["loose", 0]]]]),      # b (with c, t) from a to below y
    (MOVE_DOC, [["move", 2, 5, []]]),                                                        # b below x
    (MOVE_DOC, [["move", 5, 1, []], ["move", 3, 0, []]]),                                    # x below a, then c up to r
    (MOVE_DOC, [["precede", 5, 0, [["tag", "n"], ["str", "s"]]], ["detach", 1, 0, [["str", "-"]]]]),   # siblings before held x
    (MOVE_DOC, [["append", 2, 0, [["str", "p"], ["str", "q"]]], ["merge", 2, 0, [["str", "-"]]],
                ["prepend", 0, 0, [["comment", "cc"]]]]),
]
OPS = ["append", "prepend", "insert", "follow", "precede", "detach", "replace", "merge", "move", "move"]


# ------------------------------------------------------------------------------------------------ trees
def gen_plan(rng, nops):
    plan = []
    for _ in range(nops):
        op = rng.choice(OPS)
        args = []
        for _ in range(rng.randint(1, 3)):
            q = rng.random()
            if q < .40:
                args.append(["str", rng.choice(STRS)])
            elif q < .55:
                args.append(["text", rng.choice(STRS)])
            elif q < .70:
                args.append(["tag", rng.choice(["n", "x"])])
            elif q < .78:
                args.append(["comment", "cc"])
            elif q < .84:
                args.append(["pi", "tt"])
            elif q < .90:
                args.append(["tagdef", rng.choice(["td", "x"])])
            else:
                args.append(["loose", rng.randint(0, 50)])
        plan.append([op, rng.randint(0, 10 ** 6), rng.randint(0, 10 ** 6), args])
    return plan


def doc_order(root):
    out = [root]
    if isinstance(root, TagNode):
        for c in root.iterate_children():
            out.extend(doc_order(c))
    return out


def touch(nodes):
    """query the navigation relations of held node objects (results discarded): whatever an object remembers from a
    query must not survive an edit of the tree - the queries after the history are made on the same objects"""
    for amb in (None, ()):
        ctxm = altered_default_filters(*amb) if amb is not None else None
        if ctxm is not None:
            ctxm.__enter__()
        try:
            for n in nodes:
                for q in (lambda: n.depth, lambda: n.index, lambda: n.parent, lambda: n.first_child, lambda: n.last_child,
                          lambda: n.last_descendant, lambda: n.full_text, lambda: n.document,
                          lambda: list(n.iterate_ancestors()), lambda: n.fetch_following_sibling(),
                          lambda: n.fetch_preceding_sibling(), lambda: n.fetch_following(), lambda: n.fetch_preceding(),
                          lambda: len(n) if isinstance(n, TagNode) else None,
                          lambda: n.location_path if isinstance(n, TagNode) else None,
                          lambda: list(n.iterate_descendants()), lambda: list(n.iterate_following_siblings())):
                    try:
                        q()
                    except Exception:  # noqa: BLE001
                        pass
        finally:
            if ctxm is not None:
                ctxm.__exit__(None, None, None)


def run_plan(xml, plan):
    """returns (root, keep) - the tree reached; every node object ever seen is kept alive.
    xml may also be 'loose:comment', 'loose:pi', 'loose:text' (a parentless node, a one-node tree) or 'loose:tag'"""
    if xml.startswith("loose:"):
        kind = xml[6:]
        node = {"comment": lambda: new_comment_node("cc"), "pi": lambda: new_processing_instruction_node("tt", "pp"),
                "text": lambda: TextNode("solo"), "tag": lambda: new_tag_node("n")}[kind]()
        if kind == "tag":
            with altered_default_filters():
                node.append_children("a", new_comment_node("c"), tag("x"), "b")
                node[2].append_children(TextNode("u"), TextNode("v"))
        return node, [node]
    if xml == "gc:tail-chain":
        # only a later member of a tail text chain is held while the cyclic collector runs
        doc = Document('<root><a/>one</root>')
        with altered_default_filters():
            doc.root.append_children('two', 'three')
            held = doc.root[3]
        gc.collect()
        return doc.root, [doc, held]
    doc = Document(xml)
    keep = [doc]
    loose = []
    with altered_default_filters():
        root = doc.root
        for op, tsel, isel, args in plan:
            nodes = doc_order(root)
            keep.extend(nodes)
            touch(nodes + loose)
            target = nodes[tsel % len(nodes)]
            if op == "move":                      # detach a subtree and re-attach it somewhere else, at another level
                dest = nodes[isel % len(nodes)]
                if not isinstance(dest, TagNode):
                    dest = dest.parent
                inside = set(id(x) for x in doc_order(target))
                if target is root or dest is None or id(dest) in inside:
                    continue
                moved = target.detach()
                kids = len(dest)
                try:
                    dest.insert_children(tsel % (kids + 1), moved)
                except InvalidOperation:
                    loose.append(moved)
                continue
            offered = []
            for kind, v in args:
                if kind == "str":
                    offered.append(v)
                elif kind == "text":
                    offered.append(TextNode(v))
                elif kind == "tag":
                    offered.append(new_tag_node(v))
                elif kind == "comment":
                    offered.append(new_comment_node(v))
                elif kind == "pi":
                    offered.append(new_processing_instruction_node(v, "pp"))
                elif kind == "tagdef":
                    offered.append(tag(v))
                elif loose:
                    offered.append(loose.pop(v % len(loose)))
            keep.extend(offered)
            if not offered:
                continue
            try:
                if op in ("append", "prepend", "insert"):
                    if not isinstance(target, TagNode):
                        target = target.parent
                    if op == "append":
                        target.append_children(*offered)
                    elif op == "prepend":
                        target.prepend_children(*offered)
                    else:
                        target.insert_children(isel % (len(target) + 1), *offered)
                elif target is root:
                    continue
                elif op == "follow":
                    target.add_following_siblings(*offered)
                elif op == "precede":
                    target.add_preceding_siblings(*offered)
                elif op == "detach":
                    loose.append(target.detach())
                elif op == "replace":
                    target.replace_with(offered[0])
                    loose.append(target)
                elif op == "merge":
                    (target if isinstance(target, TagNode) else target.parent).merge_text_nodes()
            except InvalidOperation:
                pass
        keep.extend(doc_order(root))
    return root, keep


# ------------------------------------------------------------------------------------------------ dumps
class Dump:
    """ids by first appearance in document order; the concrete structure as a Gallina `cel`; the plain tree as `itree`"""
    def __init__(self, root):
        self.ids = {}
        self.objs = []
        self.ok = True
        self.loose_text = isinstance(root, TextNode)
        self.docid = None
        pro, epi = [], []
        if isinstance(root, TagNode) and root._etree_obj.getparent() is None:
            e = root._etree_obj
            pro = [_wrapper_cache(x) for x in reversed(list(e.itersiblings(preceding=True)))]
            epi = [_wrapper_cache(x) for x in e.itersiblings()]
        if pro or epi:                            # a document with root-level siblings
            with altered_default_filters():
                cp = [self._el(x) for x in pro]
                cr = self._el(root)
                ce = [self._el(x) for x in epi]
                self.docid = len(self.objs)
                self.cel = "(Build_cdoc [%s] %s [%s])" % ("; ".join(cp), cr, "; ".join(ce))
                self.order = list(self.objs)
                api_pro = list(reversed(list(root.iterate_preceding_siblings())))
                api_epi = list(root.iterate_following_siblings())
                self.tree = [self.docid, "tag", "#document", [self._tree(x) for x in api_pro + [root] + api_epi]]
            self.itree = self._itree(self.tree)
            return
        with altered_default_filters():
            if self.loose_text:                   # a DETACHED text node is a tree of one node
                if root._position is not DETACHED or root.content == "":
                    self.ok = False
                self.cel = "(Build_tobj %d %s)" % (self.mid(root), cstr(root.content))
            else:
                self.cel = self._el(root)
            self.order = list(self.objs)
            self.tree = self._tree(root)          # through the public API only
        self.itree = self._itree(self.tree)

    def mid(self, o):
        k = id(o)
        if k not in self.ids:
            self.ids[k] = len(self.objs)
            self.objs.append(o)
        return self.ids[k]

    def _chain(self, head):
        app = []
        cur = head._appended_text_node
        while cur is not None:
            app.append(cur)
            cur = cur._appended_text_node
        if not head._exists:
            if app:
                self.ok = False
            return "no_chain"
        if head.content == "" or any(a.content == "" for a in app):
            self.ok = False                      # empty text objects: outside the modelled domain (C01 findings 15/28)
        h = self.mid(head)
        return "(Build_chain (Some %d) (Some %s) [%s])" % (
            h, cstr(head.content), "; ".join("Build_tobj %d %s" % (self.mid(a), cstr(a.content)) for a in app))

    def _el(self, w):
        i = self.mid(w)
        if isinstance(w, TagNode):
            kind = "(KTag [] %s [])" % cstr(w.local_name)
            data = self._chain(w._data_node)
            kids = []
            for k in w._etree_obj:
                kw = _wrapper_cache(k)
                ke = self._el(kw)
                kids.append("(%s, %s)" % (ke, self._chain(kw._tail_node)))
            return "(CEl %d %s None %s [%s])" % (i, kind, data, "; ".join(kids))
        kind = "(KComment [])" if isinstance(w, CommentNode) else "(KPI [] [])"
        return "(CEl %d %s None no_chain [])" % (i, kind)

    def _tree(self, n):
        if id(n) not in self.ids:
            self.ok = False
            return [-1, "?", "", []]
        i = self.ids[id(n)]
        if isinstance(n, TagNode):
            return [i, "tag", n.local_name, [self._tree(c) for c in n.iterate_children()]]
        if isinstance(n, TextNode):
            return [i, "text", n.content, []]
        if isinstance(n, CommentNode):
            return [i, "comment", "", []]
        return [i, "pi", "", []]

    def _itree(self, t):
        i, k, s, kids = t
        p = {"tag": "(PTag [] %s [])" % cstr(s), "text": "(PText %s)" % cstr(s), "comment": "(PComment [])",
             "pi": "(PPI [] [])"}.get(k, "(PComment [])")
        return "(INode %d %s [%s])" % (i, p, "; ".join(self._itree(c) for c in kids))

    def members(self, filters):
        return [i for i, o in enumerate(self.order) if all(f(o) for f in filters)]


def ilist(l):
    return "[" + "; ".join(str(i) for i in l) + "]"


# ------------------------------------------------------------------------------------------------ the real API as frames
def call(fn, enc):
    try:
        return [0] + enc(fn())
    except IndexError:
        return [2, 1]
    except InvalidCodePath:
        return [2, 2]
    except AttributeError:
        return [2, 3]
    except Exception:  # noqa: BLE001
        return [2, 0]


def real_frames(d, ambient, to_sort):
    """dict (node id, routine, aux) -> payload, evaluated under the ambient filter"""
    idof = lambda o: d.ids.get(id(o), 999999)  # noqa: E731
    e_opt = lambda o: [0] if o is None else [1, idof(o)]  # noqa: E731
    e_ids = lambda it: [idof(o) for o in it]  # noqa: E731
    e_nat = lambda k: [k]  # noqa: E731
    e_optnat = lambda k: [0] if k is None else [1, k]  # noqa: E731
    e_str = lambda s: [ord(c) for c in s]  # noqa: E731
    def e_path(p):                                  # "/*/*[2]/*[1]" -> [2, 1]
        assert p.startswith("/*")
        return [int(x[2:-1]) for x in p[2:].split("/") if x]
    with altered_default_filters():
        has_document = any(getattr(o, "document", None) is not None for o in d.order)
    bf = get_traverser(from_left=True, depth_first=False, from_top=True)
    btt = get_traverser(from_left=True, depth_first=True, from_top=False)
    ttb = get_traverser(from_left=True, depth_first=True, from_top=True)
    out = {}
    with altered_default_filters():
        kcount = {i: (len(list(o.iterate_children())) if isinstance(o, TagNode) else 0) for i, o in enumerate(d.order)}

    def body():
        for i, n in enumerate(d.order):
            if isinstance(n, TagNode):
                out[(i, 2, 0)] = call(lambda: len(n), e_nat)
                k = kcount[i]
                for j in range(2 * k + 2):
                    out[(i, 5, j)] = call(lambda: n[j - (k + 1)], lambda o: [idof(o)])
                for j, (a, b) in enumerate(SLICES):
                    out[(i, 6, j)] = call(lambda: n[a:b], e_ids)
            out[(i, 3, 0)] = call(lambda: n.first_child, e_opt)
            out[(i, 4, 0)] = call(lambda: n.last_child, e_opt)
            out[(i, 7, 0)] = call(lambda: n.index, e_optnat)
            out[(i, 8, 0)] = call(lambda: n.parent, e_opt)
            out[(i, 14, 0)] = call(lambda: n.last_descendant, e_opt)
            out[(i, 16, 0)] = call(lambda: n.depth, e_nat)
            out[(i, 19, 0)] = call(lambda: n.full_text, e_str)
            if isinstance(n, TagNode):
                out[(i, 26, 0)] = call(lambda: n.location_path, e_path)
            if has_document:
                out[(i, 27, 0)] = call(lambda: n.document, lambda doc: [0] if doc is None else [1, idof(doc.root)])
            for fi, (_, F) in enumerate(PASSED):
                out[(i, 1, fi)] = call(lambda: list(n.iterate_children(*F)), e_ids)
                out[(i, 9, fi)] = call(lambda: n.fetch_following_sibling(*F), e_opt)
                out[(i, 10, fi)] = call(lambda: list(n.iterate_following_siblings(*F)), e_ids)
                out[(i, 11, fi)] = call(lambda: n.fetch_preceding_sibling(*F), e_opt)
                out[(i, 12, fi)] = call(lambda: list(n.iterate_preceding_siblings(*F)), e_ids)
                out[(i, 13, fi)] = call(lambda: list(n.iterate_descendants(*F)), e_ids)
                out[(i, 15, fi)] = call(lambda: list(n.iterate_ancestors(*F)), e_ids)
                out[(i, 17, fi)] = call(lambda: list(n.iterate_following(*F)), e_ids)
                out[(i, 18, fi)] = call(lambda: list(n.iterate_preceding(*F)), e_ids)
                out[(i, 24, fi)] = call(lambda: n.fetch_following(*F), e_opt)
                out[(i, 25, fi)] = call(lambda: n.fetch_preceding(*F), e_opt)
                out[(i, 20, fi)] = call(lambda: list(bf(n, *F)), e_ids)
                out[(i, 21, fi)] = call(lambda: list(btt(n, *F)), e_ids)
                out[(i, 22, fi)] = call(lambda: list(ttb(n, *F)), e_ids)
        out[(-1, 23, 0)] = call(lambda: list(_sort_nodes_in_document_order([d.order[i] for i in to_sort])), e_ids)

    def suspended():
        """the same relations queried in the body of a loop over a suspended iterator must see the caller's filters"""
        tags = [n for n in d.order if isinstance(n, TagNode)]
        if not tags:
            return
        r = tags[0]
        inner = tags[len(tags) // 2]
        gens = [("iterate_descendants", lambda: r.iterate_descendants()), ("iterate_children", lambda: r.iterate_children()),
                ("iterate_following", lambda: inner.iterate_following()), ("iterate_preceding", lambda: d.order[-1].iterate_preceding()),
                ("iterate_ancestors", lambda: d.order[-1].iterate_ancestors()),
                ("iterate_following_siblings", lambda: inner.iterate_following_siblings()),
                ("traverse_df_ltr_ttb", lambda: ttb(r)), ("traverse_bf_ltr_ttb", lambda: bf(r)), ("traverse_df_ltr_btt", lambda: btt(r))]
        bad = []
        for gname, make in gens:
            try:
                for n in make():
                    i = idof(n)
                    got = {(idof(r), 2, 0): call(lambda: len(r), e_nat), (idof(r), 3, 0): call(lambda: r.first_child, e_opt),
                           (idof(r), 4, 0): call(lambda: r.last_child, e_opt), (i, 7, 0): call(lambda: n.index, e_optnat),
                           (i, 9, 0): call(lambda: n.fetch_following_sibling(), e_opt),
                           (idof(inner), 1, 0): call(lambda: list(inner.iterate_children()), e_ids)}
                    for key, v in got.items():
                        if key in out and out[key] != v and len(bad) < 3:
                            bad.append({"suspended": gname, "at": i, "node": key[0], "routine": ROUTINE[key[1]],
                                        "inside_loop": v, "outside": out[key]})
            except Exception:  # noqa: BLE001
                pass
        out["suspended"] = bad

    if ambient is None:
        body()
        suspended()
    else:
        with altered_default_filters(*ambient):
            body()
            suspended()
    return out


def parse_frames(vals):
    out = {}
    node = -1
    p = 0
    while p < len(vals):
        tagno, aux, ln = vals[p], vals[p + 1], vals[p + 2]
        payload = vals[p + 3:p + 3 + ln]
        p += 3 + ln
        if tagno == 100:
            node = payload[0]
        elif tagno == 23:
            out[(-1, 23, 0)] = payload
        else:
            out[(node, tagno, aux)] = payload
    return out


# ------------------------------------------------------------------------------------------------ the property, directly
def tree_index(t, parent=None, acc=None):
    acc = {} if acc is None else acc
    acc[t[0]] = (t, parent)
    for c in t[3]:
        tree_index(c, t[0], acc)
    return acc


def ancestors_of(idx, i):
    out = []
    p = idx[i][1]
    while p is not None:
        out.append(p)
        p = idx[p][1]
    return out


def classify(finding, case):
    """is the failing case inside the class of the listed finding?"""
    if finding["cls"] == "df-btt-prunes":
        # traverse_df_ltr_btt with passed filters descends through matching children only: a matching node below a
        # non-matching one (other than the given root) is not reached
        if case.get("routine") != "traverse_df_ltr_btt" or case.get("passed") in (None, "none"):
            return False
        idx = tree_index(case["tree"])
        ok = set(case["ambient_members"]) & set(case.get("passed_members") or [])
        root = case["node"]

        def hidden_match(i, blocked):
            for c in idx[i][0][3]:
                if blocked and c[0] in ok:
                    return True
                if hidden_match(c[0], blocked or c[0] not in ok):
                    return True
            return False
        return hidden_match(root, False)
    if finding["cls"] == "parentless-childless-depth":
        # depth of a comment / PI node without parent raises AttributeError
        if case.get("routine") not in ("depth",):
            return False
        t = case["tree"]
        return case["node"] == t[0] and t[1] in ("comment", "pi") and case.get("impl") == [2, 3]
    if finding["cls"] == "falsy-ancestor":
        # iterate_ancestors stops at the first ancestor that has no child matching the ambient filter
        # (`if parent:` is len(parent) != 0 under default_filters[-1]); depth of a tag node likewise
        if case.get("routine") not in ("iterate_ancestors", "depth", "depth == len(ancestors)"):
            return False
        idx = tree_index(case["tree"])
        vis = set(case["ambient_members"])
        for a in ancestors_of(idx, case["node"]):
            if not any(c[0] in vis for c in idx[a][0][3]):
                return True
        return False
    return False


# routines whose theorem holds for EVERY ambient filter (Props/C05.v: C05_one_tree, C05_index_filtered, C05_ancestors,
# C05_depth, C05_preceding, C05_fetch_preceding, C05_full_text): demanded under all ambient filters of the grid.  The
# others (following axis, last_descendant, bf / df_btt traversers, sorter) are restrictions of the unfiltered sequence
# only under the guard `up_closed_b D`: demanded under none / default / tags-only.
UNGUARDED = {1, 2, 3, 4, 5, 6, 7, 8, 9, 10, 11, 12, 13, 15, 16, 18, 19, 22, 25}


def demanded(key, d, amb_members, strict=True):
    """does the property state what this frame has to be under this ambient filter?"""
    node, routine, aux = key
    if not strict and routine not in UNGUARDED:
        return False
    if routine in (26, 27):
        return False                          # C08's observers: correspondence only here (theorems in Props/C08Nav.v)
    if routine == 7:
        return node in amb_members            # the index of a node the ambient filter hides is not defined
    return True


def direct_checks(ctx, d, case0, name, amb_members, real):
    """relations between the API results themselves (no oracle)"""
    vis = set(amb_members)
    n_nodes = len(d.order)
    order_vis = [i for i in range(n_nodes) if i in vis]
    for i in range(n_nodes):
        case = dict(case0, node=i)
        fol, prc = real[(i, 17, 0)], real[(i, 18, 0)]
        if fol[0] == 0 and prc[0] == 0:
            # iterate_preceding is independent of the ambient filter (all nodes before), iterate_following applies it
            got = list(reversed(prc[1:])) + [i] + fol[1:]
            want = [j for j in range(n_nodes) if j <= i or j in vis]
            if got != want:
                ctx.fail("preceding + node + following do not partition the tree in document order",
                         dict(case, routine="partition", got=got, want=want), classify)
        anc, dep = real[(i, 15, 0)], real[(i, 16, 0)]
        if anc[0] == 0 and dep[0] == 0 and dep[1] != len(anc) - 1:
            ctx.fail("depth differs from the number of ancestors",
                     dict(case, routine="depth == len(ancestors)", depth=dep[1], ancestors=anc[1:]), classify)
        if i in vis:
            nx = real[(i, 9, 0)]
            if nx[0] == 0 and nx[1] == 1 and real[(nx[2], 11, 0)] != [0, 1, i]:
                ctx.fail("fetch_preceding_sibling is not the inverse of fetch_following_sibling",
                         dict(case, routine="inverse siblings", next=nx[2], back=real[(nx[2], 11, 0)]), classify)
            pv = real[(i, 11, 0)]
            if pv[0] == 0 and pv[1] == 1 and real[(pv[2], 9, 0)] != [0, 1, i]:
                ctx.fail("fetch_following_sibling is not the inverse of fetch_preceding_sibling",
                         dict(case, routine="inverse siblings", prev=pv[2], back=real[(pv[2], 9, 0)]), classify)
            par, ix = real[(i, 8, 0)], real[(i, 7, 0)]
            if par[0] == 0 and par[1] == 1:
                kids = real[(par[2], 1, 0)]
                if kids[0] != 0 or kids[1:].count(i) != 1 or ix != [0, 1, kids[1:].index(i)]:
                    ctx.fail("node is not among its parent's children exactly once at its index",
                             dict(case, routine="index", children=kids, index=ix), classify)
    _ = order_vis


# ------------------------------------------------------------------------------------------------ one batch of trees
fs_of = {}


def check_trees(ctx, cases):
    prepared = []
    terms = []
    with no_gc():
        for case in cases:
            try:
                root, keep = run_plan(case["xml"], case["plan"])
            except Exception as e:  # noqa: BLE001  - an edit crashed: not this property's business, skip the history
                ctx.count(1, "history-raised-" + type(e).__name__)
                continue
            d = Dump(root)
            if case["xml"].startswith("gc:") and id(keep[1]) not in d.ids:
                ctx.fail("a node object the program holds is no longer part of its tree after a garbage collection",
                         {"xml": case["xml"], "plan": [], "seed": 0, "tree": d.tree, "routine": "identity",
                          "held": str(keep[1])}, classify)
            if not d.ok:
                ctx.count(1, "outside-domain(empty text object)")
                continue
            tags = [i for i, o in enumerate(d.order) if isinstance(o, TagNode)]
            to_sort = [tags[(case["seed"] * 7 + 3 * k) % len(tags)] for k in range(min(5, len(tags) + 1))] if tags else []
            fs = [d.members(F) for _, F in PASSED]
            fs_of[id(d)] = fs
            per_amb = []
            for name, amb, strict in AMBIENT:
                members = d.members((_tag_or_text,) if amb is None else amb)
                real = real_frames(d, amb, to_sort)
                args = "%s [%s] %s %s" % (ilist(members), "; ".join(ilist(f) for f in fs),
                                          ilist(range(len(d.order))), ilist(to_sort))
                if d.docid is not None:
                    terms.append("c_dump_doc %d %s %s" % (d.docid, d.cel, args))
                elif d.loose_text:
                    terms.append("c_dump_loose_text %s %s [%s]" % (d.cel, ilist(members), "; ".join(ilist(f) for f in fs)))
                else:
                    terms.append("c_dump %s %s" % (d.cel, args))
                terms.append("a_dump %s %s" % (d.itree, args))
                per_amb.append((name, strict, members, real))
            prepared.append((case, d, keep, per_amb))
    vals = ctx.coq_eval("c05", REQ, terms, chunk=24, timeout=900)
    p = 0
    for case, d, keep, per_amb in prepared:
        shape = ("chained-text" if "Build_tobj" in d.cel else "plain") + ("/comment-or-pi" if "KComment" in d.cel or
                                                                        "KPI" in d.cel else "")
        for name, strict, members, real in per_amb:
            cm, am = vals[p], vals[p + 1]
            p += 2
            case0 = {"xml": case["xml"], "plan": case["plan"], "seed": case["seed"], "ambient": name,
                     "ambient_members": members, "tree": d.tree}
            if cm is None or am is None:
                ctx.mismatch("evaluation of CNav/ANav", "coqc failed on the case file for %r" % (case0,))
                continue
            model, spec = parse_frames(cm), parse_frames(am)
            for b in real.pop("suspended", []):
                ctx.fail("%s queried while %s is suspended differs from the same query outside the loop"
                         % (b["routine"], b["suspended"]), dict(case0, **b), classify)
            ctx.count(len(real), "ambient=" + name + "/" + shape)
            for key, r in real.items():
                if model.get(key) != r:
                    ctx.mismatch("CNav %s vs the implementation" % ROUTINE[key[1]],
                                 dict(case0, node=key[0], routine=ROUTINE[key[1]], aux=key[2], impl=r,
                                      model=model.get(key)))
                want = spec.get(key)
                if d.docid is not None and want is not None:
                    # the oracle tree has a virtual document node above the root-level siblings: they have no parent
                    if key[1] == 8 and want == [0, 1, d.docid]:
                        want = [0, 0]
                    elif key[1] == 7 and spec.get((key[0], 8, 0)) == [0, 1, d.docid]:
                        want = [0, 0]
                    elif key[1] == 16 and want[:1] == [0]:
                        want = [0, want[1] - 1]
                if key[1] in (20, 21, 22) and key[2] != 0 and want is not None and r[:1] == [0] and want[:1] == [0]:
                    # with passed filters nothing is demanded about the given root (the breadth-first traverser applies
                    # the filters to it, the depth-first ones yield it unconditionally): compare without it
                    r = [0] + [x for x in r[1:] if x != key[0]]
                    want = [0] + [x for x in want[1:] if x != key[0]]
                if demanded(key, d, members, strict) and want != r:
                    ctx.fail("%s does not return what the one ordered tree determines" % ROUTINE[key[1]],
                             dict(case0, node=key[0], routine=ROUTINE[key[1]],
                                  passed=PASSED[key[2]][0] if key[1] not in (5, 6) else key[2],
                                  passed_members=fs_of[id(d)][key[2]] if key[1] not in (5, 6) else None,
                                  impl=r, spec=want), classify)
            if strict:
                direct_checks(ctx, d, case0, name, members, real)
        if len(d.order) > 1:
            ctx.nontrivial_case(d.cel)
        ctx.sample({"xml": case["xml"], "plan": case["plan"], "nodes": len(d.order), "concrete": d.cel[:400]})


FINDING_XML = '<r><a><!--c--></a></r>'


def replay_open(f):
    w = f["witness"]
    if "python" in w:
        try:
            exec(w["python"], {})
        except Exception as e:  # noqa: BLE001
            return type(e).__name__ == w.get("raises")
        return False
    doc = Document(w["xml"])
    with altered_default_filters():
        node = doc_order(doc.root)[w["node"]]
        chain = []
        p = node.parent
        while p is not None:
            chain.append(p)
            p = p.parent
    got = list(node.iterate_ancestors())          # under the library's default filters
    return [id(x) for x in got] != [id(x) for x in chain]


def run(ctx, args):
    ctx.build("Props/C05.vo")
    ctx.build("Props/C08Nav.vo")
    ctx.build("Conc/CNavDump.vo")
    if args.replay:
        with open(args.replay) as f:
            rep = json.load(f)
        case = rep.get("case")
        if case:
            check_trees(ctx, [{"xml": case["xml"], "plan": case["plan"], "seed": case.get("seed", 0)}])
        return ctx.finish("replay of " + args.replay, replay_open=replay_open)
    quick = ctx.tier == "quick"
    cases = [{"xml": x, "plan": [], "seed": i} for i, x in enumerate(DOCS)]
    cases += [{"xml": "loose:" + k, "plan": [], "seed": 0} for k in ("comment", "pi", "text", "tag")]
    cases += [{"xml": x, "plan": pl, "seed": 0} for x, pl in FIXED_HISTORIES]
    cases.append({"xml": "gc:tail-chain", "plan": [], "seed": 0})
    cases += [{"xml": x, "plan": [], "seed": i} for i, x in enumerate(DOCS_TOP)]
    for i in range(3 if quick else 40):
        cases.append({"xml": ctx.rng.choice(DOCS_TOP), "plan": gen_plan(ctx.rng, ctx.rng.randint(1, 6)),
                      "seed": ctx.rng.randint(0, 10 ** 6)})
    for i in range(24 if quick else 300):
        cases.append({"xml": ctx.rng.choice(DOCS), "plan": gen_plan(ctx.rng, ctx.rng.randint(1, 8)),
                      "seed": ctx.rng.randint(0, 10 ** 6)})
    step = 60
    for s in range(0, len(cases), step):
        check_trees(ctx, cases[s:s + step])
    return ctx.finish(
        rule="trees: %d parsed documents + parentless comment / PI / text node / element + documents with prologue and epilogue nodes (root-level siblings) + trees reached by random histories of 1-8 public-API edits (append/prepend/"
             "insert/add_following/add_preceding/detach/replace/merge_text_nodes with strings, TextNodes, tags, comments, "
             "PIs, tag() definitions, re-attached detached subtrees, moves of subtrees to another parent / level; all relations are queried on the held objects before every step and again after the last one) + fixed move / sibling-insertion / merge histories + queries inside loops over suspended iterators + a tail text chain member held across gc.collect(); on every node: 27 navigation routines under 6 ambient "
             "filters x 5 passed filters, all indices -(k+1)..k and 6 slices; correspondence against Conc/CNav.v for all, "
             "direct comparison with Tree/ANav.v under the ambient filters none/default/tags. evaluations = API results "
             "compared. Non-trivial = tree with more than one node; distinct by concrete structure (ids, slots, chains)."
             % len(DOCS),
        replay_open=replay_open)


if __name__ == "__main__":
    common.main(run, "C05")
