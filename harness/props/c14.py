"""C14 - location_path is a unique address of a tag node.

  build   Props/C14.vo
  tie     for every tag node of generated, edited and detached trees: the string of the real `location_path`
          property, parsed by the real parser, has the AST encoding of XPath/LocPath.v's `location_path`
          (evaluated by coqc); the same string under every ambient filter; Eval.v on the model's path gives the node
  search  the property itself on the implementation: ctx.xpath(path) from every context node under several ambient
          filters returns exactly the node; no two tag nodes of one tree share a path; only indexed wildcard steps
"""
import json
import re

import common
import impl
from impl import (Document, TagNode, TextNode, altered_default_filters, no_gc, new_tag_node, new_comment_node,
                  new_processing_instruction_node, is_tag_node, is_text_node, is_comment_node,
                  is_processing_instruction_node)
import xq
import xpath_ast
import c06

SHAPE = re.compile(r"^/\*(/\*\[[1-9][0-9]*\])*$")


def ambient_filters():
    return [
        ("default", None),
        ("none", ()),
        ("text", (is_text_node,)),
        ("comment", (is_comment_node,)),
        ("tag", (is_tag_node,)),
        ("pi", (is_processing_instruction_node,)),
        ("nothing", (lambda n: False,)),
        ("tag+text", (lambda n: isinstance(n, (TagNode, TextNode)),)),
        # filters that reject SOME tag nodes: by local name, by position parity, by having an attribute
        ("not-a", (lambda n: not isinstance(n, TagNode) or n.local_name != "a",)),
        ("only-b", (lambda n: isinstance(n, TagNode) and n.local_name == "b",)),
        ("with-k", (lambda n: isinstance(n, TagNode) and "k" in n.attributes,)),
        # nested: an outer filter extended by an inner one
        ("tag>not-a", ((is_tag_node,), (lambda n: not isinstance(n, TagNode) or n.local_name != "a",))),
        ("text>comment", ((is_text_node,), (is_comment_node,))),
    ]


class ambient:
    """flt: None (the default filters), a tuple of filters (replacing), or a pair of tuples (outer, extended by inner)"""
    def __init__(self, flt):
        self.cms = []
        if flt is None:
            return
        if flt and isinstance(flt[0], tuple):
            self.cms = [altered_default_filters(*flt[0]), altered_default_filters(*flt[1], extend=True)]
        else:
            self.cms = [altered_default_filters(*flt)]

    def __enter__(self):
        for cm in self.cms:
            cm.__enter__()

    def __exit__(self, *a):
        for cm in reversed(self.cms):
            cm.__exit__(*a)


def edit(rng, root, loose):
    """a few random API edits; detached subtrees are collected in `loose` as trees of their own"""
    for _ in range(rng.randint(0, 6)):
        with altered_default_filters():
            nodes = [root] + list(root.iterate_descendants())
        tags = [n for n in nodes if isinstance(n, TagNode)]
        target = rng.choice(tags)
        q = rng.random()
        new = rng.choice([lambda: new_tag_node(rng.choice(["a", "b", "n"])), lambda: TextNode(rng.choice(["x", " ", "y"])),
                          lambda: new_comment_node("e"), lambda: new_processing_instruction_node("t", "d"),
                          lambda: new_tag_node("m", namespace="http://m")])()
        try:
            with altered_default_filters():
                if q < .35:
                    target.append_children(new)
                elif q < .5:
                    target.insert_children(rng.randint(0, len(target)), new)
                elif q < .7 and target is not root:
                    rng.choice([target.add_following_siblings, target.add_preceding_siblings])(new)
                elif q < .85 and target is not root:
                    d = target.detach()
                    loose.append(d)
                elif len(target):
                    victim = target[rng.randrange(len(target))]
                    d = victim.detach()
                    if isinstance(d, TagNode):
                        loose.append(d)
        except Exception:       # noqa: BLE001 - a refused edit is not this property's business
            pass


HISTORY_DOCS = [
    '<r><a><b><c/><c><d/></c>t</b><b/></a><e><f/></e></r>',
    '<r><x><a k="1">t<b/>u<!--c--><b k="2"><c/><c/></b><?p q?></a><a/></x><y><z/></y></r>',
]


def addresses(ctx, root, contexts, what, doc):
    """every tag node of the tree below `root`: its location_path, evaluated from each of `contexts`, is exactly the node"""
    with altered_default_filters():
        tags = [root] + [n for n in root.iterate_descendants() if isinstance(n, TagNode)]
    seen = {}
    for n in tags:
        lp = n.location_path
        if lp in seen:
            ctx.fail("two tag nodes of one tree have the same location_path", {"doc": doc, "path": lp, "when": what})
        seen[lp] = n
        for c in contexts:
            try:
                res = list(c.xpath(lp))
            except Exception as ex:     # noqa: BLE001
                ctx.fail("evaluating location_path raises", {"doc": doc, "path": lp, "when": what, "error": type(ex).__name__})
                continue
            ctx.count(1, "history")
            if len(res) != 1 or res[0] is not n:
                ctx.fail("location_path does not select exactly its node", {"doc": doc, "path": lp, "when": what,
                                                                           "got": [getattr(x, "location_path", repr(x)) for x in res]})


def history_search(ctx, docs):
    """the same node objects before and after edits of their ancestry: read and evaluate paths, detach the parent or a
    higher ancestor of a node X (X is then in another tree), read and evaluate again from X and its siblings, attach the
    detached tree elsewhere, evaluate again -- and the same with the edit first.  Nothing remembered from an earlier
    evaluation (roots, indexes, parsed expressions) may survive the edit."""
    rng = ctx.rng
    for src in docs:
        for order in ("evaluate-first", "edit-first"):
            for up in (1, 2):
                d = Document(src)
                with altered_default_filters():
                    tags = [n for n in d.root.iterate_descendants() if isinstance(n, TagNode)]
                deep = [n for n in tags if n.depth >= up + 1]
                if not deep:
                    continue
                # fixed choice first, a random one as well
                for x in [deep[0], rng.choice(deep)]:
                    d = Document(src)
                    with altered_default_filters():
                        tags = [n for n in d.root.iterate_descendants() if isinstance(n, TagNode)]
                    deep = [n for n in tags if n.depth >= up + 1]
                    x = deep[0] if x is deep[0] or len(deep) == 1 else rng.choice(deep)
                    anc = x
                    for _ in range(up):
                        anc = anc.parent
                    with altered_default_filters():
                        sibs = [s_ for s_ in x.parent.iterate_children() if s_ is not x][:2]
                    contexts = [x] + sibs
                    if order == "evaluate-first":
                        for c in contexts:
                            c.xpath("/*")
                            c.xpath("ancestor::*")
                        addresses(ctx, d.root, contexts, "before the edit", src)
                    with altered_default_filters():
                        detached = anc.detach()
                    addresses(ctx, detached, contexts + [detached], order + ": in the detached tree (ancestor %d up)" % up, src)
                    addresses(ctx, d.root, [d.root], order + ": in the tree that remains", src)
                    # attach it elsewhere: under the root, at the front
                    with altered_default_filters():
                        d.root.insert_children(0, detached)
                    addresses(ctx, d.root, contexts + [d.root], order + ": after attaching the detached tree elsewhere", src)
                    # and once more into a tree of its own, by another route
                    with altered_default_filters():
                        again = x.parent.detach() if x.parent is not None and x.parent is not d.root else x.detach()
                    addresses(ctx, again, [x] + ([again] if again is not x else []), order + ": detached a second time", src)


def boundary_search(ctx):
    """a tag node behind a long unbroken run of siblings that are not tag nodes: the path must be read and must address
    the node (no recursion per skipped sibling)"""
    from impl import new_comment_node
    runs = [("<!--c-->" * 2000, "<!--c-->" * 300), ("<?p q?>" * 2000, "<?p q?>" * 300), ("<!--c--><?p q?>" * 1000, "<?p q?><!--c-->" * 150),
            ("<!--c-->" * 1500 + "t" + "<?p q?>" * 1500, "<!--c-->" * 300)]
    for run_, inner in runs:
        src = "<r><first/>" + run_ + "<a><b/>" + inner + "<c/></a>" + run_ + "<z/></r>"
        d = Document(src)
        with altered_default_filters():
            tags = [n for n in d.root.iterate_descendants() if isinstance(n, TagNode)]
        for n in tags:
            what = {"doc": src[:40] + "...(%d characters)" % len(src), "node": n.local_name}
            try:
                lp = n.location_path
                res = list(d.root.xpath(lp)) + list(tags[-1].xpath(lp))
            except Exception as ex:     # noqa: BLE001
                ctx.fail("location_path cannot be read or evaluated behind a long run of non-tag siblings",
                         dict(what, error=type(ex).__name__))
                continue
            ctx.count(1, "boundary")
            if len(res) != 2 or res[0] is not n or res[1] is not n:
                ctx.fail("location_path does not select exactly its node", dict(what, path=lp))
    # the same built through the API: comments appended one by one, then an element
    r = Document("<r/>").root
    with altered_default_filters():
        for _ in range(2000):              # one call per node: a single call with many arguments recurses per argument
            r.append_children(new_comment_node("c"))
        x = impl.new_tag_node("x")
        r.append_children(x)
    try:
        lp = x.location_path
        ok = [n is x for n in r.xpath(lp)] == [True]
    except Exception as ex:     # noqa: BLE001
        ctx.fail("location_path cannot be read or evaluated behind a long run of non-tag siblings",
                 {"doc": "<r/> + 2000 appended comments + <x/>", "error": type(ex).__name__})
        ok = True
    ctx.count(1, "boundary")
    if not ok:
        ctx.fail("location_path does not select exactly its node", {"doc": "<r/> + 2000 appended comments + <x/>", "path": lp})


def root_replaced_search(ctx, docs):
    """Document.root is assigned another node: the old root is a tree of its own from then on; nodes kept from it are
    addressed within it, the new root within the document -- from every context, before and after"""
    for src in docs:
        for evaluate_first in (True, False):
            d = Document(src)
            old = d.root
            with altered_default_filters():
                kept = [n for n in old.iterate_descendants() if isinstance(n, TagNode)][:3]
            if evaluate_first:
                addresses(ctx, old, kept + [old], "before the root is replaced", src)
            new = Document("<n><m/><m><k/></m></n>").root.clone(deep=True)
            d.root = new
            addresses(ctx, old, kept + [old], "old tree after Document.root was assigned another node", src)
            addresses(ctx, d.root, [d.root, d.root[0]], "the new root after Document.root was assigned", src)
            # and back again
            d.root = old
            addresses(ctx, old, kept + [old], "the old root assigned back", src)
            addresses(ctx, new, [new, new[0]], "the replaced root as a tree of its own", src)


def run(ctx, args):
    rng = ctx.rng
    quick = ctx.tier == "quick"
    ctx.build("Props/C14.vo")
    n_docs = 40 if quick else 400
    trees = []
    keep = []
    from _delb.xpath import parse
    with no_gc():
        for i in range(n_docs):
            d = Document(c06.gen_doc(rng) if i >= len(c06.FIXED_DOCS) else c06.FIXED_DOCS[i])
            keep.append(d)
            loose = []
            if i % 2:
                edit(rng, d.root, loose)
            for r in [d.root] + [x for x in loose if isinstance(x, TagNode)][:2]:
                if rng.random() < .5 and r is not d.root:
                    edit(rng, r, [])
                trees.append(("document" if r is d.root else "detached", r))
            keep.append(loose)
            if i < 4:
                # whatever the seed: trees without a Document -- a deep clone, and a detached subtree with descendants
                cl = d.root.clone(deep=True)
                keep.append(cl)
                trees.append(("clone", cl))
                d2 = Document(c06.FIXED_DOCS[i])
                keep.append(d2)
                with altered_default_filters():
                    inner = [x for x in d2.root.iterate_descendants() if isinstance(x, TagNode) and len(x) > 0]
                if inner:
                    sub = inner[0].detach()
                    keep.append(sub)
                    trees.append(("detached", sub))

        preamble, terms, meta = [], [], []
        for ti, (kind, root) in enumerate(trees):
            tree = xq.Tree(root)
            preamble.append("Definition T%d : itree := %s." % (ti, tree.coq()))
            tags = [(p, n) for p, n, _ in tree.nodes if isinstance(n, TagNode)]
            allnodes = [n for _, n, _ in tree.nodes]
            seen = {}
            ctx.cov["distribution"]["tree:" + kind] = ctx.cov["distribution"].get("tree:" + kind, 0) + 1
            for pos, n in tags:
                paths = {}
                for name, flt in ambient_filters():
                    try:
                        with ambient(flt):
                            paths[name] = n.location_path
                    except Exception as ex:     # noqa: BLE001
                        paths[name] = "raises " + type(ex).__name__
                lp = paths["none"]
                small = {"doc": c06.safe_str(root), "node": list(pos), "path": lp, "tree": kind}
                for name, p_ in paths.items():
                    ctx.count(1, "path-read:" + name)
                    if p_ != lp:
                        ctx.fail("location_path read under an ambient filter differs from the one read under none",
                                 dict(small, filter=name, under_filter=p_))
                if not SHAPE.match(lp):
                    ctx.fail("location_path is not made of indexed wildcard steps only", small)
                if lp in seen:
                    ctx.fail("two tag nodes of one tree have the same location_path", dict(small, other=list(seen[lp])))
                seen[lp] = pos
                # the real parser's AST of the real string vs the model's path
                try:
                    enc = xpath_ast.enc_ast(parse(lp))
                except Exception as ex:     # noqa: BLE001
                    ctx.fail("location_path is not a parsable expression", dict(small, error=type(ex).__name__))
                    continue
                terms.append("run_locpath T%d %s" % (ti, xq.coq_pos(pos)))
                meta.append(("ast", small, enc))
                # evaluation from every context (a sample of contexts per filter in the quick tier)
                for name, flt in ambient_filters():
                    ctxs = allnodes if (name == "default" or not quick) else rng.sample(allnodes, min(3, len(allnodes)))
                    for c in ctxs:
                        with ambient(flt):
                            try:
                                res = list(c.xpath(lp))
                            except Exception as ex:     # noqa: BLE001
                                ctx.fail("evaluating location_path raises", dict(small, ctx=list(tree.pos_of(c)), filter=name,
                                                                               error=type(ex).__name__))
                                continue
                        ctx.count(1, "filter:" + name)
                        if len(res) != 1 or res[0] is not n:
                            ctx.fail("location_path does not select exactly its node",
                                     dict(small, ctx=list(tree.pos_of(c)), filter=name,
                                          got=[list(tree.pos_of(x) or ()) for x in res]))
                ctx.nontrivial_case((lp, small["doc"]))
                ctx.sample({"path": lp, "node": list(pos), "tree": kind, "doc": small["doc"][:80]})
                # Eval.v on the model's path from two contexts
                for c in rng.sample(allnodes, min(2, len(allnodes))):
                    cp = tree.pos_of(c)
                    eff = [(k, v) for k, v in xq.effective_nsmap(c, None) if k in ("", "xml")]
                    terms.append("run_locpath_eval T%d %s %s %s" % (ti, xq.coq_nsmap(eff), xq.coq_pos(pos), xq.coq_pos(cp)))
                    meta.append(("eval", dict(small, ctx=list(cp)), [0, 1, len(pos)] + list(pos)))
    with no_gc():
        history_search(ctx, HISTORY_DOCS + [c06.FIXED_DOCS[0]] + [c06.gen_doc(rng) for _ in range(3 if quick else 30)])
        root_replaced_search(ctx, HISTORY_DOCS + [c06.FIXED_DOCS[0]])
        boundary_search(ctx)
    res = xq.coq_eval_retry(ctx, "c14_cases", xq.REQ + "\n".join(preamble) + "\n", terms, chunk=250)
    for (kind, small, want), got in zip(meta, res):
        ctx.count(1, "model:" + kind)
        if got is None:
            ctx.mismatch("LocPath.location_path (coqc)", json.dumps(small))
        elif got != want:
            ctx.mismatch("LocPath.location_path vs TagNode.location_path" if kind == "ast"
                         else "Eval.eval (location_path ..) vs the node's position",
                         json.dumps(dict(small, model=got, real=want)))
    return ctx.finish(
        rule="every tag node of generated documents (namespaces, mixed content, comments, PIs), of the same after random "
             "API edits (adjacent text nodes, inserted comments/PIs/elements), and of detached subtrees as trees of their "
             "own; 8 ambient filter settings; every context node (default filter) / a sample per other filter",
        replay_open=None)


if __name__ == "__main__":
    common.main(run, "C14")
