"""C10 - clones are equal to, and independent of, their originals."""
import json

import common
import impl
import treeops as T
import c01
from treeops import Real, F_ALL, F_DEFAULT
from impl import Document, TagNode, TextNode, no_gc, altered_default_filters

REQ = T.REQ.replace("CTree COps CEncode", "CTree COps CEncode Clone")


def gevent(ev):
    if ev[0] == "op":
        return "(EvOp %s %s)" % (T.gfilt(ev[1]), T.gop(ev[2]))
    ren = "[" + ";".join("(%d,%d)" % p for p in ev[-1]) + "]"
    if ev[0] == "clone":
        return "(EvClone %d %s %s)" % (ev[1], "true" if ev[2] else "false", ren)
    return "(EvCloneDoc %d%%nat %s)" % (ev[1], ren)


def decode_ev(l):
    d = T.Dec(l)
    out = []
    while not d.done():
        r = d.framed().result()
        out.append((r, d.framed().cworld()))
    return out


def strip_ids(v):
    return (v[1], [strip_ids(k) for k in v[2]])


def pair_ids(a, b, out):
    """a, b concrete element dumps of the same shape -> [(id_a, id_b)]"""
    out.append((a[0], b[0]))
    for (ha, _, appa), (hb, _, appb) in [(a[3], b[3])] + [(ta, tb) for (_, ta), (_, tb) in zip(a[4], b[4])]:
        if ha is not None and hb is not None:
            out.append((ha, hb))
        for (ia, _), (ib, _) in zip(appa, appb):
            out.append((ia, ib))
    for (ca, _), (cb, _) in zip(a[4], b[4]):
        pair_ids(ca, cb, out)


def ids_of_view(v, acc):
    acc.add(v[0])
    for k in v[2]:
        ids_of_view(k, acc)
    return acc


def components(view):
    comps = {}
    for pro, r, epi in view["docs"]:
        comps[r[0]] = (pro, r, epi)
    for t in view["loose"]:
        comps[t[0]] = t
    return comps


def classify(finding, case):
    return finding["cls"] in case.get("classes", [])


def run_case(ctx, rng, h):
    real = Real()
    docs_xml = [c01.gen_doc(rng) for _ in range(rng.choice([1, 1, 2]))]
    for x in docs_xml:
        # some documents are loaded with whitespace reduction: a clone must not be reduced again after later edits
        if rng.random() < 0.3:
            real.docs.append(Document(x, parser_options=impl.ParserOptions(reduce_whitespace=True)))
        else:
            real.docs.append(Document(x))
    keep = c01.gen_pool(rng)
    real.dump_world()
    for o in keep:
        real.nid(o)
        if isinstance(o, TagNode):
            real.dump_el(o)
    w0 = real.dump_world()
    rec = {"docs": docs_xml, "w0": w0, "events": [], "fail": None}
    w = w0

    def legal_op(restrict=None):
        for _ in range(8):
            o = c01.gen_op(real, rng, w, F_ALL)
            if o is None or c01.skip_op(real, o, w, F_ALL) or c01.classes_of(real, o, w, F_ALL):
                continue
            live = c01.live_nodes(w)
            if any(s[0] == "node" and live[s[1]][1] is not False for s in c01.op_sources(o)):
                continue
            if restrict is not None:
                involved = {o[1]} | {s[1] for s in c01.op_sources(o) if s[0] == "node"}
                side = {i in restrict for i in involved}
                if len(side) != 1:
                    continue
            return o
        return None

    def do_op(o):
        nonlocal w
        exc = real.run(F_ALL, o)
        w = real.dump_world()
        partial = exc is not None and len(c01.op_sources(o)) > 1
        rec["events"].append({"ev": ("op", F_ALL, o), "exc": exc, "w": w, "partial": partial})
        return "AssertionError" if partial else exc
    for _ in range(rng.randint(0, 8)):
        o = legal_op()
        if o and do_op(o) in ("AssertionError", "AttributeError"):
            return rec
    if c01.world_has_13b(w):
        rec["classes"] = ["namespaced-attribute-meets-equal-default-namespace"]
    # ---- clone
    live = c01.live_nodes(w)
    case = {"docs": docs_xml, "initial_world": w0, "events": [e["ev"] for e in rec["events"]],
            "classes": rec.get("classes", [])}
    clone_filter = rng.choice([F_DEFAULT, F_DEFAULT, F_DEFAULT, F_ALL, F_ALL, (False, False, True, True), (True, False, False, False)])
    with altered_default_filters():
        try:
            if rng.random() < 0.2:
                di = rng.randrange(len(real.docs))
                d = real.docs[di]
                before = real.view_world()
                with T.filt_ctx(clone_filter):
                    c = d.clone()
                real.docs.append(c)
                w = real.dump_world()
                ren = []
                for a, b in zip(w["docs"][di][0] + [w["docs"][di][1]] + w["docs"][di][2],
                                w["docs"][-1][0] + [w["docs"][-1][1]] + w["docs"][-1][2]):
                    pair_ids(a, b, ren)
                rec["events"].append({"ev": ("clonedoc", di, ren), "exc": None, "w": w})
                v = real.view_world()
                orig, cl = v["docs"][di], v["docs"][-1]
                if [strip_ids(x) for x in orig[0]] != [strip_ids(x) for x in cl[0]] or \
                        [strip_ids(x) for x in orig[2]] != [strip_ids(x) for x in cl[2]] or \
                        strip_ids(orig[1]) != strip_ids(cl[1]):
                    rec["fail"] = ("the cloned document differs from the original", dict(case, original=orig, clone=cl))
                clone_ids = set()
                for x in cl[0] + [cl[1]] + cl[2]:
                    ids_of_view(x, clone_ids)
                kind = "document" if all(clone_filter) else "default-filters:document"
            else:
                x = rng.choice(sorted(live))
                deep = rng.random() < 0.8
                node = real.objs[x]
                ov = real.view(node)
                with T.filt_ctx(clone_filter):      # cloning under the caller's (normal default) filters
                    c = node.clone(deep=deep)
                real.nid(c)
                cv = real.view(c)
                kind = "%s%s/%s/%s" % ("" if all(clone_filter) else "default-filters:", live[x][0], {True: "attached", False: "parentless"}.get(live[x][1], live[x][1]),
                                     "deep" if deep else "shallow")
                if c.parent is not None or c._fetch_following_sibling() is not None or c.fetch_preceding_sibling() is not None:
                    rec["fail"] = ("the clone is not a parentless node without siblings", dict(case, node=x))
                elif deep or live[x][0] != "tag":
                    if strip_ids(cv) != strip_ids(ov):
                        rec["fail"] = ("the deep clone differs from the original subtree", dict(case, original=ov, clone=cv))
                elif (cv[1], cv[2]) != (ov[1], []):
                    rec["fail"] = ("the shallow clone differs in name / attributes or has children", dict(case, original=ov, clone=cv))
                clone_ids = ids_of_view(cv, set())
                if ids_of_view(ov, set()) & clone_ids:
                    rec["fail"] = ("clone and original share node objects", dict(case, node=x))
                w = real.dump_world()
                ren = []
                if isinstance(node, TextNode):
                    ren = [(x, real.nid(c))]
                else:
                    ce = c01.find_el(w, real.nid(c))
                    oe = c01.find_el(w, x) or next(e for pro, _, epi in w["docs"] for e in pro + epi if e[0] == x)
                    if deep:
                        pair_ids(oe, ce, ren)
                    else:
                        ren = [(x, ce[0])]
                rec["events"].append({"ev": ("clone", x, deep, ren), "exc": None, "w": w})
        except KeyError as e:
            rec["fail"] = ("clone raises KeyError %s" % e, case)
            return rec
        except Exception as e:  # noqa: BLE001
            rec["fail"] = ("clone under the ambient filter %s raises %s: %s" % (clone_filter, type(e).__name__, e), dict(case, clone_filter=clone_filter))
            return rec
    rec["clone_kind"] = kind
    if rec["fail"]:
        return rec
    # ---- later histories on either side: the other side must not change
    for _ in range(rng.randint(0, 8)):
        side_clone = rng.random() < 0.5
        o = None
        for _ in range(6):
            o = legal_op(restrict=clone_ids)
            if o is None:
                break
            on_clone = o[1] in clone_ids
            if on_clone == side_clone:
                break
            o = None
        if o is None:
            continue
        on_clone = o[1] in clone_ids
        before = components(real.view_world())
        known = set(real.objs)
        others = []
        for rid, comp in before.items():
            ids = set()
            if isinstance(comp, tuple) and len(comp) == 3 and isinstance(comp[0], list):
                ids_of_view(comp[1], ids)
            else:
                ids_of_view(comp, ids)
            if (not (ids & clone_ids)) if on_clone else (bool(ids & clone_ids) and ids <= clone_ids):
                others.append(rid)
        exc = do_op(o)
        rec["events"][-1]["other_roots"] = others
        after = components(real.view_world())
        new_ids = set(real.objs) - known
        if on_clone:
            clone_ids |= new_ids
        for rid, comp in before.items():
            ids = set()
            if isinstance(comp, tuple) and len(comp) == 3 and isinstance(comp[0], list):
                for t in comp[0] + [comp[1]] + comp[2]:
                    ids_of_view(t, ids)
            else:
                ids_of_view(comp, ids)
            other_side = not (ids & clone_ids) if on_clone else bool(ids & clone_ids) and ids <= clone_ids
            if other_side and after.get(rid) != comp:
                rec["fail"] = ("an edit of the %s is visible in the %s" % (("clone", "original") if on_clone else ("original", "clone")),
                               dict(case, events=[e["ev"] for e in rec["events"]], before=comp, after=after.get(rid)))
                return rec
        if exc in ("AssertionError", "AttributeError"):
            break
    return rec


def compare(ctx, rec, val):
    ctx.count(1, "clone:" + rec.get("clone_kind", "none"))
    for e in rec["events"]:
        ctx.count(1, e["ev"][0])
    if rec["fail"]:
        ctx.fail(rec["fail"][0], rec["fail"][1], classify)
        return
    ctx.nontrivial_case((rec.get("clone_kind"), len(rec["events"]), json.dumps(rec["events"][-1]["w"], default=str) if rec["events"] else ""))
    ctx.sample({"docs": rec["docs"], "events": [e["ev"] for e in rec["events"]][:6]})
    if val is None:
        ctx.mismatch("clone model evaluation", "coqc failed on a case file")
        return
    steps = decode_ev(val)
    for idx, (e, (cr, cw)) in enumerate(zip(rec["events"], steps)):
        case = {"docs": rec["docs"], "initial_world": rec["w0"], "events": [x["ev"] for x in rec["events"][:idx + 1]]}
        mexc = None if cr[0] == "ok" else cr[1]
        rexc = None if e["exc"] is None else T.EXN[e["exc"]]
        if mexc != rexc:
            ctx.mismatch("model result vs implementation", {"case": case, "impl": e["exc"], "model": cr})
            return
        if cr[0] == "crash" or e.get("partial"):
            return
        if T.norm_cworld(cw) != e["w"]:
            ctx.mismatch("model state vs implementation (%s)" % e["ev"][0], {"case": case, "impl": e["w"], "model": T.norm_cworld(cw)})
            return


def check_guard(ctx, rec, val):
    """the hypothesis of C10_independent (no update of a later call names a node of a tree on the other side) holds for
    the calls the check addresses to one side"""
    if val is None or rec["fail"]:
        return
    d = T.Dec(val)
    for e in rec["events"]:
        fr = d.framed()
        flags = {}
        while not fr.done():
            rid = fr.n()
            flags[rid] = fr.n()
        for rid in e.get("other_roots", []):
            ctx.count(1, "guard-of-C10_independent")
            if flags.get(rid) != 1:
                ctx.mismatch("hist_avoids does not hold for a call addressed to the other side",
                             {"docs": rec["docs"], "events": [x["ev"] for x in rec["events"]], "tree": rid, "flags": flags})
                return


def empty_tail_cases(ctx):
    """an empty text node directly behind a comment / PI (comment.add_following_siblings("")): the unchanged code clones
    such nodes, their ancestors and the document correctly, so this is demanded (outside the classes of the empty-text
    findings, which concern what is visible in the *edited* tree)"""
    def view(n):
        if isinstance(n, TagNode):
            return ("tag", n.local_name, [view(c) for c in n.iterate_children()])
        return (type(n).__name__, n.content)
    for which in (0, 1):
        for extra in ((), ("x",)):
            d = Document("<r><!--c--><?p q?><x/></r>")
            with altered_default_filters():
                c = d.root[which]
                c.add_following_siblings("", *extra)
                for what, f in (("node", lambda: c.clone(deep=True)), ("ancestor", lambda: d.root.clone(deep=True)),
                                ("document", lambda: d.clone().root)):
                    ctx.count(1, "clone-with-empty-tail")
                    ctx.nontrivial_case(("empty-tail", which, extra, what))
                    case = {"scenario": "empty text behind comment/PI #%d, extra=%r, clone of %s" % (which, extra, what), "classes": []}
                    try:
                        r = f()
                    except Exception as e:  # noqa: BLE001
                        ctx.fail("cloning with an empty text node behind a comment / PI raises %s: %s" % (type(e).__name__, e), case, classify)
                        continue
                    want = view(c) if what == "node" else view(d.root)
                    if view(r) != want:
                        ctx.fail("clone differs from the original (empty text behind a comment / PI)", dict(case, clone=view(r), original=want), classify)
                    elif what == "node" and (r.parent is not None or r._fetch_following_sibling() is not None):
                        ctx.fail("the clone carries the text that follows the original", case, classify)


def wide_case(ctx, n):
    """a node with very many direct children is cloned like any other"""
    ctx.count(1, "wide-clone")
    root = Document("<w>" + "<c/>t" * (n // 2) + "</w>").root
    try:
        c = root.clone(deep=True)
    except RecursionError as e:
        ctx.fail("deep clone of a node with %d children raises RecursionError" % n, {"children": n, "classes": []}, classify)
        return
    with altered_default_filters():
        a = [(type(x).__name__, getattr(x, "content", getattr(x, "local_name", None))) for x in root.iterate_children()]
        b = [(type(x).__name__, getattr(x, "content", getattr(x, "local_name", None))) for x in c.iterate_children()]
    if a != b:
        ctx.fail("deep clone of a node with %d children differs" % n, {"children": n, "classes": []}, classify)


def replay_open(f):
    return c01.replay_open(f)


def run(ctx, args):
    ctx.branches, ctx.skipped = {}, {}
    ctx.regen(["GenWs.v"])
    ctx.build("Props/C10.vo")
    quick = ctx.tier == "quick"
    with no_gc():
        wide_case(ctx, 800 if quick else 1200)
        empty_tail_cases(ctx)
        for b in range(1 if quick else 10):
            recs = [run_case(ctx, ctx.rng, b * 1000 + h) for h in range(220 if quick else 300)]
            terms = []
            for r in recs:
                evs = "[%s]" % ";".join(gevent(e["ev"]) for e in r["events"])
                terms.append("cev_hist %s %s" % (T.gworld(r["w0"]), evs))
                terms.append("avoid_report false %s %s" % (T.gworld(r["w0"]), evs))
            vals = ctx.coq_eval("c10", REQ, terms, chunk=max(8, len(terms) // 16 + 2))
            for i, r in enumerate(recs):
                compare(ctx, r, vals[2 * i])
                check_guard(ctx, r, vals[2 * i + 1])
    return ctx.finish(
        rule="states: C01-reachable trees (1-2 parsed documents with mixed content, default namespace on/off, prologue / "
             "epilogue sometimes, a pool of parentless nodes, 0-8 edits); then one clone: any node (tag, text in DATA / "
             "TAIL / APPENDED position, comment, PI; attached, parentless, next to a document root), deep or shallow, or "
             "a whole document; checked on the implementation: parentless without siblings/tail, content equal to the "
             "original subtree (shallow: name, namespace, attributes, no children; document: prologue and epilogue too), no "
             "shared objects; then 0-8 further edits addressed to the clone or to the original: after each, every tree of "
             "the other side must present exactly the same view.  The complete internal state after every event is "
             "compared with the Coq model (clone_el / clone_doc / cstep).  Non-trivial = distinct (clone kind, final state).",
        replay_open=replay_open)


if __name__ == "__main__":
    common.main(run, "C10")
