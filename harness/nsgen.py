"""Generators and observation helpers shared by the C13 and C02 checks: (document, caller mapping) pairs with
nested namespace declarations, mixed namespaced / un-namespaced elements and attributes, special characters."""
import re

import impl
from impl import Document, TagNode, altered_default_filters
from _delb import nodes as _nodes
from common import cstr, clist

XML_NS = impl.XML_NS
SVG = "http://www.w3.org/2000/svg"
XLINK = "http://www.w3.org/1999/xlink"
AMP_URI = "http://x/?a=1&b=2"          # accepted by lxml; needs escaping where it is written into a declaration
URIS = ["u1", "u2", "u3", SVG, AMP_URI]
TEXT_PIECES = ["t", "&amp;", "&lt;", "&gt;", '"', "'", "]]&gt;", "ü", " ", "<![CDATA[<c>&]]>", "\n", "€", "𝄞", "\t"]
ATTR_PIECES = ["v", "&amp;", "&lt;", "&gt;", "&quot;", "'", "ü", " ", "]]&gt;", "€"]
API_TEXT = ["t", "&", "<", ">", '"', "'", "]]>", "ü", " x ", "\n", "€", "a&amp;b", "𝄞", "<![CDATA[", "\t"]
API_ATTR = ["v", "&", "<", ">", '"', "'", "ü", " x ", "]]>", "", "&#9;", "€"]


def gen_src(rnd, depth=0, scope=None, rich=True):
    """XML source text with nested namespace declarations (prefixes p, q, ns0, ns1 and defaults)"""
    scope = dict(scope or {})
    decl = ""
    if rnd.random() < .4:
        p = rnd.choice([None, "p", "q", "ns0", "ns1", "svg"])
        u = rnd.choice(URIS + ([""] if p is None else []))
        if not (p is None and depth == 0 and u == ""):
            scope[p] = u
            ue = u.replace("&", "&amp;")
            decl += (' xmlns="%s"' % ue) if p is None else (' xmlns:%s="%s"' % (p, ue))
    prefs = [p for p in scope if p is not None and scope[p]]
    pfx = rnd.choice(prefs + [None, None])
    name = (pfx + ":" if pfx else "") + rnd.choice(["a", "b"])
    attrs = ""
    used = set()
    for _ in range(rnd.randint(0, 2)):
        ap = rnd.choice(prefs + [None, None, "xml"])
        local = rnd.choice(["lang", "space"]) if ap == "xml" else rnd.choice(["k", "j"])
        an = (ap + ":" if ap else "") + local
        ns = XML_NS if ap == "xml" else (scope.get(ap) if ap else (scope.get(None) or None))
        key = (ns, local)
        if key in used:
            continue
        used.add(key)
        v = "".join(rnd.choice(ATTR_PIECES) for _ in range(rnd.randint(0, 3)))
        attrs += ' %s="%s"' % (an, v)
    kids = ""
    if depth < 3:
        for _ in range(rnd.randint(0, 3)):
            q = rnd.random()
            if q < .35:
                kids += "".join(rnd.choice(TEXT_PIECES if rich else ["t", " "]) for _ in range(rnd.randint(1, 3)))
            elif q < .45:
                kids += rnd.choice(["<!--c-->", "<!-- <x xmlns='u'/> -->", "<!---->"])
            elif q < .5:
                kids += rnd.choice(["<?t p?>", "<?t?>", "<?u  a='<' ?>"])
            else:
                kids += gen_src(rnd, depth + 1, scope, rich)
    return "<%s%s%s>%s</%s>" % (name, decl, attrs, kids, name) if kids else "<%s%s%s/>" % (name, decl, attrs)


def gen_api_tree(rnd, depth=0, xmlns_attr=False, special=False):
    """`special`: the tree carries (somewhere) one of the inputs of the known C02 finding classes"""
    """content tree (see common.cnode) to be built through the API: any namespace on any element/attribute"""
    ns = rnd.choice(["", "", "u1", "u2", "u3", SVG, AMP_URI])
    if special and rnd.random() < .15:
        ns = rnd.choice(["a&b", "http://www.w3.org/2000/xmlns/"])
    attrs = {}
    for _ in range(rnd.randint(0, 2)):
        if rnd.random() < .12:
            a = (XML_NS, rnd.choice(["lang", "space"]))
        else:
            a = (rnd.choice(["", "", "u1", "u2", XLINK, AMP_URI, "a&b"]), rnd.choice(["k", "j"]))
        attrs[a] = "".join(rnd.choice(API_ATTR) for _ in range(rnd.randint(0, 2)))
    if (xmlns_attr and rnd.random() < .4) or (special and rnd.random() < .1):
        attrs[("", "xmlns")] = rnd.choice(["u1", "u9"])
    kids = []
    if depth < 3:
        for _ in range(rnd.randint(0, 3)):
            q = rnd.random()
            if rnd.random() < .06:
                # "]]>" straddling adjacent (API-made) text nodes: it must survive as character data
                kids.extend(("text", x) for x in rnd.choice([("]]", ">"), ("a]", "]>b"), ("]", "]", ">"), ("data[i[0]]", "> 0"),
                                                             ("]]", "", ">"), ("x]]", ">", "]]", ">y")]))
            elif special and rnd.random() < .12:
                kids.append(rnd.choice([("text", ""), ("pi", "t", " x"), ("pi", "t", "\n")]))
            elif q < .35:
                kids.append(("text", "".join(rnd.choice(API_TEXT) for _ in range(rnd.randint(1, 3)))))
            elif q < .43:
                kids.append(("comment", rnd.choice(["c", " <x/> & ", "", "-a"])))
            elif q < .5:
                kids.append(("pi", rnd.choice(["t", "u"]), rnd.choice(["p", "", "a='<' ", "x?y>"])))
            else:
                kids.append(gen_api_tree(rnd, depth + 1, xmlns_attr, special))
    return ("tag", ns, rnd.choice(["a", "b"]), sorted((a, b, c) for (a, b), c in attrs.items()), kids)


def gen_map(rnd, colliding=True):
    """the `namespaces` argument: None, empty, default (None or ''), prefixes, clashing with the tree"""
    q = rnd.random()
    if q < .2:
        return None
    if q < .25:
        return {}
    m = {}
    # near-misses of the global prefixes xml / xmlns on both sides: the exclusion of serialize_root is exact
    prefixes = ["", None, "p", "q", "z", "svg", "x", "xm", "xmlx", "xmldsig", "xmlsec", "xmlnsx"] \
        + (["ns0", "ns1", "ns2", "ns00"] if colliding else [])
    if rnd.random() < .04:
        prefixes.append("xml")
    for _ in range(rnd.randint(1, 3)):
        p = rnd.choice(prefixes)
        u = rnd.choice(URIS + ["other", XLINK] + ([""] if rnd.random() < .1 else []))
        if rnd.random() < .03:
            u = XML_NS
        if rnd.random() > .05 and u in m.values():
            continue
        if rnd.random() > .1 and (p in ("", None)) and ("" in m or None in m):
            continue
        m[p] = u
    return m


def gen_redeclare_case(rnd):
    """(source, mapping) pairs in which the default prefix has to be taken away from a namespace that is NOT the first
    one collected: the caller gives the root's namespace (or an attribute namespace of the root) a non-empty prefix and
    declares a default namespace that a descendant uses, and an un-namespaced element or attribute comes later in
    breadth-first order (Serializer.__redeclare_empty_prefix must find the holder of '' wherever it sits)."""
    uris = ["u:r", "u:d", "u:e", "u:f"]
    rnd.shuffle(uris)
    ur, ud, ue = uris[:3]
    extra = ' xmlns:e="%s" e:k="v"' % ue if rnd.random() < .4 else ""
    plain = rnd.choice(["<plain/>", "<plain k='1'/>", "<plain>t</plain>"])
    inner = rnd.choice([
        "<d:item>%s</d:item>" % plain,
        "<d:item/><r:x>%s</r:x>" % plain,
        "<d:item><d:sub/></d:item>%s" % plain,
        "<r:x><d:item/></r:x><r:y>%s</r:y>" % plain,
        "<d:item d:a='1'/><r:x><r:y>%s</r:y></r:x>" % plain,
    ])
    src = '<r:root xmlns:r="%s" xmlns:d="%s"%s>%s</r:root>' % (ur, ud, extra, inner)
    m = {}
    order = rnd.random()
    dkey = rnd.choice([None, ""])
    if order < .5:
        m["r"] = ur
        m[dkey] = ud
    else:
        m[dkey] = ud
        m[rnd.choice(["r", "p", "xmlx"])] = ur
    if extra and rnd.random() < .5:
        m["e"] = ue
    return src, m


def gen_moved_case(rnd):
    """a tree made by moving: a parsed document, and a copy of another parsed document's root appended below one of
    its elements (DESIGN finding 13a: an un-namespaced node that comes to lie under a default namespace declaration)"""
    return {"route": "moved", "src": gen_src(rnd), "child": gen_src(rnd), "at": rnd.randrange(6)}


def make_root(case, build):
    """the root node a case describes: parsed, built through the API, or parsed and then edited by a move"""
    if case["route"] == "parse":
        return Document(case["src"]).root
    if case["route"] == "moved":
        root = Document(case["src"]).root
        child = Document(case["child"]).root.clone(deep=True)
        tags = bfs_tags(root)
        with altered_default_filters():
            tags[case["at"] % len(tags)].append_children(child)
        return root
    return build(case["tree"])


XMLNS_NS = "http://www.w3.org/2000/xmlns/"
NAME_SAMPLES = [("", "xmlns"), ("u1", "xmlns"), (XMLNS_NS, "k"), (XMLNS_NS, "xmlns"), ("", "k"), ("u1", "k"), ("", "xmlnsx"),
                ("", "xml"), ("", "Xmlns"), ("u1", "xmln"), (XML_NS, "lang")]
PI_SAMPLES = [" x", "\tx", "\nx", "x ", " ", "\n", "", "x", "\u00a0x", "a b", "  a", "a\n"]


def check_validators(ctx, req):
    """TagAttributes._validate_name / ProcessingInstructionNode._validate_content: the generated Gallina functions against
    the implementation at every API entry point that creates an attribute or sets PI content.  A value the generated
    validator refuses and an entry point accepts is a failing input (the name / content cannot be carried by XML)."""
    from common import cstr
    terms = ["[if attribute_name_refused %s %s then 1 else 0]%%N" % (cstr(ns), cstr(n)) for ns, n in NAME_SAMPLES]
    terms += ["[if pi_content_refused %s then 1 else 0]%%N" % cstr(c) for c in PI_SAMPLES]
    vals = coq_eval_retry(ctx, ctx.prop.lower() + "_validators", req + "From Delb.Gen Require Import GenNsValidators.\n", terms)

    def refuses(f):
        try:
            f()
        except ValueError:
            return True
        return False

    def rename(ns, n):
        r = impl.new_tag_node("r", {"q": "v"})
        a = r.attributes["q"]
        a.namespace = ns
        a.local_name = n

    def pi_setter(c):
        p = impl.new_processing_instruction_node("t", "x")
        p.content = c
    for (ns, n), v in zip(NAME_SAMPLES, vals[:len(NAME_SAMPLES)]):
        routes = {
            "TagAttributes.__setitem__": lambda: impl.new_tag_node("r").attributes.__setitem__((ns, n), "v"),
            "new_tag_node": lambda: impl.new_tag_node("r", {(ns, n): "v"}),
            "tag() definition": lambda: impl.new_tag_node("r").append_children(impl.tag("c", {(ns, n): "v"})),
            "TagAttributes.update": lambda: impl.new_tag_node("r").attributes.update({(ns, n): "v"}),
            "Attribute rename": lambda: rename(ns, n),
        }
        for route, f in routes.items():
            ctx.count(1, "validator/attribute-name")
            got = refuses(f)
            if v is None:
                ctx.mismatch("validator evaluation", "coqc failed")
            elif got != (v == [1]):
                case = {"route": "validator", "entry": route, "namespace": ns, "name": n}
                if v == [1]:
                    ctx.fail("%s accepts the attribute name (%r, %r), which XML reserves for namespace declarations" % (route, ns, n), case)
                else:
                    ctx.mismatch("attribute_name_refused vs " + route, case)
    for c, v in zip(PI_SAMPLES, vals[len(NAME_SAMPLES):]):
        for route, f in {"new_processing_instruction_node": lambda: impl.new_processing_instruction_node("t", c),
                         "ProcessingInstructionNode.content": lambda: pi_setter(c)}.items():
            ctx.count(1, "validator/pi-content")
            got = refuses(f)
            if v is None:
                ctx.mismatch("validator evaluation", "coqc failed")
            elif got != (v == [1]):
                case = {"route": "validator", "entry": route, "content": c}
                if v == [1]:
                    ctx.fail("%s accepts PI content %r, whose leading white space XML cannot carry" % (route, c), case)
                else:
                    ctx.mismatch("pi_content_refused vs " + route, case)


def coq_eval_retry(ctx, name, req, terms, chunk=200):
    """ctx.coq_eval, with the terms of a failed file evaluated once more: coqc reads the compiled libraries of the
    shared tree without the build lock, so a file can fail while another check is rebuilding a .vo it loads"""
    import time
    vals = ctx.coq_eval(name, req, terms, chunk=chunk)
    missing = [i for i, v in enumerate(vals) if v is None]
    if missing:
        time.sleep(5)
        from common import coq_lock
        with coq_lock():
            again = ctx.coq_eval(name + "_retry", req, [terms[i] for i in missing], chunk=chunk)
        for i, v in zip(missing, again):
            vals[i] = v
    return vals


def caller_term(m):
    if not m:
        return "[]"
    return clist("(%s, %s)" % ("None" if p is None else "Some " + cstr(p), cstr(u)) for p, u in m.items())


def bfs_tags(root):
    """tag nodes in the order Serializer._collect_prefixes visits them"""
    from _delb.utils import traverse_bf_ltr_ttb
    with altered_default_filters():
        return list(traverse_bf_ltr_ttb(root, impl.is_tag_node))


def recorded_order(root):
    """for each tag node in breadth-first order: the order in which CPython iterates the node's namespace set
    (the same set expression as in _collect_prefixes; PYTHONHASHSEED is fixed by ./check)"""
    out = []
    for node in bfs_tags(root):
        out.append(list({node.namespace} | {a.namespace for a in node.attributes.values()}))
    return out


def ord_term(ordl):
    return clist(clist(cstr(n or "") for n in l) for l in ordl)


def real_prefixes(root, m):
    """('ok', [(ns, prefix)...]) or ('exc', class name) from the real Serializer._collect_prefixes"""
    try:
        s = _nodes.Serializer(lambda x: None, namespaces=m)
        s._collect_prefixes(root)
        return "ok", [(k or "", v) for k, v in s._prefixes.items()]
    except Exception as e:  # noqa: BLE001
        return "exc", type(e).__name__


def real_serialize(root, m):
    try:
        return "ok", root.serialize(namespaces=m)
    except Exception as e:  # noqa: BLE001
        return "exc", type(e).__name__


def enc_pairs(l):
    out = [len(l)]
    for a, b in l:
        out += [len(a)] + [ord(c) for c in a] + [len(b)] + [ord(c) for c in b]
    return out


_strip = re.compile(r"<!--.*?-->|<\?.*?\?>", re.S)
_start = re.compile(r"<([^\s<>/!?][^\s<>/]*)((?:\s+[^\s=<>/]+\s*=\s*(?:\"[^\"]*\"|'[^']*'))*)\s*(/?)>")
_attr = re.compile(r"\s+([^\s=<>/]+)\s*=\s*(\"[^\"]*\"|'[^']*')")


def _unesc(v):
    return v.replace("&lt;", "<").replace("&gt;", ">").replace("&quot;", '"').replace("&amp;", "&")


def start_tags(xml):
    """[(name, [(attr name, value)...])] of every start tag in the serializer's output, in order (values with the four
    entities the serializer writes resolved)"""
    xml = _strip.sub("", xml)
    out = []
    for m in _start.finditer(xml):
        out.append((m.group(1), [(a, _unesc(v[1:-1])) for a, v in _attr.findall(m.group(2))]))
    return out


def tree_namespaces(t, acc=None):
    """(element namespaces, attribute namespaces) occurring in a content tree"""
    if acc is None:
        acc = (set(), set())
    if t[0] == "tag":
        acc[0].add(t[1])
        for a in t[3]:
            acc[1].add(a[0])
        for c in t[4]:
            tree_namespaces(c, acc)
    return acc
