"""Shared machinery of the XPath checks (C06, C14, C15): trees of the real implementation as Nav.v sees them,
Gallina terms for them, decoding of Run.v results, mapping of delb / lxml results to positions.

A *position* is the tuple of child indexes from the document node: () is the document node, (0,) the root of the tree.
"""
import impl
from impl import TagNode, TextNode, CommentNode, ProcessingInstructionNode, altered_default_filters
from common import cstr, clist

XMLNS_KEY = ("\x00", "")          # Nav.XMLNS_NS, []: carries the in-scope default namespace of an element

REQ = ("From Coq Require Import List NArith.\nFrom Delb.Base Require Import PyStr.\n"
       "From Delb.Tree Require Import ATree ITree Encode.\n"
       "From Delb.XPath Require Import Ast AstEnc Nav Eval Ref Subset Run.\n")

EXN = ["XPathEvaluationError", "AttributeError", "AssertionError", "TypeError", "NotImplementedError", "OtherError",
       "ValueError", "AmbiguousTreeError", "InvalidOperation"]


def split_clark(key):
    if key.startswith("{"):
        ns, _, local = key[1:].partition("}")
        return ns, local
    return "", key


class Tree:
    """the tree a delb node belongs to, walked from its root with no filters"""

    def __init__(self, any_node):
        with altered_default_filters():
            root = any_node
            while root.parent is not None:
                root = root.parent
            self.root = root
            self.nodes = []            # (position, delb node, plain) in document order
            self.by_id = {}
            self.by_etree = {}
            self.plain = self._walk(root, (0,))

    def _walk(self, n, pos):
        if isinstance(n, TagNode):
            el = n._etree_obj
            attrs = []
            for k, v in el.attrib.items():
                ns, local = split_clark(k)
                attrs.append((ns, local, v.decode() if isinstance(v, bytes) else v))
            dns = el.nsmap.get(None)
            if dns:
                attrs.append((XMLNS_KEY[0], XMLNS_KEY[1], dns))
            p = {"kind": "tag", "ns": n.namespace or "", "local": n.local_name, "attrs": attrs, "pos": pos, "kids": []}
            self.by_etree[id(el)] = pos
        elif isinstance(n, TextNode):
            p = {"kind": "text", "content": n.content, "pos": pos, "kids": []}
        elif isinstance(n, CommentNode):
            p = {"kind": "comment", "content": n.content, "pos": pos, "kids": []}
            self.by_etree[id(n._etree_obj)] = pos
        elif isinstance(n, ProcessingInstructionNode):
            p = {"kind": "pi", "target": n.target, "content": n.content, "pos": pos, "kids": []}
            self.by_etree[id(n._etree_obj)] = pos
        else:
            raise TypeError(type(n))
        self.nodes.append((pos, n, p))
        self.by_id[id(n)] = pos
        if isinstance(n, TagNode):
            for i, c in enumerate(n.iterate_children()):
                p["kids"].append(self._walk(c, pos + (i,)))
        return p

    def pos_of(self, node):
        return self.by_id.get(id(node))

    def node_at(self, pos):
        for p, n, _ in self.nodes:
            if p == pos:
                return n
        return None

    def lxml_pos(self, x):
        """position of an lxml XPath result item (element/comment/PI or smart string), None if unmappable"""
        from lxml import etree
        if isinstance(x, etree._Element):
            return self.by_etree.get(id(x))
        if isinstance(x, str) and hasattr(x, "getparent"):
            par = x.getparent()
            pp = self.by_etree.get(id(par))
            if pp is None:
                return None
            if x.is_text:
                return pp + (0,)
            if x.is_tail:
                return pp[:-1] + (pp[-1] + 1,)
        return None

    def coq(self):
        counter = [0]
        return _coq_tree(self.plain, counter)


def _coq_tree(p, counter):
    counter[0] += 1
    i = counter[0]
    k = p["kind"]
    if k == "tag":
        attrs = clist("(%s, %s, %s)" % (cstr(a), cstr(b), cstr(c)) for a, b, c in p["attrs"])
        pay = "(PTag %s %s %s)" % (cstr(p["ns"]), cstr(p["local"]), attrs)
    elif k == "text":
        pay = "(PText %s)" % cstr(p["content"])
    elif k == "comment":
        pay = "(PComment %s)" % cstr(p["content"])
    else:
        pay = "(PPI %s %s)" % (cstr(p["target"]), cstr(p["content"]))
    kids = clist(_coq_tree(c, counter) for c in p["kids"])
    return "(INode %d%%N %s %s)" % (i, pay, kids)


def coq_pos(pos):
    return "[" + "; ".join("%d%%nat" % i for i in pos) + "]"


def effective_nsmap(ctx_node, namespaces):
    """the Namespaces object evaluate() builds, as an ordered list of (prefix, uri)"""
    from _delb.names import Namespaces
    if namespaces is None:
        ns = Namespaces({"": ctx_node.namespace}) if isinstance(ctx_node, TagNode) else Namespaces({})
    else:
        ns = Namespaces(namespaces)
    return [(k, ns[k] or "") for k in ns]


def coq_nsmap(pairs):
    return clist("(%s, %s)" % (cstr(k), cstr(v)) for k, v in pairs)


# ---------------------------------------------------------------- decoding Run.v results
def _dec_nodes(l, i):
    n = l[i]
    i += 1
    out = []
    for _ in range(n):
        k = l[i]
        out.append(tuple(l[i + 1:i + 1 + k]))
        i += 1 + k
    return out, i


def dec_res(l, i=0):
    """-> (('ok', [positions]) | ('rejected', exn) | ('crash', exn) | ('outside',) | ('untranslatable',) | ('none',), next index)"""
    t = l[i]
    if t == 0:
        nodes, j = _dec_nodes(l, i + 1)
        return ("ok", nodes), j
    if t == 1:
        return ("rejected", EXN[l[i + 1]]), i + 2
    if t == 2:
        return ("crash", EXN[l[i + 1]]), i + 2
    if t == 3:
        return ("outside",), i + 1
    if t == 4:
        return ("untranslatable",), i + 1
    if t == 9:
        return ("none",), i + 1
    raise ValueError("bad result encoding %r at %d" % (l, i))


def dec_case(l):
    """Run.run_case -> dict(subset, eval, ref, dev, order)"""
    sub = bool(l[0])
    ev, i = dec_res(l, 1)
    rf, i = dec_res(l, i)
    dv, i = dec_res(l, i)
    od, i = dec_res(l, i)
    return {"subset": sub, "eval": ev, "ref": rf, "dev": dv, "order": od}


def real_outcome(fn, tree):
    """run a query on the implementation -> ('ok', [positions]) | ('rejected', cls) | ('crash', cls)"""
    from _delb.exceptions import XPathEvaluationError
    try:
        res = fn()
        out = []
        for n in res:
            p = tree.pos_of(n)
            if p is None:
                return ("crash", "UnknownNode")
            out.append(p)
        return ("ok", out)
    except XPathEvaluationError:
        return ("rejected", "XPathEvaluationError")
    except Exception as e:        # noqa: BLE001 - the class is the observation
        n = type(e).__name__
        return ("crash", n if n in EXN else "OtherError")


def coq_eval_retry(ctx, name, requires, terms, chunk=150):
    """ctx.coq_eval, with one more attempt (smaller files, one after the other) for the terms of a file that coqc did
    not finish - on a loaded machine a file can run into the timeout; a second failure is reported as it is"""
    res = ctx.coq_eval(name, requires, terms, chunk=chunk)
    missing = [i for i, r in enumerate(res) if r is None]
    if missing and len(missing) < len(terms):
        again = ctx.coq_eval(name + "_retry", requires, [terms[i] for i in missing], chunk=max(20, chunk // 4), timeout=1200)
        for i, r in zip(missing, again):
            res[i] = r
    return res
