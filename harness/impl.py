"""Access to the implementation under /repo (imported in-process; PYTHONPATH=/repo is set by ./check)."""
import gc
import os
import sys
import warnings

REPO = os.environ.get("DELB_REPO", "/repo")
if REPO not in sys.path:
    sys.path.insert(0, REPO)
os.environ.setdefault("DELB_PY_VERIF", "1")
warnings.simplefilter("ignore")

import delb  # noqa: E402
from delb import (Document, TagNode, TextNode, CommentNode, ProcessingInstructionNode, ParserOptions,  # noqa: E402,F401
                  FormatOptions, altered_default_filters, new_tag_node, new_comment_node,
                  new_processing_instruction_node, tag, is_tag_node, is_text_node, is_comment_node,
                  is_processing_instruction_node, compare_trees)
from _delb import nodes as _nodes  # noqa: E402,F401

XML_NS = "http://www.w3.org/XML/1998/namespace"


def extract(node):
    """content tree of a delb node as nested tuples (see common.cnode); attributes sorted by (ns, name)"""
    with altered_default_filters():
        return _extract(node)


def _extract(node):
    if isinstance(node, TagNode):
        attrs = sorted(((a.namespace or "", a.local_name, a.value) for a in node.attributes.values()))
        return ("tag", node.namespace or "", node.local_name, attrs, [_extract(c) for c in node.iterate_children()])
    if isinstance(node, TextNode):
        return ("text", node.content)
    if isinstance(node, CommentNode):
        return ("comment", node.content)
    if isinstance(node, ProcessingInstructionNode):
        return ("pi", node.target, node.content)
    raise TypeError(type(node))


def build(t):
    """build a parentless delb node from a content tree through the API (adjacent text nodes stay separate)"""
    k = t[0]
    if k == "tag":
        n = new_tag_node(t[2], attributes={((a or None), b) if a else b: c for a, b, c in t[3]}, namespace=t[1] or None)
        with altered_default_filters():
            for c in t[4]:
                n.append_children(build(c))
        return n
    if k == "text":
        return TextNode(t[1])
    if k == "comment":
        return new_comment_node(t[1])
    if k == "pi":
        return new_processing_instruction_node(t[1], t[2])
    raise ValueError(k)


def esc_text(s):
    return s.replace("&", "&amp;").replace("<", "&lt;").replace(">", "&gt;").replace("\r", "&#13;")


def esc_attr(s):
    return esc_text(s).replace('"', "&quot;")


def to_xml(t, prefixes=None, top=True):
    """straightforward XML text for a content tree (used to feed the parser route); namespaces are declared
    on the element where they first occur with prefixes p0, p1, ... for attributes and as default for elements"""
    k = t[0]
    if k == "text":
        return esc_text(t[1])
    if k == "comment":
        return "<!--%s-->" % t[1]
    if k == "pi":
        return "<?%s %s?>" % (t[1], t[2]) if t[2] else "<?%s?>" % t[1]
    ns, name, attrs, kids = t[1], t[2], t[3], t[4]
    prefixes = dict(prefixes or {})
    decl = ""
    cur_default = prefixes.get(None, "")
    if ns != cur_default:
        decl += ' xmlns="%s"' % esc_attr(ns)
        prefixes[None] = ns
    out_attrs = ""
    for ans, an, av in attrs:
        if ans == XML_NS:
            out_attrs += ' xml:%s="%s"' % (an, esc_attr(av))
        elif ans:
            if ans not in prefixes:
                prefixes[ans] = "p%d" % len([p for p in prefixes if p is not None])
                decl += ' xmlns:%s="%s"' % (prefixes[ans], esc_attr(ans))
            out_attrs += ' %s:%s="%s"' % (prefixes[ans], an, esc_attr(av))
        else:
            out_attrs += ' %s="%s"' % (an, esc_attr(av))
    inner = "".join(to_xml(c, prefixes, False) for c in kids)
    if kids:
        return "<%s%s%s>%s</%s>" % (name, decl, out_attrs, inner, name)
    return "<%s%s%s/>" % (name, decl, out_attrs)


class no_gc:
    """tree comparisons are made with the cyclic collector disabled (the collector may merge unreferenced
    adjacent text nodes at any moment, which C04 covers separately)"""
    def __enter__(self):
        self.was = gc.isenabled()
        gc.disable()

    def __exit__(self, *a):
        if self.was:
            gc.enable()
