"""Shared machinery of the tree-edit checks (C01, C09, C10): running edit histories on the real objects, dumping
their complete internal state (lxml slots, text chains, object identity) and the client's view, writing the same
worlds / operations as Gallina terms for Conc/COps.v (cstep) and Tree/AOps.v (astep), and decoding what Coq returns.

Node identity: every node object gets a number on first appearance (strong references are kept, the cyclic GC is
disabled by the caller); operations name nodes by these numbers and announce the numbers of the objects they create."""
import impl
from impl import (Document, TagNode, TextNode, CommentNode, ProcessingInstructionNode, altered_default_filters,
                  new_tag_node, new_comment_node, new_processing_instruction_node, tag)
from _delb.nodes import _wrapper_cache, DETACHED
from _delb.exceptions import InvalidOperation

REQ = ("From Coq Require Import List NArith ZArith.\nFrom Delb.Base Require Import PyStr.\n"
       "From Delb.Tree Require Import ATree ITree AOps.\nFrom Delb.Conc Require Import CTree COps CEncode.\n"
       "Local Open Scope N_scope.\n")

KINDS = ("tag", "text", "comment", "pi")
F_ALL = (True, True, True, True)
F_DEFAULT = (True, True, False, False)
F_TAG = (True, False, False, False)
EXN = {"InvalidOperation": 0, "TypeError": 1, "ValueError": 2, "IndexError": 3, "AssertionError": 4,
       "AttributeError": 5, "Unmodelled": 6}


def kind_of(n):
    if isinstance(n, TagNode):
        return "tag"
    if isinstance(n, TextNode):
        return "text"
    if isinstance(n, CommentNode):
        return "comment"
    return "pi"


def filt_ctx(F):
    if all(F):
        return altered_default_filters()
    allowed = {k for k, b in zip(KINDS, F) if b}
    return altered_default_filters(lambda n: kind_of(n) in allowed)


def split_clark(key):
    if key.startswith("{"):
        ns, local = key[1:].split("}", 1)
        return ns, local
    return "", key


# ------------------------------------------------------------------------------------------------ Gallina terms
def gstr(s):
    return "[" + ";".join(str(ord(c)) for c in s) + "]"


def gopt(x, f=str):
    return "None" if x is None else "(Some %s)" % f(x)


def gchain(ch):
    head, slot, app = ch
    return "(Build_chain %s %s [%s])" % (gopt(head), gopt(slot, gstr),
                                        ";".join("(Build_tobj %d %s)" % (i, gstr(s)) for i, s in app))


def gattrs(attrs):
    return "[" + ";".join("(%s,%s,%s)" % (gstr(a), gstr(b), gstr(c)) for a, b, c in attrs) + "]"


def gkind(k):
    if k[0] == "tag":
        return "(KTag %s %s %s)" % (gstr(k[1]), gstr(k[2]), gattrs(k[3]))
    if k[0] == "comment":
        return "(KComment %s)" % gstr(k[1])
    return "(KPI %s %s)" % (gstr(k[1]), gstr(k[2]))


def gcel(e, inh=""):
    """e = (id, kind, dns_in_scope, data_chain, [(cel, tail_chain)]); own_dns is reconstructed from the in-scope values"""
    i, k, dns, data, kids = e
    own = None if dns == inh else dns
    return "(CEl %d %s %s %s [%s])" % (i, gkind(k), gopt(own, gstr), gchain(data),
                                      ";".join("(%s,%s)" % (gcel(c, dns), gchain(t)) for c, t in kids))


def gworld(w):
    docs = ";".join("(Build_cdoc [%s] %s [%s])" % (";".join(gcel(e) for e in pro), gcel(root),
                                                    ";".join(gcel(e) for e in epi)) for pro, root, epi in w["docs"])
    loose = ";".join(("(LEl %s)" % gcel(l[1])) if l[0] == "el" else "(LText (Build_tobj %d %s))" % (l[1], gstr(l[2]))
                     for l in w["loose"])
    return "(Build_cworld [%s] [%s])" % (docs, loose)


def gsrc(s):
    if s[0] == "node":
        return "(SNode %d)" % s[1]
    if s[0] == "str":
        return "(SStr %d %s)" % (s[1], gstr(s[2]))
    return "(STag %d %s)" % (s[1], gstr(s[2]))


def gz(i):
    return "(%d)%%Z" % i


def gop(o):
    k = o[0]
    srcs = lambda l: "[" + ";".join(gsrc(s) for s in l) + "]"  # noqa: E731
    if k == "follow":
        return "(OAddFollowing %d %s)" % (o[1], srcs(o[2]))
    if k == "precede":
        return "(OAddPreceding %d %s)" % (o[1], srcs(o[2]))
    if k == "append":
        return "(OAppend %d %s)" % (o[1], srcs(o[2]))
    if k == "prepend":
        return "(OPrepend %d %s)" % (o[1], srcs(o[2]))
    if k == "insert":
        return "(OInsert %d %s %s)" % (o[1], gz(o[2]), srcs(o[3]))
    if k == "detach":
        return "(ODetach %d %s)" % (o[1], "true" if o[2] else "false")
    if k == "replace":
        return "(OReplace %d %s)" % (o[1], gsrc(o[2]))
    if k == "setitem":
        return "(OSetItem %d %s %s)" % (o[1], gz(o[2]), gsrc(o[3]))
    if k == "delitem":
        return "(ODelItem %d %s)" % (o[1], gz(o[2]))
    if k == "content":
        return "(OSetContent %d %s)" % (o[1], gstr(o[2]))
    if k == "merge":
        return "(OMerge %d)" % o[1]
    raise ValueError(k)


def gfilt(F):
    return "(Build_filt %s)" % " ".join("true" if b else "false" for b in F)


def ghist(w, ops):
    return "both_hist %s [%s]" % (gworld(w), ";".join("(%s,%s)" % (gfilt(F), gop(o)) for F, o in ops))


# ------------------------------------------------------------------------------------------------ decoding
class Dec:
    def __init__(self, l, i=0):
        self.l, self.i = l, i

    def n(self):
        v = self.l[self.i]
        self.i += 1
        return v

    def s(self):
        k = self.n()
        v = "".join(chr(c) for c in self.l[self.i:self.i + k])
        self.i += k
        return v

    def opt(self, f):
        return f() if self.n() else None

    def lst(self, f):
        return [f() for _ in range(self.n())]

    def framed(self):
        k = self.n()
        d = Dec(self.l[self.i:self.i + k])
        self.i += k
        return d

    def done(self):
        return self.i >= len(self.l)

    def attr(self):
        return (self.s(), self.s(), self.s())

    def tobj(self):
        return (self.n(), self.s())

    def chain(self):
        return (self.opt(self.n), self.opt(self.s), self.lst(self.tobj))

    def kind(self):
        t = self.n()
        if t == 0:
            return ("tag", self.s(), self.s(), self.lst(self.attr))
        if t == 1:
            return ("text", self.s())
        if t == 2:
            return ("comment", self.s())
        return ("pi", self.s(), self.s())

    def cel(self):
        i = self.n()
        k = self.kind()
        dns = self.s()
        data = self.chain()
        kids = [(self.cel(), self.chain()) for _ in range(self.n())]
        return (i, k, dns, data, kids)

    def cloose(self):
        if self.n() == 0:
            return ("el", self.cel())
        t = self.tobj()
        return ("text", t[0], t[1])

    def cworld(self):
        docs = self.lst(lambda: (self.lst(self.cel), self.cel(), self.lst(self.cel)))
        return {"docs": docs, "loose": self.lst(self.cloose)}

    def itree(self):
        i = self.n()
        p = self.kind()
        return (i, p, self.lst(self.itree))

    def aworld(self):
        docs = self.lst(lambda: (self.lst(self.itree), self.itree(), self.lst(self.itree)))
        return {"docs": docs, "loose": self.lst(self.itree)}

    def result(self):
        t = self.n()
        return ("ok",) if t == 0 else (("rejected", "crash")[t - 1], self.n())


def decode_both(l):
    """-> (concrete steps [(result, trace, world)], abstract steps [(result, world)], cwf of the initial world)"""
    d = Dec(l)
    dc, da = d.framed(), d.framed()
    wf = d.n()
    cs, as_ = [], []
    while not dc.done():
        r = dc.framed().result()
        fr = dc.framed()
        tr = fr.lst(lambda: tuple(fr.lst(fr.n)))
        cs.append((r, tr, dc.framed().cworld()))
    while not da.done():
        r = da.framed().result()
        as_.append((r, da.framed().aworld()))
    return cs, as_, wf


def norm_cworld(w):
    return {"docs": w["docs"], "loose": sorted(w["loose"], key=lambda l: l[1][0] if l[0] == "el" else l[1])}


def norm_aworld(w):
    return {"docs": w["docs"], "loose": sorted(w["loose"], key=lambda t: t[0])}


# ------------------------------------------------------------------------------------------------ the real side
class Real:
    """documents + every node object met so far, numbered"""

    def __init__(self):
        self.ids = {}
        self.objs = {}
        self.next = 0
        self.docs = []
        self.pending = []         # numbers announced for objects an operation is about to create

    def nid(self, obj, create=True):
        k = id(obj)
        if k not in self.ids:
            if not create:
                return None
            if self.pending:
                n = self.pending.pop(0)
            else:
                n = self.next
                self.next += 1
            self.ids[k] = n
            self.objs[n] = obj
        return self.ids[k]

    def reserve(self, count):
        out = list(range(self.next, self.next + count))
        self.next += count
        return out

    def bind(self, n, obj):
        if id(obj) in self.ids:
            return
        self.ids[id(obj)] = n
        self.objs[n] = obj

    # ---- concrete dump
    def dump_chain(self, head):
        app = []
        cur = head._appended_text_node
        while cur is not None:
            app.append((self.nid(cur), cur.content))
            cur = cur._appended_text_node
        if head._exists:
            return (self.nid(head), head.content, app)
        return (None, None, app)

    def el_kind(self, w):
        e = w._etree_obj
        if isinstance(w, TagNode):
            attrs = [split_clark(k) + (v,) for k, v in e.attrib.items()]
            return ("tag", w.namespace or "", w.local_name, attrs)
        if isinstance(w, CommentNode):
            return ("comment", w.content)
        return ("pi", w.target, w.content or "")

    def dump_el(self, w):
        e = w._etree_obj
        i = self.nid(w)
        if isinstance(w, TagNode):
            dns = e.nsmap.get(None) or ""
            data = self.dump_chain(w._data_node)
            kids = []
            for k in e:
                kw = _wrapper_cache(k)
                kd = self.dump_el(kw)
                kids.append((kd, self.dump_chain(kw._tail_node)))
            return (i, self.el_kind(w), dns, data, kids)
        parent = e.getparent()
        dns = (parent.nsmap.get(None) or "") if parent is not None else ""
        return (i, self.el_kind(w), dns, (None, None, []), [])

    def root_siblings(self, doc):
        e = doc.root._etree_obj
        pro = [_wrapper_cache(s) for s in e.itersiblings(preceding=True)][::-1]
        epi = [_wrapper_cache(s) for s in e.itersiblings()]
        return pro, epi

    def dump_world(self):
        docs = []
        owned = set()
        for d in self.docs:
            pro, epi = self.root_siblings(d)
            for s in pro + epi + [d.root]:
                owned.add(id(s))
            docs.append(([self.dump_el(s) for s in pro], self.dump_el(d.root), [self.dump_el(s) for s in epi]))
        loose = []
        for n, o in sorted(self.objs.items()):
            if isinstance(o, TextNode):
                if o._position is DETACHED:
                    loose.append(("text", n, o.content))
            elif id(o) not in owned and o._etree_obj.getparent() is None:
                loose.append(("el", self.dump_el(o)))
        # objects numbered during this walk (none expected) appear as loose only if detached
        return norm_cworld({"docs": docs, "loose": loose})

    # ---- the client's view (public API only)
    def view(self, n):
        i = self.nid(n)
        if isinstance(n, TagNode):
            attrs = []
            for ns, name in n.attributes:
                attrs.append((ns or "", name, n.attributes[(ns, name)].value))
            return (i, ("tag", n.namespace or "", n.local_name, attrs), [self.view(c) for c in n.iterate_children()])
        if isinstance(n, TextNode):
            return (i, ("text", n.content), [])
        if isinstance(n, CommentNode):
            return (i, ("comment", n.content), [])
        return (i, ("pi", n.target, n.content or ""), [])

    def view_world(self):
        with altered_default_filters():
            docs = []
            owned = set()
            for d in self.docs:
                pro, epi = self.root_siblings(d)
                for s in pro + epi + [d.root]:
                    owned.add(id(s))
                docs.append(([self.view(s) for s in pro], self.view(d.root), [self.view(s) for s in epi]))
            loose = []
            for n, o in sorted(self.objs.items()):
                if isinstance(o, TextNode):
                    if o._position is DETACHED:
                        loose.append(self.view(o))
                elif id(o) not in owned and o.parent is None:
                    loose.append(self.view(o))
            return norm_aworld({"docs": docs, "loose": loose})

    # ---- running one operation; returns None or the exception class name
    def arg(self, s):
        if s[0] == "node":
            return self.objs[s[1]]
        if s[0] == "str":
            return s[2]
        return tag(s[2])

    def run(self, F, o):
        k = o[0]
        tgt = self.objs[o[1]]
        created = []          # (announced number, position in the returned tuple)
        try:
            with filt_ctx(F):
                if k in ("follow", "precede", "append", "prepend", "insert"):
                    srcs = o[3] if k == "insert" else o[2]
                    args = [self.arg(s) for s in srcs]
                    if k == "follow":
                        res = tgt.add_following_siblings(*args)
                    elif k == "precede":
                        res = tgt.add_preceding_siblings(*args)
                    elif k == "append":
                        res = tgt.append_children(*args)
                    elif k == "prepend":
                        res = tgt.prepend_children(*args)
                    else:
                        res = tgt.insert_children(o[2], *args)
                    for s, r in zip(srcs, res):
                        if s[0] != "node":
                            self.bind(s[1], r)
                elif k == "detach":
                    tgt.detach(retain_child_nodes=o[2])
                elif k == "replace":
                    self.pending = [o[2][1]] if o[2][0] != "node" else []
                    tgt.replace_with(self.arg(o[2]))
                elif k == "setitem":
                    self.pending = [o[3][1]] if o[3][0] != "node" else []
                    tgt[o[2]] = self.arg(o[3])
                elif k == "delitem":
                    del tgt[o[2]]
                elif k == "content":
                    tgt.content = o[2]
                elif k == "merge":
                    tgt.merge_text_nodes()
                else:
                    raise ValueError(k)
        except (InvalidOperation, TypeError, ValueError, IndexError, AssertionError, AttributeError) as e:
            self.pending = []
            return type(e).__name__
        if self.pending:
            # the object made from a string / tag() inside replace_with is found by walking the trees
            self.dump_world()
            self.pending = []
        return None
