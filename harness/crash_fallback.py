"""Called by ./check when a check process died with an unexpected status: report that the property is no
longer shown to hold (no failing input), and leave a valid evidence file saying so."""
import json
import os
import sys
import time

VERIF = os.path.dirname(os.path.dirname(os.path.abspath(__file__)))
prop, status = sys.argv[1], sys.argv[2]
tier = "quick"
seed = int(os.environ.get("VERIF_SEED", "0"))
args = sys.argv[3:]
for i, a in enumerate(args):
    if a == "--tier" and i + 1 < len(args) and args[i + 1] in ("quick", "thorough"):
        tier = args[i + 1]
    if a == "--seed" and i + 1 < len(args):
        seed = int(args[i + 1])
os.makedirs(os.path.join(VERIF, "build", "replay"), exist_ok=True)
replay = os.path.join(VERIF, "build", "replay", "%s_%d.json" % (prop, seed))
with open(replay, "w") as f:
    json.dump({"property": prop, "kind": "obligation-broken",
               "no_longer_checks": [{"kind": "harness", "name": "check process exited with status " + status,
                                     "detail": "the check could not run to completion against this tree (see stderr)"}]}, f, indent=1)
ev = {"property_id": prop, "tier": tier, "seed": seed, "level": "proof",
      "coverage": {"evaluations": 1, "distinct_nontrivial": 0, "obligations": 1, "discharged": 0,
                   "checker_cmd": "./check " + prop, "trusted_base": [], "samples": ["check process died with status " + status],
                   "rule": "none: the check did not run to completion", "broken": [["harness", "exit status " + status]]},
      "assumptions": [], "wall_s": 0.0, "violations": 1}
os.makedirs(os.path.join(VERIF, "evidence"), exist_ok=True)
with open(os.path.join(VERIF, "evidence", prop + ".json"), "w") as f:
    json.dump(ev, f, indent=1)
print("VIOLATION property=%s replay=%s no-failing-input-found" % (prop, replay))
