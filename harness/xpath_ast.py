"""Python side of coq/theories/XPath/Ast.v + AstEnc.v: walk the object graph the *real* parser builds
(_delb.xpath.parse(expr) -> XPathExpression) and produce
   to_tuple(ast)  a plain nested-tuple form (the constructor set of design_probes/xp_model.py)
   enc_ast(ast)   the canonical number list AstEnc.enc_expr computes
   coq_ast(ast)   the Gallina term of type Ast.xpath_expr
All three accept either real _delb.xpath.ast objects or the tuple form."""
import operator

from common import cstr, clist, enc_str

AXES = ["ancestor", "ancestor_or_self", "child", "descendant", "descendant_or_self", "following",
        "following_sibling", "parent", "preceding", "preceding_sibling", "self"]
AXIS_CTOR = ["AxAncestor", "AxAncestorOrSelf", "AxChild", "AxDescendant", "AxDescendantOrSelf", "AxFollowing",
             "AxFollowingSibling", "AxParent", "AxPreceding", "AxPrecedingSibling", "AxSelf"]
KINDS = ["TagNode", "TextNode", "CommentNode", "ProcessingInstructionNode"]
KIND_CTOR = ["KTagNode", "KTextNode", "KCommentNode", "KProcessingInstructionNode"]
OPS = ["le", "lt", "ge", "gt", "eq", "ne", "and_", "or_"]
OP_CTOR = ["OpLe", "OpLt", "OpGe", "OpGt", "OpEq", "OpNe", "OpAnd", "OpOr"]
_OPOBJ = {getattr(operator, n): n for n in OPS}


class NotRepresentable(Exception):
    """the object graph contains something Ast.v has no constructor for"""


def _axis_name(ax):
    g = ax.generator
    try:
        n = g.__name__
    except Exception:
        return "<junk>"
    return n if isinstance(n, str) else "<junk>"


def _fn_name(f):
    from _delb.plugins import plugin_manager
    for k, v in plugin_manager.xpath_functions.items():
        if v is f:
            return k
    raise NotRepresentable("function object not in the registry")


def to_tuple(x):
    """real ast object -> ('expr', paths) / ('path', abs, steps) / ('step', ('axis', name), test, preds) / ...
    tests: ('name', prefix, local) ('anyname', prefix) ('typetest', class_name) ('pitest', target)
    exprs: ('val', str|int) ('attrval', prefix, local) ('hasattr', prefix, local) ('op', opname, l, r) ('fn', name, args)"""
    if isinstance(x, tuple):
        return x
    import _delb.xpath.ast as A
    t = type(x)
    if t is A.XPathExpression:
        return ("expr", tuple(to_tuple(p) for p in x.location_paths))
    if t is A.LocationPath:
        return ("path", bool(x.absolute), tuple(to_tuple(s) for s in x.location_steps))
    if t is A.LocationStep:
        return ("step", ("axis", _axis_name(x.axis)), to_tuple(x.node_test), tuple(to_tuple(p) for p in x.predicates))
    if t is A.NameMatchTest:
        return ("name", x.prefix, x.local_name)
    if t is A.AnyNameTest:
        return ("anyname", x.prefix)
    if t is A.ProcessingInstructionTest:
        return ("pitest", x.target)
    if t is A.NodeTypeTest:
        return ("typetest", x.type_name)
    if t is A.AnyValue:
        if type(x.value) not in (str, int) or (type(x.value) is int and x.value < 0):
            raise NotRepresentable("AnyValue(%r)" % (x.value,))
        return ("val", x.value)
    if t is A.AttributeValue:
        return ("attrval", x.prefix, x.local_name)
    if t is A.HasAttribute:
        return ("hasattr", x.prefix, x.local_name)
    if t is A.BooleanOperator:
        if x.operator not in _OPOBJ:
            raise NotRepresentable("operator %r" % (x.operator,))
        return ("op", _OPOBJ[x.operator], to_tuple(x.left), to_tuple(x.right))
    if t is A.Function:
        return ("fn", _fn_name(x.function), tuple(to_tuple(a) for a in x.arguments))
    raise NotRepresentable(repr(t))


_OPSYM = {"<=": "le", "<": "lt", ">=": "ge", ">": "gt", "=": "eq", "!=": "ne", "and": "and_", "or": "or_"}


def _op(n):
    return _OPSYM.get(n, n)


def _eopt(s):
    return [0] if s is None else [1] + enc_str(s)


def _copt(s):
    return "None" if s is None else "(Some %s)" % cstr(s)


def _elist(f, xs):
    out = [len(xs)]
    for x in xs:
        out += f(x)
    return out


def enc_axis(a):
    n = a[1]
    return [AXES.index(n)] if n in AXES else [11] + enc_str(n)


def enc_test(t):
    k = t[0]
    if k == "name":
        return [0] + _eopt(t[1]) + enc_str(t[2])
    if k == "anyname":
        return [1] + _eopt(t[1])
    if k == "typetest":
        return [2, KINDS.index(t[1])]
    if k == "pitest":
        return [3] + enc_str(t[1])
    raise NotRepresentable(k)


def enc_pexpr(e):
    k = e[0]
    if k == "val":
        return [0, 0] + enc_str(e[1]) if isinstance(e[1], str) else [0, 1, e[1]]
    if k == "attrval":
        return [1] + _eopt(e[1]) + enc_str(e[2])
    if k == "hasattr":
        return [2] + _eopt(e[1]) + enc_str(e[2])
    if k == "op":
        return [3, OPS.index(_op(e[1]))] + enc_pexpr(e[2]) + enc_pexpr(e[3])
    if k == "fn":
        return [4] + enc_str(e[1]) + _elist(enc_pexpr, e[2])
    raise NotRepresentable(k)


def enc_step(s):
    return enc_axis(s[1]) + enc_test(s[2]) + _elist(enc_pexpr, s[3])


def enc_path(p):
    return [1 if p[1] else 0] + _elist(enc_step, p[2])


def enc_ast(x):
    return _elist(enc_path, to_tuple(x)[1])


def coq_axis(a):
    n = a[1]
    return AXIS_CTOR[AXES.index(n)] if n in AXES else "(AxOther %s)" % cstr(n)


def coq_test(t):
    k = t[0]
    if k == "name":
        return "(NameMatchTest %s %s)" % (_copt(t[1]), cstr(t[2]))
    if k == "anyname":
        return "(AnyNameTest %s)" % _copt(t[1])
    if k == "typetest":
        return "(NodeTypeTest %s)" % KIND_CTOR[KINDS.index(t[1])]
    if k == "pitest":
        return "(ProcessingInstructionTest %s)" % cstr(t[1])
    raise NotRepresentable(k)


def coq_pexpr(e):
    k = e[0]
    if k == "val":
        return "(AnyValue (VStr %s))" % cstr(e[1]) if isinstance(e[1], str) else "(AnyValue (VNum %d%%N))" % e[1]
    if k == "attrval":
        return "(AttributeValue %s %s)" % (_copt(e[1]), cstr(e[2]))
    if k == "hasattr":
        return "(HasAttribute %s %s)" % (_copt(e[1]), cstr(e[2]))
    if k == "op":
        return "(BooleanOperator %s %s %s)" % (OP_CTOR[OPS.index(_op(e[1]))], coq_pexpr(e[2]), coq_pexpr(e[3]))
    if k == "fn":
        return "(Function %s %s)" % (cstr(e[1]), clist(coq_pexpr(a) for a in e[2]))
    raise NotRepresentable(k)


def coq_step(s):
    return "(LocationStep %s %s %s)" % (coq_axis(s[1]), coq_test(s[2]), clist(coq_pexpr(p) for p in s[3]))


def coq_path(p):
    return "(LocationPath %s %s)" % ("true" if p[1] else "false", clist(coq_step(s) for s in p[2]))


def coq_ast(x):
    return clist(coq_path(p) for p in to_tuple(x)[1])
