"""Shared by the checks C18 and C03: document generators (XML text, then parsed and whitespace-reduced by the
implementation), running the real serializers, and the decoding of model results.

The serializer models (Ws/Pretty.v, Ws/Wrap.v) are written for trees without namespaces except xml: attributes;
namespaced documents are run through the models as their qualified view (Ws/Qualified.v; ns_view below).  Carriage returns and tabs/newlines in attribute values are not
generated either: the plain serializer writes them unescaped and an XML reader normalises them (C02's subject)."""
import io

import impl
from common import cstr
from impl import Document, ParserOptions, FormatOptions, TagNode, extract, to_xml, altered_default_filters

XML_NS = impl.XML_NS
INDENTS = ["", " ", "  ", "\t", " \t"]
# FormatOptions.indentation accepts every str.isspace string: also those with a newline
LF_INDENTS = ["\n", " \n", "\n "]
INDENTS0 = INDENTS + LF_INDENTS

WORDS = ["a", "bb", "ccc", "dddd", "eeeee", "ffffff", "ggggggg", "hhhhhhhh", "iiiiiiiii", "jjjjjjjjjj",
         "x&y", "<", ">", "é", 'q"q', "l'l", "unbreakablewordoftwentysix", "mmmmmmmmmmmmmmmmmmmmmmmmmmmmmmmmmmmmmmmmmmmmm"]
SHORT = WORDS[:10]
WS = [" ", "\n", "  ", "\n  ", "\t", " \n "]
NAMES = ["r", "x", "yy", "para", "b", "hi"]
ATTR_VALUES = ["v", "", "a b", "x&y<z>", 'say "hi"', "1234567890"]
ATTR_NAMES = ["k", "id", "long-name", "n"]


def space_attr(v):
    return (XML_NS, "space", v)


def gen_attrs(rng, preserve_rate=0.1):
    attrs = []
    n = rng.choice([0, 0, 0, 1, 1, 2, 3])
    for k in rng.sample(ATTR_NAMES, n):
        attrs.append(("", k, rng.choice(ATTR_VALUES)))
    r = rng.random()
    if r < preserve_rate:
        attrs.append(space_attr("preserve"))
    elif r < preserve_rate + 0.05:
        attrs.append(space_attr("default"))
    elif r < preserve_rate + 0.07:
        attrs.append(space_attr(rng.choice(["", "Preserve", "x"])))
    return sorted(attrs)


# white space beyond ASCII (in Gen/GenWs.v's table; legal XML characters): NBSP, em space, thin space, ideographic space
UWS = ["\u00a0", "\u2003", "\u2009", "\u3000"]


def word_sep(rng, rate=0.08):
    """the separator between two words of a leaf text: a space, now and then with non-ASCII white space"""
    if rng.random() >= rate:
        return " "
    return rng.choice([rng.choice(UWS), " " + rng.choice(UWS), rng.choice(UWS) + " ", rng.choice(UWS) + rng.choice(UWS),
                       " " + rng.choice(UWS) + " "])


def join_words(rng, words, rate=0.08):
    out = ""
    for i, w in enumerate(words):
        out += (word_sep(rng, rate) if i else "") + w
    return out


def gen_words(rng, lo=1, hi=6, pool=None):
    pool = pool or WORDS
    return [rng.choice(pool if rng.random() < 0.85 else WORDS) for _ in range(rng.randint(lo, hi))]


def gen_misc(rng):
    if rng.random() < 0.6:
        return ("comment", rng.choice(["c", " c ", "", "a longer comment", "x\ny"]))
    return ("pi", rng.choice(["t", "target"]), rng.choice(["", "x  y ", "k=\"v\""]))


# ---------------------------------------------------------------------------------------------- data style
def gen_data_tree(rng, depth, preserve_rate=0.05):
    """raw tree of a conventionally laid out document: whitespace between all siblings, leaves hold <= 1 text;
    now and then a text stands between structural children (still separated by whitespace on both sides)"""
    attrs = gen_attrs(rng, preserve_rate)
    name = rng.choice(NAMES)
    r = rng.random()
    if r < 0.15:
        return ("tag", "", name, attrs, [])
    if r < 0.4 or depth == 0:
        lead = rng.choice(["", "", " ", "\n  ", "\u00a0", "\n\u2003"])
        trail = rng.choice(["", "", " ", "\n", "\u2009", "\u3000\n"])
        return ("tag", "", name, attrs, [("text", lead + join_words(rng, gen_words(rng, 1, 4, SHORT)) + trail)])
    if r < 0.45:
        return ("tag", "", name, attrs, [("text", rng.choice(WS))])
    kids = []
    n = rng.choice([1, 2, 2, 3, 4])
    for i in range(n):
        kids.append(("text", rng.choice(["\n", "\n   ", " ", "\n\t"])))
        q = rng.random()
        if q < 0.65:
            kids.append(gen_data_tree(rng, depth - 1, preserve_rate))
        elif q < 0.85:
            kids.append(gen_misc(rng))
        else:
            # a text among structural children: joined with the whitespace around it by the parser
            kids.append(("text", join_words(rng, gen_words(rng, 1, 3, SHORT))))
    kids.append(("text", rng.choice(["\n", " ", "\n  "])))
    return ("tag", "", name, attrs, kids)


# ---------------------------------------------------------------------------------------------- deep chains
def gen_deep_chain(rng, depth, data_style=True):
    """a chain of `depth` nested elements (conventional layout when data_style) whose innermost levels hold a text
    leaf, an element with attributes (aligned attribute lines), a comment and a PI: nodes sit depth+1 levels below
    the root, and sub-trees started at various depths leave fewer levels below them"""
    sep = (lambda: ("text", rng.choice(["\n", "\n  ", " "]))) if data_style else None

    def wrap_kids(kids):
        if not data_style:
            return kids
        out = []
        for k in kids:
            out += [sep(), k]
        return out + [sep()]
    inner = [("tag", "", "leaf", [], [("text", " ".join(gen_words(rng, 1, 4, SHORT)))]),
             ("tag", "", "e", [("", "id", "1"), ("", "long-name", "v")], []),
             ("comment", "c"), ("pi", "t", "x")]
    rng.shuffle(inner)
    t = ("tag", "", "n%d" % depth, [], wrap_kids(inner))
    for i in range(depth - 1, 0, -1):
        extra = [gen_misc(rng)] if rng.random() < 0.3 else []
        attrs = [("", "k", "v"), ("", "n", "2")] if rng.random() < 0.3 else []
        kids = [t] + extra if rng.random() < 0.5 else extra + [t]
        if not data_style and rng.random() < 0.5:
            kids = [("text", "aa bb ")] + kids + [("text", " cc")]
        t = ("tag", "", "n%d" % i, attrs, wrap_kids(kids))
    return t


# ---------------------------------------------------------------------------------------------- mixed content
def gen_text(rng, width_hint=None):
    """text with optional whitespace at the ends; lengths are biased to end words around width_hint"""
    ws = gen_words(rng, 0, 7)
    if width_hint and ws and rng.random() < 0.5:
        # make the run up to some word end exactly at width_hint-1, width_hint or width_hint+1
        target = width_hint + rng.choice([-1, 0, 1])
        acc = []
        total = 0
        for w in ws:
            if total + len(w) + (1 if acc else 0) > target:
                break
            acc.append(w)
            total += len(w) + (1 if len(acc) > 1 else 0)
        rest = target - total - (1 if acc else 0)
        if rest > 0:
            acc.append("z" * rest)
        ws = acc + gen_words(rng, 0, 3)
    sep = lambda: (rng.choice([" ", " ", " ", "  ", "\n", "\n   "]) if rng.random() < 0.94  # noqa: E731
                   else word_sep(rng, 1.0))
    s = ""
    for i, w in enumerate(ws):
        s += (sep() if i else "") + w
    lead = rng.choice(["", "", " ", "\n "]) if rng.random() < 0.95 else rng.choice(UWS + [" \u00a0"])
    trail = rng.choice(["", "", " ", "\n"]) if rng.random() < 0.95 else rng.choice(UWS + ["\u2003 "])
    s = lead + s + trail
    return s


def gen_mixed_tree(rng, depth, width_hint=None, preserve_rate=0.12, in_preserve=False):
    attrs = gen_attrs(rng, preserve_rate)
    pres = in_preserve or (space_attr("preserve") in attrs)
    kids = []
    for _ in range(rng.choice([0, 1, 1, 2, 2, 3, 3, 4, 5, 6])):
        r = rng.random()
        if r < 0.45:
            s = gen_text(rng, width_hint)
            if pres and rng.random() < 0.6:
                s += rng.choice(["\n", "\n\n", " \n  ", "x\n", "\nyy"])
            if s and not (kids and kids[-1][0] == "text"):
                kids.append(("text", s))
        elif r < 0.8 and depth > 0:
            kids.append(gen_mixed_tree(rng, depth - 1, width_hint, preserve_rate, pres))
        elif r < 0.87:
            kids.append(("tag", "", rng.choice(NAMES), gen_attrs(rng, 0.0), []))
        else:
            kids.append(gen_misc(rng))
    add_twin(rng, kids)
    return ("tag", "", rng.choice(NAMES), attrs, kids)


def add_twin(rng, kids, rate=0.12):
    """now and then the last child is a text / comment / PI with exactly the content of an earlier child that is directly
    followed by an element, comment or PI (nodes other than elements compare by content)"""
    if len(kids) < 2 or rng.random() >= rate:
        return
    cands = [i for i in range(len(kids) - 1) if kids[i][0] in ("text", "comment", "pi") and kids[i + 1][0] != "text"]
    if not cands:
        return
    i = rng.choice(cands)
    k = kids[i]
    if k[0] == "text":
        if kids[-1][0] == "text":
            return
        words = k[1].split()
        if not words:
            return
        k = kids[i] = ("text", " ".join(words))     # the same after reduction wherever it stands
    kids.append(k)


# ---------------------------------------------------------------------------------------------- implementation side
def load_reduced(xml):
    return Document(xml, parser_options=ParserOptions(reduce_whitespace=True))


def tag_nodes(doc):
    """root first, then every descendant element"""
    with altered_default_filters():
        out = [doc.root]
        out += [n for n in doc.root.iterate_descendants() if isinstance(n, TagNode)]
    return out


def fo(ind, width, align):
    return FormatOptions(align_attributes=align, indentation=ind, width=width)


def real_serialize(node, ind, width, align):
    return node.serialize(format_options=fo(ind, width, align))


class _Buf(io.BytesIO):
    def close(self):
        pass


def real_document(doc, ind, width, align):
    b = _Buf()
    doc.write(b, format_options=fo(ind, width, align))
    return b.getvalue().decode("utf-8")


def in_domain(t):
    """the stated domain of the serializer models: no namespaces but xml: on attributes, no empty / adjacent text"""
    if t[0] != "tag":
        return True
    if t[1] != "":
        return False
    if any(a[0] not in ("", XML_NS) for a in t[3]):
        return False
    prev_text = False
    for c in t[4]:
        if c[0] == "text":
            if prev_text or c[1] == "":
                return False
            prev_text = True
        else:
            prev_text = False
    return all(in_domain(c) for c in t[4])


def uses_namespaces(t):
    if t[0] != "tag":
        return False
    return t[1] != "" or any(a[0] not in ("", XML_NS) for a in t[3]) or any(uses_namespaces(c) for c in t[4])


def in_domain_ns(t):
    """in_domain without the condition on namespaces"""
    if t[0] != "tag":
        return True
    prev_text = False
    for c in t[4]:
        if c[0] == "text":
            if prev_text or c[1] == "":
                return False
            prev_text = True
        else:
            prev_text = False
    return all(in_domain_ns(c) for c in t[4])


def namespaces_of(t):
    if t[0] != "tag":
        return set()
    out = {t[1]} | {a[0] for a in t[3] if a[0] != XML_NS}
    for c in t[4]:
        out |= namespaces_of(c)
    return out


def ns_view(node):
    """(tbl, decl): the prefix table [(namespace, '' | 'prefix:')] and the namespace declarations [(name, uri)] that
    the serializer of `node` uses, read off the start tag of the node's plain serialization with a namespace-unaware
    parser (Ws/Qualified.v: pf_of tbl, decl)"""
    import xml.parsers.expat
    first = []
    p = xml.parsers.expat.ParserCreate()
    p.ordered_attributes = True

    def start(name, attrs):
        if not first:
            first.append(attrs)
    p.StartElementHandler = start
    p.Parse(node.serialize(), True)
    attrs = first[0]
    decl = [(attrs[i], attrs[i + 1]) for i in range(0, len(attrs), 2)
            if attrs[i] == "xmlns" or attrs[i].startswith("xmlns:")]
    tbl = [(uri, "" if name == "xmlns" else name[6:] + ":") for name, uri in decl]
    if not any(p_ == "" for _, p_ in tbl):
        tbl.append(("", ""))
    return tbl, decl


def ctbl(tbl):
    return "[" + "; ".join("(%s, %s)" % (cstr(n), cstr(p_)) for n, p_ in tbl) + "]"


def cdecl(decl):
    return "[" + "; ".join("([], %s, %s)" % (cstr(k), cstr(v)) for k, v in decl) + "]"


def gen_ns_decorate(rng, t, tag_ns=("", "", "u1", "u2"), attr_ns=("", "", "", "ua")):
    """put the elements / some attributes of a generated tree into namespaces (attribute namespaces are kept apart
    from element namespaces: an attribute in the default namespace is C02 / C13 matter)"""
    if t[0] != "tag":
        return t
    attrs, seen_names = [], set()
    for a in t[3]:
        ns = a[0] if a[0] == XML_NS else rng.choice(attr_ns)
        if (ns, a[1]) not in seen_names:
            seen_names.add((ns, a[1]))
            attrs.append((ns, a[1], a[2]))
    return ("tag", rng.choice(tag_ns), t[2], attrs, [gen_ns_decorate(rng, c, tag_ns, attr_ns) for c in t[4]])


def has_preserve(t):
    if t[0] != "tag":
        return False
    if (XML_NS, "space", "preserve") in [tuple(a) for a in t[3]]:
        return True
    return any(has_preserve(c) for c in t[4])


def depth(t):
    if t[0] != "tag" or not t[4]:
        return 0
    return 1 + max(depth(c) for c in t[4])


# ---------------------------------------------------------------------------------------------- decoding
def dec_strs(l):
    """a list of numbers holding length-prefixed strings -> [str]"""
    out = []
    i = 0
    while i < len(l):
        n = l[i]
        out.append("".join(chr(c) for c in l[i + 1:i + 1 + n]))
        i += 1 + n
    return out


def tuple_tree(t):
    if t[0] == "tag":
        return ("tag", t[1], t[2], [tuple(a) for a in t[3]], [tuple_tree(c) for c in t[4]])
    return tuple(t)
