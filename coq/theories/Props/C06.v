(* C06 - XPath queries select what XPath 1.0 says they select.   Statements only.

   eval       XPath/Eval.v    mirror of _delb/xpath/ast.py (tied to NodeBase.xpath by harness/props/c06.py, and to
                              functions.py / Axis by Gen/GenXEval.v, regenerated from the source on every run)
   ref_eval   XPath/Ref.v     XPath 1.0 semantics of the subset (tied to lxml's engine by the same check)
   deviate    XPath/Ref.v     = xlate true: the three established deviations, and nothing else, applied to e
   in_subset  XPath/Subset.v  decidable; excludes exactly the inputs on which one of the classes (i) text(), (j) prefixed attribute = in-scope default namespace, (l) junk axis / unbound prefix occurs (and concat) *)
From Delb.Base Require Import PyStr.
From Delb.Tree Require Import ATree ITree.
From Delb.XPath Require Import Ast Nav Eval Ref Subset Run EvalRef OrderFacts EvalFaults ParserAxes Css CssFacts C06Witness.

(* Full statement of DESIGN.md:  forall t ctx e nsmap, in_subset e -> NoDup (eval ...) /\ (forall n, In n (eval ...) <->
   In n (ref_eval (deviate e) ...)).  Proved as stated, with in_subset depending also on the tree and the context node
   (class (j) is a property of the candidates an expression meets); on in_subset the evaluator
   does not fault, so "eval" is `Ok l`.  The only normalisation: the root (document) node, which XPath 1.0 can select
   (`..` from the root element, `/.`) and no delb result can contain, is left out -- as with lxml. *)
Theorem C06 : forall (D : itree) (m : nsmap) (e : xpath_expr) (ctx : nd),
  in_subset D m e ctx = true ->
  exists re l r, deviate m e = Some re /\ eval D m e ctx = Ok l /\ ref_eval D m re ctx = Some r /\
                 NoDup l /\ (forall n, In n l <-> In n r /\ is_doc n = false).
Proof.
  intros D m e ctx H. destruct (eval_is_ref D m e ctx H) as (re & r & H1 & H2 & H3 & H4).
  exists re, (filter (fun n => negb (is_doc n)) r), r. repeat split; auto.
  - apply NoDup_filter. eapply NoDup_map_inv. exact H4.
  - apply filter_In in H0. tauto.
  - apply filter_In in H0 as [_ H0]. apply negb_true_iff in H0. exact H0.
  - intros [Hi Hd]. apply filter_In. split; [exact Hi|]. rewrite Hd. reflexivity.
Qed.
Print Assumptions C06.

(* stronger form: the same list in the same order, minus the root node; no position twice *)
Theorem C06_list : forall D m e ctx, in_subset D m e ctx = true ->
  exists re r, deviate m e = Some re /\ ref_eval D m re ctx = Some r /\
               eval D m e ctx = Ok (filter (fun n => negb (is_doc n)) r) /\ NoDup (map fst r).
Proof. exact eval_is_ref. Qed.
Print Assumptions C06_list.

(* each axis of the evaluator is the reference axis of the deviated expression, in proximity order *)
Theorem C06_axes : forall D a a' n, x_axis true a = Some a' -> d_axis D a n = (r_axis D a' n, None).
Proof. exact axis_agrees. Qed.
Print Assumptions C06_axes.

(* predicate expressions: same value up to the representation, for every candidate without a hazard *)
Theorem C06_predicates : forall m e t c pos size, ty_of e = Some t -> hazard m e c = false -> bound m e = true ->
  exists v rv, d_expr m e c pos size = Ok v /\ r_expr m e c pos size = Some rv /\ vrel t v rv.
Proof. intros. eapply expr_agrees; eauto. Qed.
Print Assumptions C06_predicates.

(* de-duplication: no position twice in any result, inside in_subset or not *)
Theorem C06_each_node_once : forall D m e ctx l, eval D m e ctx = Ok l -> NoDup (map fst l).
Proof.
  intros D m e ctx l. unfold eval. destruct (d_paths D m e ctx) as [o f].
  destruct f; [discriminate|]. intro H. inversion H. apply dedup_NoDup_fst.
Qed.
Print Assumptions C06_each_node_once.

(* ---- class (l), exceptions.  On every expression whose axes are among the eleven generators and whose predicates are
   typed (known functions, right number of arguments, no text()) -- inside in_subset or not, for every tree, context
   node and mapping -- the evaluation returns a node list or raises XPathEvaluationError, and it raises only if the
   expression uses a prefix the mapping does not declare (delb checks a prefix when a test is evaluated: with no
   candidate to test the undeclared prefix goes unnoticed, which is why the outcome is a disjunction) *)
Theorem C06_faults : forall D m e ctx, typed e = true ->
  (exists l, eval D m e ctx = Ok l) \/ (eval D m e ctx = Rejected XPathEvaluationError /\ all_bound m e = false).
Proof. exact eval_fine. Qed.
Print Assumptions C06_faults.
Theorem C06_no_fault : forall D m e ctx, typed e = true -> all_bound m e = true -> exists l, eval D m e ctx = Ok l.
Proof. exact eval_no_fault. Qed.
Print Assumptions C06_no_fault.
(* junk axes (Ast.AxOther) cannot come out of the parser: every entry of the generated table of axis names (Axis._names,
   regenerated from the source) maps to one of the eleven axes in the parser model *)
Theorem C06_parser_axes : forall name a, Parse.axis_ctor name = XBase.POk a -> axis_real a = true.
Proof. exact axis_ctor_real. Qed.
Print Assumptions C06_parser_axes.

(* ---- CSS.  cssselect stays an oracle; Css.css_ast is a model of what it produces for the selector forms the check
   generates (type / universal / namespaced selectors, attribute tests, #id, :not(), descendant / child / sibling
   combinators, groups), tied to the real _css_to_xpath + parser on every run.  For every selector of these forms: *)
(* the translation is typed: real axes, boolean predicates *)
Theorem C06_css_typed : forall g, typed (css_ast g) = true.
Proof. exact css_typed. Qed.
(* with the selector's prefixes declared, css_select never raises, whatever the tree, the context and the mapping *)
Theorem C06_css_no_fault : forall D m g ctx, css_declared m g = true -> exists l, eval D m (css_ast g) ctx = Ok l.
Proof. exact css_no_fault. Qed.
Print Assumptions C06_css_no_fault.
(* and every predicate of the translation passes the static part of in_subset (pred_ok): what remains to be decided
   per case -- and is decided by the Coq definition in the check -- is the dynamic class (j) *)
Theorem C06_css_static : forall m g, css_declared m g = true ->
  forallb (fun p => forallb (fun s => forallb (pred_ok m) (step_preds s)) (path_steps p)) (css_ast g) = true.
Proof. exact css_preds_ok. Qed.
Print Assumptions C06_css_static.

(* in_document_order: Eval.in_document_order mirrors _sort_nodes_in_document_order / _NodesSorter (a trie keyed by
   the index tuples, emitted by ascending key).  The trie amounts to insertion into a list kept sorted by position *)
Theorem C06_order_trie : forall l,
  in_document_order l = if forallb is_tagnode l then Ok (fold_left (fun a x => insert_sorted x a) l []) else Crash NotImplementedError.
Proof. exact in_document_order_is_insertion. Qed.
Print Assumptions C06_order_trie.
(* hence: defined for tag results only (anything else is NotImplementedError, as in the code); the same positions,
   strictly increasing in document order *)
Theorem C06_order : forall l r, in_document_order l = Ok r ->
  forallb is_tagnode l = true /\ sorted r = true /\ (forall p, In p (map fst r) <-> In p (map fst l)).
Proof. exact in_document_order_sorted. Qed.
Print Assumptions C06_order.
Theorem C06_order_tags_only : forall l, forallb is_tagnode l = false -> in_document_order l = Crash NotImplementedError.
Proof. exact in_document_order_refuses. Qed.

(* the generated table of Axis generator methods (read from ast.py on every run) lists exactly the eleven
   generators d_axis mirrors *)
Theorem C06_axis_table : map fst GenXEval.axis_generators =
  [ [97;110;99;101;115;116;111;114]; [97;110;99;101;115;116;111;114;95;111;114;95;115;101;108;102];
    [99;104;105;108;100]; [100;101;115;99;101;110;100;97;110;116];
    [100;101;115;99;101;110;100;97;110;116;95;111;114;95;115;101;108;102];
    [102;111;108;108;111;119;105;110;103]; [102;111;108;108;111;119;105;110;103;95;115;105;98;108;105;110;103];
    [112;97;114;101;110;116]; [112;114;101;99;101;100;105;110;103];
    [112;114;101;99;101;100;105;110;103;95;115;105;98;108;105;110;103]; [115;101;108;102] ]%N.
Proof. exact axis_generators_are_modelled. Qed.

(* ---- the hypotheses are satisfiable on a non-trivial input: three paths, stacked predicates, a numeric comparison of an
        attribute, not(@x), both extended axes *)
Example C06_example : in_subset (docnode ex_tree) ex_ns ex_expr ex_ctx = true /\
  got ex_tree ex_ns ex_expr ex_ctx = Ok [[0;0;1]; [0;2]]%nat.
Proof. vm_compute. split; reflexivity. Qed.

(* ---- regression examples: the witnesses of the classes repaired in /repo (a: 6531d56, b: 6c8d927, c: 0f8d6d4,
        d e f k: 6d4104b, g: c8b3442, h: c9f24a8, m: 2f48f15, n: 934c22d, o: 55dbc63) are inside in_subset now and the evaluator agrees with the reference *)
Definition agrees (t : itree) (m : nsmap) (e : xpath_expr) (c : nd) (r : list npath) : Prop :=
  in_subset (docnode t) m e c = true /\ got t m e c = Ok r /\ want t m e c = Some r.
Example C06_a_fixed : agrees wa_tree wa_ns wa_expr wa_ctx [[0;1]]%nat. Proof. vm_compute. repeat split. Qed.
Example C06_b_fixed : agrees wb_tree wb_ns wb_expr wb_ctx [[0;1]]%nat. Proof. vm_compute. repeat split. Qed.
Example C06_c_fixed : agrees wc_tree wc_ns wc_expr wc_ctx []. Proof. vm_compute. repeat split. Qed.
Example C06_d_fixed : agrees wd_tree wd_ns wd_expr wd_ctx []. Proof. vm_compute. repeat split. Qed.
Example C06_e_fixed : agrees we_tree we_ns we_expr we_ctx []. Proof. vm_compute. repeat split. Qed.
Example C06_f_fixed : agrees wf_tree wf_ns wf_expr wf_ctx [[0;0]]%nat. Proof. vm_compute. repeat split. Qed.
Example C06_g_fixed : agrees wg_tree wg_ns wg_expr wg_ctx [[0;0]]%nat. Proof. vm_compute. repeat split. Qed.
Example C06_k_fixed : agrees wk_tree wk_ns wk_expr wk_ctx [[0;0]]%nat. Proof. vm_compute. repeat split. Qed.
(* `..` from the root element selects the root node in XPath 1.0; the evaluator leaves it out of the result *)
Example C06_h_fixed : in_subset (docnode wh_tree) wh_ns wh_expr wh_ctx = true /\
  got wh_tree wh_ns wh_expr wh_ctx = Ok [] /\ want wh_tree wh_ns wh_expr wh_ctx = Some [[]].
Proof. vm_compute. repeat split. Qed.

(* ---- refutations: outside in_subset the full statement fails (open findings, findings.d/C06.json) *)
(* (i): text() is not an XPath 1.0 function (Ref.v: None); as a node test inside a predicate it would select nothing *)
Theorem C06_i_refuted : in_subset (docnode wi_tree) wi_ns wi_expr wi_ctx = false /\
  got wi_tree wi_ns wi_expr wi_ctx = Ok [[0;0]]%nat /\ want wi_tree wi_ns wi_expr wi_ctx = None.
Proof. vm_compute. repeat split. Qed.
Theorem C06_j_refuted : in_subset (docnode wj_tree) wj_ns wj_expr wj_ctx = false /\
  got wj_tree wj_ns wj_expr wj_ctx = Ok [[0;0]]%nat /\ want wj_tree wj_ns wj_expr wj_ctx = Some [].
Proof. vm_compute. repeat split. Qed.
(* ---- (m), (n), (o), found by this check after the comparison rules were implemented, repaired in 2f48f15, 934c22d, 55dbc63 *)
Example C06_m_fixed : agrees wm_tree wm_ns wm_expr wm_ctx []. Proof. vm_compute. repeat split. Qed.
Example C06_n_fixed : agrees wn_tree wn_ns wn_expr wn_ctx [[0;0]]%nat. Proof. vm_compute. repeat split. Qed.
Example C06_o_fixed : agrees wo_tree wo_ns wo_expr wo_ctx [[0;0]]%nat. Proof. vm_compute. repeat split. Qed.
