(* C08, insensitivity half, for the navigation-derived observers the property lists (depth, ancestors, document
   membership, location paths; plus parent and the preceding axis): their results are the same whatever default
   filters the caller has active.  Statements only; proofs are `exact` of lemmas in Conc/CNavInsens.v, Conc/CNavFacts.v.
   Subject: the model Conc/CNav.v (tied to _delb/nodes.py by the correspondence part of harness/props/c05.py under six
   ambient filters on every run), as the code stands after e33ed43, 50b8568, 7e4e5e3.  `D1`, `D2` are arbitrary ambient
   filters `default_filters[-1]`, `F` the filters passed by the caller. *)
From Coq Require Import List NArith ZArith Bool.
From Delb.Base Require Import PyStr.
From Delb.Tree Require Import ATree ITree ANav ANavFacts ANavOrderFacts.
From Delb.Conc Require Import CTree CNav CHeapFacts CWalkFacts CNavFacts CNavInsens.
Import ListNotations.

Theorem C08_nav_insensitive : forall c inh, el_ok c = true -> NoDup (cel_ids c) ->
  forall D1 D2 F n, In n (ids (abs_el inh c)) ->
    c_depth c D1 n = c_depth c D2 n
    /\ c_iterate_ancestors c D1 F n = c_iterate_ancestors c D2 F n
    /\ c_document_root c D1 n = c_document_root c D2 n
    /\ (h_is_tag (heap_top c) n = true -> c_location_path c D1 n = c_location_path c D2 n)
    /\ c_iterate_preceding c D1 F n = c_iterate_preceding c D2 F n
    /\ c_fetch_preceding c D1 F n = c_fetch_preceding c D2 F n.
Proof. exact nav_insensitive. Qed.
Print Assumptions C08_nav_insensitive.

(* what each of them is: a function of the tree alone (and of the passed filters) *)
Theorem C08_depth : forall c inh, el_ok c = true -> NoDup (cel_ids c) ->
  forall D n, In n (ids (abs_el inh c)) -> c_depth c D n = Ok (a_depth (abs_el inh c) n).
Proof. exact c_depth_abs. Qed.
Print Assumptions C08_depth.
Theorem C08_ancestors : forall c inh, el_ok c = true -> NoDup (cel_ids c) ->
  forall D F n, In n (ids (abs_el inh c)) -> c_iterate_ancestors c D F n = Ok (filter F (a_ancestors (abs_el inh c) n)).
Proof. exact c_ancestors_abs. Qed.
Print Assumptions C08_ancestors.
(* `parent` takes no filter at all *)
Theorem C08_parent : forall c inh, el_ok c = true -> NoDup (cel_ids c) ->
  forall n, In n (ids (abs_el inh c)) -> c_parent_of c n = Ok (a_parent (abs_el inh c) n).
Proof. exact c_parent_abs. Qed.
Print Assumptions C08_parent.
(* document membership: the node whose `__document__` is read is the top of the parent chain
   (a parentless comment / PI / text node has no document) *)
Theorem C08_document : forall c inh, el_ok c = true -> NoDup (cel_ids c) ->
  forall D n, In n (ids (abs_el inh c)) ->
  c_document_root c D n =
  Ok (match a_parent (abs_el inh c) n with
      | None => if h_is_tag (heap_top c) n then Some n else None
      | Some _ => Some (a_top (abs_el inh c) n)
      end).
Proof. exact c_document_root_abs. Qed.
Print Assumptions C08_document.
(* location_path replaces the ambient filter by is_tag_node: step k is 1 + the position among the tag siblings *)
Theorem C08_location_path : forall c inh, el_ok c = true -> NoDup (cel_ids c) ->
  forall D n, In n (ids (abs_el inh c)) -> h_is_tag (heap_top c) n = true ->
  c_location_path c D n =
  Ok (map (fun x => S (tag_pos (abs_el inh c) (h_is_tag (heap_top c)) x)) (path_steps (abs_el inh c) n)).
Proof. exact c_location_path_abs. Qed.
Print Assumptions C08_location_path.
Theorem C08_preceding : forall c inh, el_ok c = true -> NoDup (cel_ids c) ->
  forall D F n, In n (ids (abs_el inh c)) -> c_iterate_preceding c D F n = Ok (filter F (a_preceding (abs_el inh c) n)).
Proof. exact c_preceding_abs. Qed.
Print Assumptions C08_preceding.

(* by design these DO depend on the ambient filter: <r><a>x</a></r> (r = 0, a = 1, x = 2), no filter vs. text only *)
Example C08_len_depends : c_len refute_tree ftrue 0%N = Ok 1%nat /\ c_len refute_tree text_only 0%N = Ok 0%nat.
Proof. exact len_depends. Qed.
Example C08_index_depends :
  c_index refute_tree ftrue 1%N = Ok (Some 0%nat) /\ c_index refute_tree text_only 1%N = Crash InvalidCodePath.
Proof. exact index_depends. Qed.
Example C08_following_depends :
  c_iterate_following refute_tree ftrue ftrue 0%N = Ok [1; 2]%N /\ c_iterate_following refute_tree text_only ftrue 0%N = Ok [].
Proof. exact following_depends. Qed.
Example C08_children_depends :
  c_iterate_children refute_tree ftrue ftrue 1%N = Ok [2%N] /\ c_iterate_children refute_tree (fun _ => false) ftrue 1%N = Ok [].
Proof. exact children_depends. Qed.
(* non-vacuity of the insensitive ones on the same tree, under "text only" *)
Example C08_insensitive_example :
  c_depth refute_tree text_only 2%N = Ok 2%nat /\ c_iterate_ancestors refute_tree text_only ftrue 2%N = Ok [1; 0]%N
  /\ c_document_root refute_tree text_only 2%N = Ok (Some 0%N) /\ c_location_path refute_tree text_only 1%N = Ok [1%nat]
  /\ c_iterate_preceding refute_tree text_only ftrue 2%N = Ok [1; 0]%N.
Proof. exact insensitive_example. Qed.
