(* C03 - formatted output is whitespace-transparent for normalised documents.
   Statements only; proofs in Ws/WsVariantFacts.v, Ws/PrettyVariant.v, Ws/WrapSerFacts.v. *)
From Coq Require Import List NArith ZArith Bool.
From Delb.Base Require Import PyStr PyStrFacts.
From Delb.Tree Require Import ATree Merge.
From Delb.Ws Require Import Reduce Pretty SimplePP WsVariant WsVariantFacts PrettyVariant Wrap.
Import ListNotations.

(* (A) soundness of the legality criterion, for every serializer: reducing a legal whitespace variant
   (as a parser presents it) of a reduced tree gives the tree back *)
Theorem C03_variant_erased : forall t t', reduced t -> ws_variant t t' ->
  reduce_with reduce_text_spec false t' = t.
Proof. intros t t' _. exact (variant_erased t t'). Qed.
Print Assumptions C03_variant_erased.

(* a reduced tree is in the explicit normal form the relation is stated over *)
Theorem C03_reduced_normal_form : forall t, reduced t -> is_text t = false -> nft t.
Proof. exact reduced_nft. Qed.
Print Assumptions C03_reduced_normal_form.

(* (B) width 0: what a parser sees in the output of the indenting serializer is a legal variant ... *)
Theorem C03_pretty_is_variant : forall ind align t L, ws_indent ind = true -> nft t ->
  ws_variant t (merge_tree (seen (p_node ind align L t))).
Proof. intros ind align t L Hi. exact (pretty_is_variant ind align Hi t L). Qed.
Print Assumptions C03_pretty_is_variant.

(* ... so re-reading the output (merging adjacent character data, as a parser does) and reducing it gives the
   tree back: every indentation string, both align settings, root or sub-tree (any nesting level) *)
Theorem C03_width0 : forall t ind align, is_tag t = true -> reduced t -> ws_indent ind = true ->
  reduce_model (pretty_seen ind align t) = t.
Proof.
  intros t ind align Ht Hr Hi. unfold pretty_seen, pretty_chunk.
  apply (pretty_transparent ind align Hi t 0 Hr). destruct t; try discriminate; reflexivity.
Qed.
Print Assumptions C03_width0.

Example C03_width0_example :
  let t := Tag [] [114%N] [] [Text [97; 32]%N; Tag [] [98%N] [] [Text [120%N]]; Text [32; 99]%N; Comment [99%N]] in
  reduce_model t = t /\ pretty [SP; SP] false t <> render (plain t) /\ reduce_model (pretty_seen [SP; SP] false t) = t.
Proof. vm_compute. repeat split. discriminate. Qed.
