(* C03 - formatted output is whitespace-transparent for normalised documents.
   Statements only; proofs in Ws/WsVariantFacts.v, Ws/PrettyVariant.v, Ws/WrapSerFacts.v.

   Domain of the indentation: the statements quantify over `ws_indent ind` (SimplePP.v): strings of space, tab and
   newline.  The code accepts exactly XML's white space since 9955ff3 - space, tab, carriage return, newline
   (_get_serializer raises ValueError otherwise; before, str.isspace() let U+00A0, U+2003, VT, FF ... through, which made
   the output with aligned attributes ill-formed: finding C03-indentation-not-xml-whitespace, fixed).  `ws_indent` is a
   sub-domain of that, so the theorems apply as they stand; carriage returns in the indentation (which a parser reads
   as newlines) and the refusal of everything else at every entry point are covered by ./check C03 only. *)
From Coq Require Import List NArith ZArith Bool.
From Delb.Base Require Import PyStr PyStrFacts.
From Delb.Gen Require Import GenNames GenWrap.
From Delb.Tree Require Import ATree Merge.
From Delb.Ws Require Import Reduce Pretty SimplePP WsVariant WsVariantFacts PrettyVariant Wrap WrapSerFacts WrapTextOnly WrapVariant WrapTextStep WrapFull Qualified QualifiedFacts QualifiedSer.
Import ListNotations.

(* (A) soundness of the legality criterion, for every serializer: reducing a legal whitespace variant
   (as a parser presents it) of a reduced tree gives the tree back *)
Theorem C03_variant_erased : forall t t', reduced t -> ws_variant t t' ->
  reduce_with reduce_text_spec false t' = t.
Proof. intros t t' _. exact (variant_erased t t'). Qed.
Print Assumptions C03_variant_erased.

(* a reduced tree is in the explicit normal form the relation is stated over *)
Theorem C03_reduced_normal_form : forall t, reduced t -> is_text t = false -> nft t.
Proof. exact reduced_nft. Qed.
Print Assumptions C03_reduced_normal_form.

(* (B) width 0: what a parser sees in the output of the indenting serializer is a legal variant ... *)
Theorem C03_pretty_is_variant : forall ind align t L, ws_indent ind = true -> nft t ->
  ws_variant t (merge_tree (seen (p_node ind align L t))).
Proof. intros ind align t L Hi. exact (pretty_is_variant ind align Hi t L). Qed.
Print Assumptions C03_pretty_is_variant.

(* ... so re-reading the output (merging adjacent character data, as a parser does) and reducing it gives the
   tree back: every indentation string, both align settings, root or sub-tree (any nesting level) *)
Theorem C03_width0 : forall t ind align, is_tag t = true -> reduced t -> ws_indent ind = true ->
  reduce_model (pretty_seen ind align t) = t.
Proof.
  intros t ind align Ht Hr Hi. unfold pretty_seen, pretty_chunk.
  apply (pretty_transparent ind align Hi t 0 Hr). destruct t; try discriminate; reflexivity.
Qed.
Print Assumptions C03_width0.

Example C03_width0_example :
  let t := Tag [] [114%N] [] [Text [97; 32]%N; Tag [] [98%N] [] [Text [120%N]]; Text [32; 99]%N; Comment [99%N]] in
  reduce_model t = t /\ pretty [SP; SP] false t <> render (plain t) /\ reduce_model (pretty_seen [SP; SP] false t) = t.
Proof. vm_compute. repeat split. discriminate. Qed.

(* ---- width > 0 (TextWrappingSerializer, Ws/Wrap.v) ----------------------------------------------------------

   C03_wrapped (below) is the full statement: for EVERY tree, mixed content included, every width >= 1, EVERY
   indentation string FormatOptions accepts (spaces, tabs, newlines), both align settings, serialization from the
   root or from any sub-tree of any
   document T (the output of a sub-tree serialization with a line width depends on what follows the sub-tree in
   T - `fetch_following` leaves the sub-tree - and the theorem holds for every T; the precondition is that the
   serialized sub-tree on its own is reduced), and for every fitting oracle `req` in place of _required_space that
   lets nothing but a text fit into no space.  C03_wrapped_real is the instance for the real _required_space
   (`real_req`, which has that property: real_req_nofit0).
   The hypothesis on the oracle is necessary (C03_wrapped_oracle_hypothesis_needed): when a line break consumes
   the trailing space of a text the line is full, and an oracle that lets the next element fit into no space glues
   it to the text.
   Indentation strings that contain newlines: the writer drops the leading newlines of what it writes at offset 0
   and counts its offset from the last newline written, so the lines come out with the indentation minus its
   leading newlines, and _line_offset subtracts the part of level * indentation behind its last newline (Wrap.ilen /
   tail_line, as of e1f59b7).  Before e1f59b7 it subtracted all of it and the property was false (finding
   C03-newline-in-indentation, fixed; regression Example C03_wrapped_lf_regression); the proof handles the dropped
   newlines at the level of what `collapse` can see (Ws/WrapTextStep.v: WR1, lstrip_lf_collapse, emit_off_line).
   It was false of the code before b3af6c0 (finding C03-preserved-newline-offset, fixed); the former witnesses are
   the regression Example below.
   Proof (Ws/WrapVariant.v, Ws/WrapTextStep.v, Ws/WrapFull.v): the writer invariant `winv` (offset 0 only after a
   newline the serializer wrote itself, whitespace written only where legal); one lemma per emission pattern of
   serialize_node (w_node_spec_ow: fits / re-entry after a newline / does not fit, _serialize_appendable_node,
   the verbatim serializers without stripping); the text step `tstep_post` for _serialize_text in all branches
   (fits the line exactly / fits / _serialize_text_over_lines from the start of a line and from a partly filled
   line incl. the given-up filling, _consolidate_text_lines, the oracle-dependent extra empty line), stated at the
   level of `collapse` via a calculus for collapse over concatenations and the lines of the generated _wrap_text
   as segments of the unescaped text (relation `wl`); then the mutual induction over the normal form
   (wrap_full_mut) and part (A). *)

Example C03_wrapped_regression :
  reduce_model (wrap_seen [SP; SP] false 5%Z c03_witness []) = c03_witness /\
  reduce_model (wrap_seen [SP; SP] false 5%Z c03_witness_comment []) = c03_witness_comment.
Proof. split; [exact (proj1 (proj2 (proj2 c03_witness_regression)))|exact (proj2 (proj2 (proj2 (proj2 (proj2 c03_witness_regression)))))]. Qed.

(* false of the code before e1f59b7: <r>a b <i/></r>, indentation "\n", width 1 was written as <r>(LF)a(LF)b<i/>(LF)</r> and
   re-read as <r>a b<i/></r>; now <r>(LF)a(LF)b(LF)<i/>(LF)</r> *)
Example C03_wrapped_lf_regression :
  reduced c03_lf_witness /\ ws_indent [LF] = true /\ no_lf [LF] = false /\
  reduce_model (wrap_seen [LF] false 1%Z c03_lf_witness []) = c03_lf_witness /\
  reduce_model (wrap_seen [SP; LF] false 1%Z c03_lf_witness []) = c03_lf_witness /\
  reduce_model (wrap_seen [LF; SP] false 1%Z c03_lf_witness []) = c03_lf_witness.
Proof.
  exact (conj (proj1 c03_lf_indentation_regression) (conj (proj1 (proj2 (proj2 c03_lf_indentation_regression)))
        (conj (proj1 (proj2 (proj2 (proj2 c03_lf_indentation_regression)))) (proj2 (proj2 (proj2 (proj2 (proj2 c03_lf_indentation_regression)))))))).
Qed.

(* THE STATEMENT: all trees, every indentation string, every admissible oracle, root or sub-tree *)
Theorem C03_wrapped : forall ind align width req T, ws_indent ind = true -> (1 <= width)%Z ->
  (forall rp u x, get T rp = Some x -> is_text x = false -> (u <= 0)%Z -> req rp u = None) ->
  forall t sr, get T sr = Some t -> reduced t -> is_text t = false ->
  reduce_model (seen (wrap_chunk ind align width req sr (after_path T sr) t)) = t.
Proof. exact wrap_all_transparent. Qed.
Print Assumptions C03_wrapped.

(* with the real heuristics: NodeBase.serialize(format_options=FormatOptions(align, ind, width)) of the element at sr of T,
   re-read (merging adjacent character data) and reduced, is the element *)
Theorem C03_wrapped_real : forall ind align width T sr t, ws_indent ind = true -> (1 <= width)%Z ->
  get T sr = Some t -> reduced t -> is_text t = false ->
  reduce_model (wrap_seen ind align width T sr) = t.
Proof. exact wrap_real_transparent. Qed.
Print Assumptions C03_wrapped_real.

(* the hypothesis on the oracle cannot be dropped: with an oracle that lets everything fit, <r>aa bbb <i/>c</r> at width 3
   loses the space before <i/> (the real heuristics put a newline there) *)
Example C03_wrapped_oracle_hypothesis_needed :
  let t := Tag [] [114%N] [] [Text [97; 97; 32; 98; 98; 98; 32]%N; Tag [] [105%N] [] []; Text [99%N]] in
  reduce_model t = t /\
  reduce_model (seen (wrap_chunk [] false 3%Z (fun _ _ => Some 0%Z) [] None t)) <> t /\
  reduce_model (seen (wrap_chunk [] false 3%Z (real_req t []) [] None t)) = t.
Proof. vm_compute. repeat split. discriminate. Qed.

Example C03_wrapped_mixed_example :
  let t := Tag [] [112%N] [] [Text [97; 97; 32; 98; 98; 32]%N; Tag [] [105%N] [] [Text [99; 99]%N]; Text [32; 100; 100; 32; 101; 101; 101; 32; 102]%N;
                              Comment [99%N]; Text [103; 103]%N] in
  reduce_model t = t /\ first_text t = false /\ wrap_str [SP; SP] false 6%Z t [] <> render (plain t) /\
  reduce_model (wrap_seen [SP; SP] false 6%Z t []) = t.
Proof. vm_compute. repeat split. discriminate. Qed.

(* intermediate results, kept (C03_wrapped_no_mixed / C03_wrapped_text_only further below still carry the guard `no_lf ind`
   of their first proofs; C03_wrapped subsumes them without it): trees in which a text with content only stands first among its siblings ... *)
Theorem C03_wrapped_first_text : forall ind align width req T, ws_indent ind = true -> (1 <= width)%Z ->
  (forall rp u x, get T rp = Some x -> is_text x = false -> (u <= 0)%Z -> req rp u = None) ->
  forall t sr, get T sr = Some t -> reduced t -> is_text t = false -> first_text t = true ->
  reduce_model (seen (wrap_chunk ind align width req sr (after_path T sr) t)) = t.
Proof. exact wrap_first_text_transparent. Qed.
Print Assumptions C03_wrapped_first_text.

(* ... and the real one: NodeBase.serialize(format_options=FormatOptions(align, ind, width)) of the element at sr of T *)
Theorem C03_wrapped_real_first_text : forall ind align width T sr t, ws_indent ind = true -> (1 <= width)%Z ->
  get T sr = Some t -> reduced t -> is_text t = false -> first_text t = true ->
  reduce_model (wrap_seen ind align width T sr) = t.
Proof. exact wrap_real_first_text_transparent. Qed.
Print Assumptions C03_wrapped_real_first_text.

(* all trees, given the partial-line branch of _serialize_text_over_lines (now proved: over_spec_holds) *)
Theorem C03_wrapped_if_partial_line : forall ind align width req T, ws_indent ind = true -> (1 <= width)%Z ->
  (forall rp u x, get T rp = Some x -> is_text x = false -> (u <= 0)%Z -> req rp u = None) ->
  over_spec ind width req ->
  forall t sr, get T sr = Some t -> reduced t -> is_text t = false ->
  reduce_model (seen (wrap_chunk ind align width req sr (after_path T sr) t)) = t.
Proof. exact wrap_all_transparent_if_over. Qed.
Print Assumptions C03_wrapped_if_partial_line.

Example C03_first_text_example :
  let t := Tag [] [112%N] [] [Text [97; 97; 32; 98; 98; 32; 99; 99; 32]%N; Tag [] [105%N] [] [Text [100; 100]%N]; Text [SP];
                              Comment [99%N]] in
  reduce_model t = t /\ first_text t = true /\ no_mixed t = false /\ wrap_str [SP; SP] false 6%Z t [] <> render (plain t).
Proof. vm_compute. repeat split. discriminate. Qed.

(* all trees without mixed content, every oracle, root or sub-tree *)
Theorem C03_wrapped_no_mixed : forall ind align width req, ws_indent ind = true -> no_lf ind = true -> (1 <= width)%Z ->
  forall t sr aft, reduced t -> is_text t = false -> no_mixed t = true ->
  reduce_model (seen (wrap_chunk ind align width req sr aft t)) = t.
Proof. exact wrap_root_transparent_no_mixed. Qed.
Print Assumptions C03_wrapped_no_mixed.

(* the instance for the real heuristics: NodeBase.serialize(format_options=...) of the element at sr of document T *)
Theorem C03_wrapped_real_no_mixed : forall ind align width T sr t, ws_indent ind = true -> no_lf ind = true -> (1 <= width)%Z ->
  get T sr = Some t -> reduced t -> is_text t = false -> no_mixed t = true ->
  reduce_model (wrap_seen ind align width T sr) = t.
Proof.
  intros ind align width T sr t Hi Hn Hw Hg Hr Ht Hm. unfold wrap_seen, wrap_real. rewrite Hg.
  apply wrap_root_transparent_no_mixed; assumption.
Qed.
Print Assumptions C03_wrapped_real_no_mixed.

Example C03_no_mixed_example :
  let t := Tag [] [114%N] [] [Tag [] [97%N] [] [Text [120; 120; 32; 121; 121; 32; 122; 122]%N]; Text [SP]; Comment [99%N];
                              Text [SP]; Tag [] [98%N] [(xml_ns, s_space, s_preserve)] [Text [32; 113; 10]%N; Tag [] [105%N] [] []]] in
  reduce_model t = t /\ no_mixed t = true /\ wrap_str [SP; SP] false 6%Z t [] <> render (plain t).
Proof. vm_compute. repeat split. discriminate. Qed.

(* elements that contain only text: re-reading and reducing the wrapped output gives the element back *)
Theorem C03_wrapped_text_only : forall ind align width req, ws_indent ind = true -> no_lf ind = true -> (1 <= width)%Z ->
  forall L st rp aft ns name attrs k, core k -> directive attrs false = false ->
  reduce_model (seen (fst (w_tag ind align width req L st rp aft (Tag ns name attrs [Text k]))))
  = Tag ns name attrs [Text k].
Proof. exact text_only_transparent. Qed.
Print Assumptions C03_wrapped_text_only.

(* text run: normalised text k written over lines separated by any non-empty whitespace run (newline plus the
   indentation of the depth), with whitespace w1 before and w2 after it, reduces to k with exactly the spaces the
   positions allow - i.e. the line breaks vanish and no character of k is altered *)
Theorem C03_wrapped_text_run_partial : forall k sep ls w1 w2 first last,
  core k -> py_join [SP] ls = k -> Forall edge_clean ls -> ls <> [] ->
  all_ws sep -> sep <> [] -> all_ws w1 -> all_ws w2 ->
  reduce_text_spec (w1 ++ py_join sep ls ++ w2) first last
  = (if first then [] else optsp (negb (null w1))) ++ k ++ (if last then [] else optsp (negb (null w2))).
Proof. exact wrapped_text_run_erased. Qed.
Print Assumptions C03_wrapped_text_run_partial.

(* the lines the generated _wrap_text yields for a normalised text (any width >= 1), written with any non-empty
   whitespace run between them, are an inner variant of the text: line breaks are only placed at single spaces,
   words are neither split nor joined, and clause (iii) of ws_variant admits the result *)
Theorem C03_wrapped_lines_variant : forall k (w : nat) sep, (0 < w)%nat -> core k -> all_ws sep -> sep <> [] ->
  exists ls, wrap_text k (Z.of_nat w) = Some ls /\ inner_variant k (py_join sep ls).
Proof. exact wrapped_lines_variant. Qed.
Print Assumptions C03_wrapped_lines_variant.

(* character data written through the generated entity table is read back unchanged ("no non-whitespace character
   is altered" at the level of the escaping the serializers apply) *)
Theorem C03_text_escape_roundtrip : forall s, unesc (esc_text s) = s.
Proof. exact unesc_esc_text. Qed.
Print Assumptions C03_text_escape_roundtrip.

Example C03_wrapped_example :
  let t := Tag [] [114%N] [] [Text [97; 97; 32; 98; 98; 32]%N; Tag [] [105%N] [] [Text [99; 99]%N]; Text [32; 100; 100; 32; 101; 101]%N] in
  reduce_model t = t /\
  wrap_str [SP; SP] false 5%Z t [] <> render (plain t) /\
  reduce_model (wrap_seen [SP; SP] false 5%Z t []) = t.
Proof. exact wrapped_ok_example. Qed.

(* ---- namespaced trees -----------------------------------------------------------------------------------------
   The serializer models have no namespace machinery: a namespaced tree is serialized as its qualified view
   (Ws/Qualified.v: names prefix ++ local name without a namespace, the declarations as attributes of the
   serialization root), for the prefix table pf and the declarations decl that Serializer._collect_prefixes
   computes - the theorems hold for every pf and decl.  ./check C03 compares the model on the qualified view (pf,
   decl read off the real plain serialization) byte for byte with the real formatted output of namespaced
   documents, and re-reads the real output with the real, namespace-aware parser.  Whitespace reduction commutes
   with the view (C03_qualified_view_commutes); that the prefixed names with these declarations are read back as
   the namespaced names is C13's statement. *)
Theorem C03_qualified_view_commutes : forall pf decl t, plain_decl decl = true ->
  reduce_model (qual_root pf decl t) = qual_root pf decl (reduce_model t).
Proof. exact reduce_model_qual_root. Qed.
Print Assumptions C03_qualified_view_commutes.

Theorem C03_width0_namespaced : forall pf decl t ind align, is_tag t = true -> reduced t -> plain_decl decl = true ->
  ws_indent ind = true ->
  reduce_model (pretty_seen ind align (qual_root pf decl t)) = qual_root pf decl t.
Proof. exact width0_transparent_ns. Qed.
Print Assumptions C03_width0_namespaced.

(* T' : the document as the serializer of the sub-tree at sr names it *)
Theorem C03_wrapped_namespaced : forall pf decl ind align width T' sr t, ws_indent ind = true ->
  (1 <= width)%Z -> plain_decl decl = true ->
  get T' sr = Some (qual_root pf decl t) -> reduced t -> is_text t = false ->
  reduce_model (wrap_seen ind align width T' sr) = qual_root pf decl t.
Proof. exact wrap_real_transparent_ns. Qed.
Print Assumptions C03_wrapped_namespaced.

Example C03_namespaced_example :
  reduce_model ns_example = ns_example /\ plain_decl ns_example_decl = true /\
  qual_root ns_example_pf ns_example_decl ns_example <> ns_example /\
  reduce_model (pretty_seen [SP; SP] false (qual_root ns_example_pf ns_example_decl ns_example))
    = qual_root ns_example_pf ns_example_decl ns_example /\
  reduce_model (wrap_seen [SP; SP] false 6%Z (qual_root ns_example_pf ns_example_decl ns_example) [])
    = qual_root ns_example_pf ns_example_decl ns_example /\
  wrap_str [SP; SP] false 6%Z (qual_root ns_example_pf ns_example_decl ns_example) []
    <> render (plain (qual_root ns_example_pf ns_example_decl ns_example)).
Proof. exact ns_example_ok. Qed.
