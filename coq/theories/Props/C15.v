From Delb.Base Require Import PyStr.
From Delb.XPath Require Import Ast Nav Eval FetchCreate Run.
