(* C15 - fetch_or_create_by_xpath finds or adds, and nothing else.   Statements only.

   foc        XPath/FetchCreate.v   model of fetch_or_create_by_xpath / _create_by_xpath / _is_unambiguously_locatable /
                                    _derived_attributes (tied on every run by harness/props/c15.py: outcome and the complete
                                    tree afterwards on trees x paths x namespaces)
   eval       XPath/Eval.v          the evaluator mirror of C06
   vis        the caller's ambient default filter (append_children adds after the last visible child)

   PROVED for all inputs: the refusals (C15_reject_*: the documented exception, tree unchanged), the fetch branch of
   C15_finds / C15_idem (an expression that selects exactly one node returns it, tree unchanged -- which is also the
   second call after any successful first one, given C15_finds), no InvalidCodePath on accepted expressions.
   PARTIAL (kept as full statements below, closed only on examples by vm_compute and searched on the implementation by
   the check): the creation branch of C15_finds and C15_minimal.

   Full statements (DESIGN.md 4/C15), with `accepted e := locatable e = true`, `m` a mapping with default_free m = true
   and every prefix of e declared, root_matches := an absolute e's first step matches the root:

     C15_finds   : accepted e -> foc vis t m m e ctx = FocOk t' p ->
                   exists n, eval (docnode t') m e (ctx, ..) = Ok [n] /\ fst n = p
     C15_idem    : ... -> foc vis t' m m e ctx = FocOk t' p
     C15_minimal : ... -> t' = t, or t' is t with ONE chain of new childless-ended elements inserted (after the last
                   visible child) below the deepest node the prefixes of e select, named and attributed as the steps say;
                   content t' with that chain removed = content t
     C15_reject  : ~ accepted e -> FocFault t ValueError;  several matches -> FocFault t AmbiguousTreeError *)
From Delb.Base Require Import PyStr.
From Delb.Tree Require Import ATree ITree.
From Delb.XPath Require Import Ast Nav Eval FetchCreate FetchCreateFacts C15Witness.

Definition ctx_of (root : itree) (ctx : npath) : nd := (ctx, opt_default (docnode root) (subtree (docnode root) ctx)).

Theorem C15_reject_not_accepted : forall vis root me mc e ctx,
  locatable e = false -> foc vis root me mc e ctx = FocFault root (FRejected ValueError).
Proof. exact foc_not_accepted. Qed.
Print Assumptions C15_reject_not_accepted.

Theorem C15_reject_ambiguous : forall vis root me mc e ctx x y l,
  locatable e = true -> eval (docnode root) me e (ctx_of root ctx) = Ok (x :: y :: l) ->
  foc vis root me mc e ctx = FocFault root (FRejected AmbiguousTreeError).
Proof. exact foc_ambiguous. Qed.
Print Assumptions C15_reject_ambiguous.

(* the fetch branch: finds and changes nothing *)
Theorem C15_finds_partial : forall vis root me mc e ctx x,
  locatable e = true -> eval (docnode root) me e (ctx_of root ctx) = Ok [x] ->
  foc vis root me mc e ctx = FocOk root (fst x).
Proof. exact foc_fetches. Qed.
Print Assumptions C15_finds_partial.

(* idempotence, given what C15_finds states about the first call's result (t', p) *)
Theorem C15_idem_partial : forall vis t' m e ctx n,
  locatable e = true -> eval (docnode t') m e (ctx_of t' ctx) = Ok [n] ->
  foc vis t' m m e ctx = FocOk t' (fst n).
Proof. intros. apply foc_fetches; assumption. Qed.
Print Assumptions C15_idem_partial.

(* a fault of the first query is passed on, tree unchanged *)
Theorem C15_query_fault : forall vis root me mc e ctx f,
  locatable e = true -> eval (docnode root) me e (ctx_of root ctx) = Fault f ->
  foc vis root me mc e ctx = FocFault root f.
Proof. exact foc_eval_fault. Qed.

(* accepted = the documented shape *)
Theorem C15_accepted_shape : forall e, locatable e = true ->
  exists ab ss, e = [LocationPath ab ss] /\
    Forall (fun s => exists p l ps, s = LocationStep AxChild (NameMatchTest p l) ps /\ forallb loc_expr ps = true) ss.
Proof. exact locatable_shape. Qed.
Theorem C15_no_invalid_code_path : forall ps, forallb loc_expr ps = true -> exists ds, derived_preds ps = Some ds.
Proof. exact loc_preds_derived. Qed.
Print Assumptions C15_no_invalid_code_path.

(* ---- the creation branch on a non-trivial input: a[@k='1']/c[@j='x' and @k='y']/d on
        <r><a k="1"><b/></a><a k="2"/><!--c--></r>: the first step exists (once among two `a`), c and d are added below it;
        the result is the tree the implementation produces, the expression then selects exactly the new d, and a second
        call returns it without changing anything *)
Example C15_example :
  locatable f_ex_expr = true /\ default_free f_ex_me = true /\
  exists t', foc default_vis f_ex_tree f_ex_me f_ex_mc f_ex_expr [0%nat] = FocOk t' f_ex_pos /\
             content t' = content f_ex_after /\
             (exists n, eval (docnode t') f_ex_me f_ex_expr (ctx_of t' [0%nat]) = Ok [n] /\ fst n = f_ex_pos) /\
             foc default_vis t' f_ex_me f_ex_mc f_ex_expr [0%nat] = FocOk t' f_ex_pos.
Proof. split; [reflexivity|]. split; [reflexivity|]. eexists. split; [vm_compute; reflexivity|].
  split; [vm_compute; reflexivity|]. split; [eexists; split; vm_compute; reflexivity|vm_compute; reflexivity]. Qed.

(* ---- refutations (findings.d/C15.json) *)
(* default namespace in effect: `a` on <r xmlns="d"/> is created without namespace; the expression then selects nothing
   and a second call adds a second element *)
Theorem C15_finds_refuted : locatable f_dns_expr = true /\ default_free f_dns_me = false /\
  exists t' p, foc default_vis f_dns_tree f_dns_me f_dns_mc f_dns_expr [0%nat] = FocOk t' p /\
               content t' = content f_dns_after /\
               eval (docnode t') f_dns_me f_dns_expr (ctx_of t' [0%nat]) = Ok [] /\
               exists t'' p', foc default_vis t' f_dns_me f_dns_mc f_dns_expr [0%nat] = FocOk t'' p' /\ p' <> p.
Proof. split; [reflexivity|]. split; [reflexivity|]. eexists _, _. split; [vm_compute; reflexivity|].
  split; [vm_compute; reflexivity|]. split; [vm_compute; reflexivity|]. eexists _, _. split; [vm_compute; reflexivity|discriminate]. Qed.
(* an absolute path whose first step does not match the root: AssertionError (tree unchanged) instead of a refusal *)
Theorem C15_reject_refuted : locatable f_abs_expr = true /\
  foc default_vis f_abs_tree f_abs_me f_abs_mc f_abs_expr [0%nat] = FocFault f_abs_tree (FCrash AssertionError).
Proof. split; vm_compute; reflexivity. Qed.
(* an undeclared prefix on a childless node: the element is created (without namespace); afterwards the expression raises *)
Theorem C15_undeclared_prefix_refuted : locatable f_pfx_expr = true /\
  exists t' p, foc default_vis f_pfx_tree f_pfx_me f_pfx_mc f_pfx_expr [0%nat] = FocOk t' p /\
               eval (docnode t') f_pfx_me f_pfx_expr (ctx_of t' [0%nat]) = Rejected XPathEvaluationError.
Proof. split; [reflexivity|]. eexists _, _. split; vm_compute; reflexivity. Qed.
(* the two refusals on concrete inputs *)
Example C15_ambiguous_example :
  foc default_vis f_amb_tree f_amb_me f_amb_mc f_amb_expr [0%nat] = FocFault f_amb_tree (FRejected AmbiguousTreeError).
Proof. vm_compute. reflexivity. Qed.
Example C15_not_accepted_example :
  foc default_vis f_bad_tree f_bad_me f_bad_mc f_bad_expr [0%nat] = FocFault f_bad_tree (FRejected ValueError).
Proof. vm_compute. reflexivity. Qed.
