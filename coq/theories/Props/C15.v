(* C15 - fetch_or_create_by_xpath finds or adds, and nothing else.   Statements only.

   foc        XPath/FetchCreate.v   model of fetch_or_create_by_xpath / _create_by_xpath / _is_unambiguously_locatable /
                                    _derived_attributes as they are at /repo HEAD (after the fix commits 0ffad18, b721705,
                                    f228380, 8d47eb7, 5732bc1); tied on every run by harness/props/c15.py: outcome and the complete tree
                                    afterwards on trees x paths x namespaces
   eval       XPath/Eval.v          the evaluator mirror of C06
   vis        the caller's ambient default filter: since fix 29367a2 (_create_by_xpath is decorated with
              @altered_default_filters(), as xpath() always was) nothing depends on it; every theorem is stated for
              every vis
   m          ONE mapping for query and creation: `namespaces` is None or a non-empty mapping (since fix 5732bc1 the code builds the same mapping for both;
              C15_fault_unchanged and the refusals are stated for two arbitrary mappings)

   The domain (decidable, FetchCreateFacts.step_good): every step is child::name-test with attribute = 'literal'
   predicates joined by `and` / stacked, every prefix declared and not empty, the required attribute values
   non-contradictory (each is still there after all have been set).  The context node is a tag node of the tree
   (position 0 :: q).  No default-namespace guard, no matching-root guard, no guard on the tree. *)
From Delb.Base Require Import PyStr.
From Delb.Tree Require Import ATree ITree.
From Delb.XPath Require Import Ast Nav Eval LocPath FetchCreate FetchCreateFacts Run C15Witness.

(* after a successful call the same expression selects exactly the returned node *)
Theorem C15_finds : forall vis root m ab ss q t0 t' p,
  forallb (step_good m) ss = true -> ss <> [] -> subtree root q = Some t0 -> is_tag_t t0 = true ->
  foc vis root m m [LocationPath ab ss] (0 :: q) = FocOk t' p ->
  exists n, eval (docnode t') m [LocationPath ab ss] (ctx_nd t' (0 :: q)) = Ok [n] /\ fst n = p.
Proof.
  intros vis root m ab ss q t0 t' p G Hne Hs Ht H. destruct ab.
  - destruct ss as [|s r]; [congruence|]. eapply foc_finds_absolute; eauto.
  - eapply foc_finds_relative; eauto.
Qed.
Print Assumptions C15_finds.

(* calling it again returns the same node and changes nothing *)
Theorem C15_idem : forall vis root m ab ss q t0 t' p,
  forallb (step_good m) ss = true -> ss <> [] -> subtree root q = Some t0 -> is_tag_t t0 = true ->
  foc vis root m m [LocationPath ab ss] (0 :: q) = FocOk t' p ->
  foc vis t' m m [LocationPath ab ss] (0 :: q) = FocOk t' p.
Proof.
  intros vis root m ab ss q t0 t' p G Hne Hs Ht H.
  destruct (C15_finds vis root m ab ss q t0 t' p G Hne Hs Ht H) as (n & He & <-).
  apply foc_idem; [|exact He].
  destruct (locatable [LocationPath ab ss]) eqn:L; [reflexivity|].
  rewrite (foc_not_accepted vis root m m _ (0 :: q) L) in H. discriminate H.
Qed.
Print Assumptions C15_idem.

(* what is added is one chain of new elements, inserted as a child (after the last visible one) somewhere below the
   start node; everything that existed keeps its place, content and attributes (`grown`, FetchCreateFacts.v).  That
   the chain hangs below the deepest existing match and is named and attributed as the steps say is C15_finds: the
   expression selects its last element through it. *)
Theorem C15_minimal : forall vis root m ab ss q t0 t' p,
  forallb (step_good m) ss = true -> subtree root q = Some t0 -> is_tag_t t0 = true ->
  foc vis root m m [LocationPath ab ss] (0 :: q) = FocOk t' p ->
  t' = root \/ (ab = false /\ exists t0', grown t0 t0' /\ t' = replace_at root q t0') \/ (ab = true /\ grown root t').
Proof. exact foc_minimal. Qed.
Print Assumptions C15_minimal.

(* every exception leaves the tree unchanged: for EVERY expression (accepted or not), both mappings, every filter;
   the context node is a node of the tree *)
Theorem C15_fault_unchanged : forall vis root me mc e q t0 t' f,
  subtree root q = Some t0 -> foc vis root me mc e (0 :: q) = FocFault t' f -> t' = root.
Proof. exact foc_fault_unchanged. Qed.
Print Assumptions C15_fault_unchanged.

(* the refusals *)
Theorem C15_reject_not_accepted : forall vis root me mc e ctx,
  locatable e = false -> foc vis root me mc e ctx = FocFault root (FRejected ValueError).
Proof. exact foc_not_accepted. Qed.
Print Assumptions C15_reject_not_accepted.
Theorem C15_reject_ambiguous : forall vis root me mc e ctx x y l,
  locatable e = true -> eval (docnode root) me e (ctx_nd root ctx) = Ok (x :: y :: l) ->
  foc vis root me mc e ctx = FocFault root (FRejected AmbiguousTreeError).
Proof. exact foc_ambiguous. Qed.
Print Assumptions C15_reject_ambiguous.
Theorem C15_accepted_shape : forall e, locatable e = true ->
  exists ab ss, e = [LocationPath ab ss] /\
    Forall (fun s => exists p l ps, s = LocationStep AxChild (NameMatchTest p l) ps /\ forallb loc_expr ps = true) ss.
Proof. exact locatable_shape. Qed.
(* after a creation no exception is possible any more (every later step creates) *)
Theorem C15_no_fault_after_creation : forall vis m r pos n,
  forallb loc_step r = true -> forallb (unreserved m) r = true -> tkids n = [] -> pos <> [] ->
  exists n' p, create_in vis m r pos n = COk n' p.
Proof. exact chain_no_fault_loc. Qed.
Print Assumptions C15_no_fault_after_creation.

(* ---- the hypotheses are satisfiable; the model's result is the tree the implementation leaves behind *)
Example C15_example :
  forallb (step_good f_ex_me) (path_steps (hd (LocationPath false []) f_ex_expr)) = true /\
  exists t', foc default_vis f_ex_tree f_ex_me f_ex_mc f_ex_expr [0%nat] = FocOk t' f_ex_pos /\
             content t' = content f_ex_after.
Proof. split; [vm_compute; reflexivity|]. eexists. split; vm_compute; reflexivity. Qed.

(* ---- regression examples for the findings repaired in /repo (0ffad18, b721705, f228380) *)
(* default namespace in effect: a[@k='1']/b on <r xmlns="d"/> is created IN the default namespace, with a plain k *)
Example C15_default_namespace_fixed :
  forallb (step_good f_dns_me) (path_steps (hd (LocationPath false []) f_dns_expr)) = true /\
  exists t', foc default_vis f_dns_tree f_dns_me f_dns_mc f_dns_expr [0%nat] = FocOk t' f_dns_pos /\
             content t' = content f_dns_after /\
             foc default_vis t' f_dns_me f_dns_mc f_dns_expr [0%nat] = FocOk t' f_dns_pos.
Proof. split; [vm_compute; reflexivity|]. eexists. split; [vm_compute; reflexivity|]. split; vm_compute; reflexivity. Qed.
Example C15_absolute_mismatch_fixed :
  foc default_vis f_abs_tree f_abs_me f_abs_mc f_abs_expr [0%nat] = FocFault f_abs_tree (FRejected InvalidOperation).
Proof. vm_compute. reflexivity. Qed.
Example C15_undeclared_prefix_fixed :
  foc default_vis f_pfx_tree f_pfx_me f_pfx_mc f_pfx_expr [0%nat] = FocFault f_pfx_tree (FRejected XPathEvaluationError).
Proof. vm_compute. reflexivity. Qed.
Example C15_ambiguous_example :
  foc default_vis f_amb_tree f_amb_me f_amb_mc f_amb_expr [0%nat] = FocFault f_amb_tree (FRejected AmbiguousTreeError).
Proof. vm_compute. reflexivity. Qed.
Example C15_not_accepted_example :
  foc default_vis f_bad_tree f_bad_me f_bad_mc f_bad_expr [0%nat] = FocFault f_bad_tree (FRejected ValueError).
Proof. vm_compute. reflexivity. Qed.

(* ---- regression examples for the two findings repaired last (8d47eb7, 5732bc1) *)
(* an undeclared prefix in a LATER step is noticed before anything is created *)
Example C15_late_prefix_fixed :
  foc default_vis f_late_tree f_late_me f_late_mc f_late_expr [0%nat] = FocFault f_late_tree (FRejected XPathEvaluationError).
Proof. vm_compute. reflexivity. Qed.
(* namespaces = {}: one mapping for query and creation; `a` (no namespace) does not exist under <r xmlns="d"><a/></r>,
   is created without namespace, and is what the expression selects afterwards *)
Example C15_empty_mapping_fixed : f_empty_me = f_empty_mc /\
  exists t', foc default_vis f_empty_tree f_empty_me f_empty_mc f_empty_expr [0%nat] = FocOk t' f_empty_pos /\
             content t' = content f_empty_after /\
             foc default_vis t' f_empty_me f_empty_mc f_empty_expr [0%nat] = FocOk t' f_empty_pos.
Proof. split; [reflexivity|]. eexists. split; [vm_compute; reflexivity|]. split; vm_compute; reflexivity. Qed.

(* ---- regression example for C15-ambient-filter (29367a2): under `with altered_default_filters(is_comment_node):` the
   creation walk used to see no tag node; now `a/b` on <r><a/></r> finds the existing a and adds b below it *)
Example C15_ambient_filter_fixed :
  exists t', foc (vis_of 3) f_vis_tree f_vis_me f_vis_mc f_vis_expr [0%nat] = FocOk t' [0; 0; 0]%nat /\
             content t' = content f_vis_after.
Proof. eexists. split; vm_compute; reflexivity. Qed.

(* ---- regression example for C15-reserved-attribute-name (675c8b0): the name of an attribute a predicate requires is
   validated before anything is created: b/a[@xmlns='u'] on <r/> raises ValueError and leaves <r/> *)
Example C15_reserved_name_fixed :
  foc default_vis f_res_tree f_res_me f_res_me f_res_expr [0%nat] = FocFault f_res_tree (FRejected ValueError) /\
  content f_res_after = content f_res_tree.
Proof. split; vm_compute; reflexivity. Qed.
