(* C13 - namespace declarations in output are consistent and honour the caller.
   Statements only; proofs are in Ns/NamespacesFacts.v, Ns/PrefixFacts.v, Xml/PlainFacts.v.

   Model: Ns/Namespaces.v (Namespaces normalisation over the generated validator and tables), Ns/Prefixes.v
   (Serializer._collect_prefixes over the generated _new_namespace_declaration; declarations of serialize_root),
   Xml/Plain.v (what is written for attributes).  `ord` is the order in which CPython iterated each node's
   set of namespaces: the theorems hold for every order, i.e. for every PYTHONHASHSEED.

   History: until commit b2d3b5a generated prefixes ns<i> ignored the caller's mapping and the property was false
   (witness kept below as a regression example, C13_regression_ns0); the generated loop now skips every prefix
   of the caller's normalised mapping and the theorem holds without a guard on the caller.  The bound counts
   what the 2^16 candidates have to avoid: the namespaces of the tree and the entries of the normalised
   mapping (the caller's, 2 global and at most 15 common ones).                                            *)
From Coq Require Import List NArith Bool.
From Delb.Base Require Import PyStr PyDict.
From Delb.Gen Require Import GenNames GenNs GenNsValidators.
From Delb.Tree Require Import ATree.
From Delb.Ns Require Import Namespaces NamespacesFacts Prefixes PrefixFacts.
From Delb.Xml Require Import Plain PlainFacts RoundTrip.
Import ListNotations.

(* the generated loop bound is the one the statement speaks about *)
Theorem C13_bound : new_namespace_declaration_bound = (2 ^ 16)%N.
Proof. reflexivity. Qed.
Print Assumptions C13_bound.

(* for all trees, caller mappings and iteration orders, with fewer than 2^16 namespaces and mapping entries:
   prefix collection succeeds (no AssertionError, no NotImplementedError) and the table
   covers / is injective / keeps the empty namespace un-prefixed and un-defaulted / honours the caller's
   non-empty prefixes / leaves xml and xmlns alone (c13_clauses, Ns/Prefixes.v) *)
Theorem C13 : forall t caller ord,
  is_tag t = true -> valid_caller caller ->
  order_ok (bfs_of t) ord -> (N.of_nat (n_namespaces t + length caller + 17) < 2 ^ 16)%N ->
  exists pm, collect caller (root_ns_of t) ord = Ok pm /\ c13_clauses caller (tree_nss t) pm.
Proof.
  intros t caller ord H1 H2 H4 H5.
  destruct (collect_tree_clauses t caller ord H1 H2 H4 H5) as [data [pm [_ [E [_ C]]]]].
  exists pm. exact (conj E C).
Qed.
Print Assumptions C13.

(* declarations only on the root: an element's own attributes (named as the API admits) are never written
   under a key that reads as a declaration; the xmlns attributes come from declared_attributes, which only
   render_root (serialize_root) uses *)
Theorem C13_declarations_only_on_root : forall t caller ord,
  is_tag t = true -> valid_caller caller -> caller_prefixes_colon_free caller ->
  order_ok (bfs_of t) ord -> (N.of_nat (n_namespaces t + length caller + 17) < 2 ^ 16)%N ->
  exists pm, collect caller (root_ns_of t) ord = Ok pm /\
    forall attrs, Forall attr_name_ok attrs ->
    forall k, In k (dict_keys (generate_attributes_data pm attrs)) -> is_decl_key k = false.
Proof.
  intros t caller ord H1 H2 CF H4 H5.
  destruct (collect_tree_clauses t caller ord H1 H2 H4 H5) as [data [pm [EN [E [HI C]]]]].
  exists pm. split; [exact E|]. intros attrs HA.
  exact (own_attributes_never_declare caller data pm (tree_nss t) attrs (normalize_ok _ _ EN) CF HI C HA).
Qed.
Print Assumptions C13_declarations_only_on_root.

(* every iteration order is admissible input; the deterministic one exists *)
Theorem C13_order_exists : forall t, order_ok (bfs_of t) (default_order (bfs_of t)).
Proof. exact (fun t => default_order_ok (bfs_of t)). Qed.
Print Assumptions C13_order_exists.

(* ---- regression: <r><a xmlns="u1"><b xmlns="u2"/></a></r> with namespaces={"ns0": "u2"} (the witness of the
   repaired finding C13-caller-prefix-looks-generated: AssertionError before b2d3b5a) ---------------------- *)
Definition c13_witness_tree : node :=
  Tag [] [114%N] [] [Tag [117; 49]%N [97%N] [] [Tag [117; 50]%N [98%N] [] []]].
Definition c13_witness_caller : caller_map := [(Some [110; 115; 48]%N, [117; 50]%N)].
Example C13_regression_ns0 :
  collect c13_witness_caller (root_ns_of c13_witness_tree) (default_order (bfs_of c13_witness_tree))
  = Ok [([], []); ([117; 49]%N, [110; 115; 49; 58]%N); ([117; 50]%N, [110; 115; 48; 58]%N)].
Proof. vm_compute. reflexivity. Qed.

(* non-vacuity: a tree with a default namespace, an un-namespaced child, a prefixed attribute, the xml
   namespace, and a caller mapping with a default and a prefix satisfies every hypothesis of C13;
   the table that results *)
Definition c13_example_tree : node :=
  Tag [117; 49]%N [114%N] [(xml_ns, [108; 97; 110; 103]%N, [101; 110]%N)]
      [Tag [] [97%N] [([117; 50]%N, [107%N], [118%N])] []; Tag [117; 51]%N [98%N] [] []].
Definition c13_example_caller : caller_map := [(None, [117; 49]%N); (Some [112%N], [117; 50]%N)].
Example C13_example :
  is_tag c13_example_tree = true /\ valid_caller c13_example_caller
  /\ caller_prefixes_colon_free c13_example_caller
  /\ (N.of_nat (n_namespaces c13_example_tree + length c13_example_caller + 17) < 2 ^ 16)%N
  /\ collect c13_example_caller (root_ns_of c13_example_tree) (default_order (bfs_of c13_example_tree))
     = Ok [([117; 49]%N, [110; 115; 48; 58]%N); (xml_ns, [120; 109; 108; 58]%N); ([], []);
           ([117; 50]%N, [112; 58]%N); ([117; 51]%N, [110; 115; 49; 58]%N)].
Proof.
  split; [reflexivity|]. split.
  - split; [repeat constructor; cbn; intuition discriminate|]. eexists. vm_compute. reflexivity.
  - split.
    + intros k n [H|[H|[]]]; injection H as <- <-; unfold colon_free, COLON; cbn; intuition discriminate.
    + split; vm_compute; reflexivity.
Qed.

(* the name hypothesis of C13_declarations_only_on_root is what the GENERATED validator TagAttributes._validate_name
   (Gen/GenNsValidators.v) guarantees of every attribute the API creates *)
Theorem C13_attribute_names_validated : forall ns l,
  attribute_name_refused ns l = false -> l <> XMLNS_ /\ ns <> xmlns_ns.
Proof. exact RoundTrip.attr_validator_ok. Qed.
Print Assumptions C13_attribute_names_validated.

(* regression (C13-attribute-named-xmlns): the validator refuses the witness, and the refusal is needed - an
   attribute called xmlns would be written as a declaration *)
Example C13_regression_attribute_named_xmlns :
  attribute_name_refused [] XMLNS_ = true
  /\ exists (pm : pmap) attrs k, In k (dict_keys (generate_attributes_data pm attrs)) /\ is_decl_key k = true.
Proof.
  split; [reflexivity|].
  exists [([], [])], [([], XMLNS_, [118%N])], XMLNS_. split; [left; reflexivity | reflexivity].
Qed.
