(* C08, first half - the default filters stay the caller's: the stack discipline.
   Statements only.  The subject of the theorems is Gen/GenFilterFx.v, the summary of every use of
   altered_default_filters regenerated from /repo's AST on every run (translate/gen_filters.py).

   What is proved here: for every client program - any interleaving of its own `with` blocks with
   calls, resumptions and finalisations (in any order, any number of times) of the library routines -
   the default-filter stack the client observes is the one its own blocks established, for *all*
   routines of the current source (C08_frame_real).  Until /repo commits b5ea840 / 7e4e5e3 four
   routines did not pass; their old summaries are kept below as a historical example.
   What is *not* proved here: that results do not depend on the ambient filters (second half of the
   property); that part is differential testing in harness/props/c08.py, supported only by the
   structural lemma C08_listed_ops_shielded below. *)
From Coq Require Import String List Bool.
From Delb.Misc Require Import Filters FiltersFacts.
From Delb.Gen Require Import GenFilterFx.
Import ListNotations.
Open Scope string_scope.

(* generic: balanced routines never disturb the caller's view, whatever the interleaving *)
Theorem C08_frame : forall filt routines, Forall (balanced filt) routines ->
  forall p st, run filt routines p st = own filt p st.
Proof. exact frame. Qed.
Print Assumptions C08_frame.

(* every generated summary passes the decidable check: no function holds altered_default_filters
   across a yield, no generator function is decorated with it.  A new function that does either
   breaks this lemma (by vm_compute over the regenerated definitions). *)
Lemma all_balanced : forallb routine_ok routines = true.
Proof. vm_compute. reflexivity. Qed.
Print Assumptions all_balanced.

Lemma no_offenders : offenders routines = [] /\ forallb decoration_effective routines = true.
Proof. vm_compute. split; reflexivity. Qed.

(* the property for the real routines, unconditionally *)
Theorem C08_frame_real : forall filt p st,
  run filt (map f_segs routines) p st = own filt p st.
Proof. exact (fun filt => frame_checked filt routines all_balanced). Qed.
Print Assumptions C08_frame_real.

(* serialize, xpath (hence css_select), clone, detach, merge_text_nodes, _reduce_whitespace and
   Document.__serialize are plain functions decorated with @altered_default_filters(): their bodies
   run under `()` regardless of what the caller has active *)
Lemma C08_listed_ops_shielded : forallb (fun n => mem n (shielded routines)) listed_entry_points = true.
Proof. vm_compute. reflexivity. Qed.
Print Assumptions C08_listed_ops_shielded.

(* ... and what such a routine reads as `default_filters[-1]` anywhere inside the call is the library's
   own entry, whatever stack the caller established (st arbitrary): together with C08_frame_real (the
   caller's stack is restored afterwards) and Props/C08Nav.v (the navigation observers are functions
   of the tree alone) this is the Gallina side of the insensitivity half.  What remains differential
   testing: that the bodies of the shielded operations consult the filters only through
   default_filters[-1] (the generated `readers` list) and have no other dependence on the caller. *)
Theorem C08_top_during_shielded_call : forall filt seg, shielded_seg seg = true ->
  forall pre post (st : stack filt), seg = (pre ++ post)%list -> pre <> [] -> post <> [] ->
  exists st', run_ops filt pre st = Some st' /\ hd_error st' = Some None /\ exists d, st' = (repeat None (S d) ++ st)%list.
Proof. exact top_during_shielded_call. Qed.
Print Assumptions C08_top_during_shielded_call.

Theorem C08_shielded_reads_same : forall filt seg, shielded_seg seg = true ->
  forall pre post (st1 st2 : stack filt), seg = (pre ++ post)%list -> pre <> [] -> post <> [] ->
  exists s1 s2, run_ops filt pre st1 = Some s1 /\ run_ops filt pre st2 = Some s2 /\ hd_error s1 = hd_error s2.
Proof. exact shielded_reads_same. Qed.
Print Assumptions C08_shielded_reads_same.

(* instance: inside NodeBase.xpath, called under the caller's filters 7 nested in 3, the top is `()` *)
Example C08_shielded_example :
  let seg := seg_of (map f_segs routines) (index_of "NodeBase.xpath" routines) 0 in
  shielded_seg seg = true /\ run_ops nat [LPush] [Some 7; Some 3] = Some [None; Some 7; Some 3].
Proof. vm_compute. split; reflexivity. Qed.

(* non-vacuity: a client with nested blocks of its own around a suspended iterate_descendants
   generator (segments 0 and 1: up to the first yield, between yields) and a call of xpath *)
Example C08_example :
  let rs := routines in
  let g := index_of "TagNode.iterate_descendants" rs in
  let x := index_of "NodeBase.xpath" rs in
  run nat (map f_segs rs) [CPush 1; Seg g 0; CPush 2; Seg x 0; Seg g 1; CPop; Seg g 1; Seg g 2] [] = Some [Some 1]
  /\ seg_of (map f_segs rs) x 0 = [LPush; LPop] /\ f_generator (nth g rs (mk_fsum "" "" false false [])) = true.
Proof. vm_compute. repeat split. Qed.

(* HISTORICAL (before /repo commits b5ea840, 7e4e5e3; not about the current source): the summaries the
   generator produced for the four routines then, written out as literals.  They fail the check, and
   the frame statement fails for them: inside `for n in root.iterate_descendants():` under the
   client's own filters 7 the top of the stack was a library entry; finalising suspended generators
   out of order popped the client's entry. *)
Definition historical_routines : list fsum :=
  [ mk_fsum "_delb/nodes.py" "NodeBase._iterate_preceding" true true [[LPush; LPop]; []; []; []; []; []; []];
    mk_fsum "_delb/nodes.py" "TagNode.iterate_descendants" false true [[LPush]; []; [LPop]];
    mk_fsum "delb/__init__.py" "_Epilogue._iter_all" false true [[LPush]; []; [LPop]];
    mk_fsum "delb/__init__.py" "_Prologue._iter_all" false true [[LPush]; []; [LPop]] ].
Example C08_historical_refutation :
  offenders historical_routines =
    ["NodeBase._iterate_preceding"; "TagNode.iterate_descendants"; "_Epilogue._iter_all"; "_Prologue._iter_all"]
  /\ run nat (map f_segs historical_routines) [CPush 7; Seg 1 0] [] = Some [None; Some 7]
  /\ own nat [CPush 7; Seg 1 0] [] = Some [Some 7]
  /\ run nat (map f_segs historical_routines) [Seg 1 0; CPush 7; Seg 1 2] [] = Some [None].
Proof. vm_compute. repeat split. Qed.
