(* C08, first half - the default filters stay the caller's: the stack discipline.
   Statements only.  The subject of the theorems is Gen/GenFilterFx.v, the summary of every use of
   altered_default_filters regenerated from /repo's AST on every run (translate/gen_filters.py).

   What is proved here: for every client program - any interleaving of its own `with` blocks with
   calls, resumptions and finalisations (in any order, any number of times) of the library routines -
   the default-filter stack the client observes is the one its own blocks established, for all
   routines except the four listed in Filters.known_offenders (refuted in Props/C08Refuted.v).
   What is *not* proved here: that results do not depend on the ambient filters (second half of the
   property); that part is differential testing in harness/props/c08.py, supported only by the
   structural lemma C08_listed_ops_shielded below. *)
From Coq Require Import String List Bool.
From Delb.Misc Require Import Filters FiltersFacts.
From Delb.Gen Require Import GenFilterFx.
Import ListNotations.
Open Scope string_scope.

(* generic: balanced routines never disturb the caller's view, whatever the interleaving *)
Theorem C08_frame : forall filt routines, Forall (balanced filt) routines ->
  forall p st, run filt routines p st = own filt p st.
Proof. exact frame. Qed.
Print Assumptions C08_frame.

(* the generated summaries, minus the known offenders, pass the decidable check.  A new function that
   holds altered_default_filters across a yield, or a new decorated generator, breaks this lemma. *)
Lemma all_balanced : forallb routine_ok (guarded routines) = true.
Proof. vm_compute. reflexivity. Qed.
Print Assumptions all_balanced.

(* the property for the real routines outside the guard *)
Theorem C08_frame_partial : forall filt p st,
  run filt (map f_segs (guarded routines)) p st = own filt p st.
Proof. exact (fun filt => frame_checked filt (guarded routines) all_balanced). Qed.
Print Assumptions C08_frame_partial.
(* full statement, false of the unchanged tree (Props/C08Refuted.v):
   forall filt p st, run filt (map f_segs routines) p st = own filt p st *)

(* serialize, xpath (hence css_select), clone, detach, merge_text_nodes, _reduce_whitespace and
   Document.__serialize are plain functions decorated with @altered_default_filters(): their bodies
   run under `()` regardless of what the caller has active *)
Lemma C08_listed_ops_shielded : forallb (fun n => mem n (shielded routines)) listed_entry_points = true.
Proof. vm_compute. reflexivity. Qed.
Print Assumptions C08_listed_ops_shielded.

(* non-vacuity: a client with nested blocks of its own around calls of library routines that pass the check *)
Example C08_example :
  let rs := guarded routines in
  let x := index_of "NodeBase.xpath" rs in
  let l := index_of "TagNode.location_path" rs in
  run nat (map f_segs rs) [CPush 1; Seg x 0; CPush 2; Seg l 0; CPop; Seg x 0] [] = Some [Some 1]
  /\ seg_of (map f_segs rs) x 0 = [LPush; LPop].
Proof. vm_compute. split; reflexivity. Qed.
