(* C17 - compare_trees reports equal exactly when two trees are equal.
   Statements only; every proof is `exact` of a lemma proved in Misc/CompareFacts.v.
   `compare F a b` is the model of delb.utils.compare_trees under the ambient default filters F
   (None = "trees are equal", Some (path, kind) = the reported node pair and difference kind);
   `filter_tree F` is what a client sees of a tree under F; `tree_eq` is agreement in node kinds,
   names, namespaces, attributes (as mappings), text/comment/PI content and order.
   `wf` = attribute keys are unique per element (they come out of a mapping). *)
From Coq Require Import List NArith Bool.
From Delb.Base Require Import PyStr.
From Delb.Tree Require Import ATree.
From Delb.Misc Require Import Compare CompareFacts.
Import ListNotations.

(* "equal" is reported exactly for trees that agree on everything visible under the active filters *)
Theorem C17_iff : forall F a b, wf a -> wf b ->
  (compare F a b = None <-> tree_eq (filter_tree F a) (filter_tree F b)).
Proof. exact compare_iff. Qed.
Print Assumptions C17_iff.

(* a reported difference names a node pair that really differs in the reported aspect, and the
   trees agree above it (names, namespaces, attributes, child counts, all earlier siblings) *)
Theorem C17_diff : forall F a b p k, wf a -> wf b ->
  compare F a b = Some (p, k) -> diff_at p k (filter_tree F a) (filter_tree F b).
Proof. exact compare_diff. Qed.
Print Assumptions C17_diff.

Theorem C17_diff_is_real : forall p k a b, diff_at p k a b -> ~ tree_eq a b.
Proof. exact diff_at_real. Qed.
Print Assumptions C17_diff_is_real.

(* the verdict does not depend on argument order *)
Theorem C17_sym : forall F a b, wf a -> wf b -> (compare F a b = None <-> compare F b a = None).
Proof. exact compare_sym. Qed.
Print Assumptions C17_sym.

(* TagAttributes.__eq__ (equal sizes + lookups in one direction) is equality of the mappings *)
Theorem attrs_eq_dict : forall a b, NoDup (map akey a) -> NoDup (map akey b) ->
  (attrs_eqb a b = true <-> attrs_same a b).
Proof. exact CompareFacts.attrs_eq_dict. Qed.
Print Assumptions attrs_eq_dict.

(* the executable oracle used by the direct search decides the specification *)
Theorem C17_oracle : forall F a b, wf a -> wf b ->
  (spec_equal F a b = true <-> tree_eq (filter_tree F a) (filter_tree F b)).
Proof. exact spec_equal_iff. Qed.
Print Assumptions C17_oracle.

(* non-vacuity: well-formed trees, a difference two levels down that only shows without the
   default filter, found at path [1;0] as a content difference; equal under the default filter *)
Example C17_example :
  let a := Tag [] [114%N] [([], [107%N], [49%N]); ([117%N], [107%N], [50%N])]
               [Text [116%N]; Tag [] [97%N] [] [Comment [99%N]; Text [120%N]]] in
  let b := Tag [] [114%N] [([117%N], [107%N], [50%N]); ([], [107%N], [49%N])]
               [Text [116%N]; Tag [] [97%N] [] [Comment [100%N]; Text [120%N]]] in
  wf a /\ wf b /\
  compare (passes []) a b = Some ([1; 0], DNodeContent) /\
  compare (passes []) b a = Some ([1; 0], DNodeContent) /\
  compare (passes [FTagOrText]) a b = None /\
  spec_equal (passes []) a b = false /\ spec_equal (passes [FTagOrText]) a b = true.
Proof.
  cbv zeta. split; [|split].
  - repeat constructor; cbn; intuition discriminate.
  - repeat constructor; cbn; intuition discriminate.
  - vm_compute. repeat split.
Qed.
