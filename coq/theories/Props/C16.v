(* C16 - any string is either a parsed XPath expression or an XPathParsingError.
   Statements only; every proof is `exact` of a lemma of XPath/TokFacts.v, ParseFacts.v, ParseSweep.v.

   Model: XPath/Tok.v (tokenizer), Parse.v (group_enclosed_expressions, expand_axes, partition_tokens,
   parse_location_path / _step, parse_evaluation_expression, Axis / Function constructors, parse,
   XPathParsingError.__str__, lru_cache), over tables regenerated from the source on every run
   (Gen/GenXPath.v).  `parse s : outcome` is what a caller of _delb.xpath.parse(s) observes:
   OOk ast | ORej position message unsupported? | OCrash site | OFuel.

   The full statement (C16_total_statement below) is FALSE of the faithful model on the unchanged
   tree: C16_total_refuted lists inputs that leave through a crash site (IndexError, KeyError,
   AssertionError).  What is true, for every string, without bound:
     - the tokenizer is total and its lexemes concatenate back to the input          C16_tokens_concat, C16_tokenizer_total
     - every phase terminates within fuel = length + 1 (OFuel is excluded by proof)   C16_no_other_outcome
     - parse s is OOk, ORej, or OCrash at one of 14 of the 22 audited crash sites (the other
       8, among them every subscript / assert after a pattern match, are unreachable)  C16_no_other_outcome
     - a rejection carries a position inside the expression and renders               C16_position_in_range, C16_renders
     - the partial operations of the source are exactly those the model accounts for  C16_audit, C16_alternation
     - parsing is a function of the string (definitional) and the two lru_caches are
       transparent for every history of earlier calls                                C16_cache, C16_cache_bounded
     - outside the crash sites the full statement holds                               C16_total_partial *)
From Coq Require Import List NArith Bool.
From Delb.Base Require Import PyStr.
From Delb.XPath Require Import XBase Tok TokFacts Ast Parse ParseFacts Classify ParseSweep.
From Delb.Gen Require Import GenXPath.
From Delb.XPath Require ParseEnc.   (* the encoder the check evaluates; required here so that it is built *)
Import ListNotations.

(* ---- the tie to the source ---- *)
Theorem C16_alternation : tok_alternatives = expected_alternatives.
Proof. exact alternatives_as_modelled. Qed.
Print Assumptions C16_alternation.

Theorem C16_audit : audit = model_audit.
Proof. exact audit_ok. Qed.
Print Assumptions C16_audit.

(* ---- tokenizer ---- *)
Theorem C16_tokens_concat : forall s l, lexemes s = POk l -> concat (map t_str l) = s.
Proof. exact lexemes_concat. Qed.
Print Assumptions C16_tokens_concat.

Theorem C16_tokenizer_total : forall s,
  (exists l, lexemes s = POk l) \/ (exists e p, lexemes s = PRej e /\ x_pos e = Some p /\ p < length s).
Proof. exact lexemes_total. Qed.
Print Assumptions C16_tokenizer_total.

Theorem C16_tokens_are_lexemes : forall s l,
  tokenize s = POk l -> exists ls, lexemes s = POk ls /\ l = filter not_whitespace ls.
Proof. exact tokenize_lexemes. Qed.
Print Assumptions C16_tokens_are_lexemes.

(* ---- the full statement and its refutation ---- *)
Definition renders (s : str) (p : nat) (m : str) : Prop :=
  exists text, xpe_str (Some s) (Some p) (Some m) = Some text.

Definition C16_total_statement : Prop :=
  forall s, (exists e, parse s = OOk e)
            \/ (exists p m u, parse s = ORej p m u /\ p <= length s /\ renders s p m).

Theorem C16_total_refuted :
  parse [97; 47]%N = OCrash S_step_all_tokens_last   (* a/ *) /\
  parse [47]%N = OCrash S_step_all_tokens_last   (* / *) /\
  parse [47; 47]%N = OCrash S_step_all_tokens_last   (* // *) /\
  parse [115; 101; 108; 102; 58; 58; 110; 111; 100; 101; 40; 41; 91; 49; 93; 47]%N = OCrash S_step_all_tokens_last   (* self::node()[1]/ *) /\
  parse [108; 97; 115; 116; 40; 41]%N = OCrash S_step_node_type   (* last() *) /\
  parse [97; 93]%N = OCrash S_group_pop   (* a] *) /\
  parse [97; 91; 49; 32; 111; 114; 93]%N = OCrash S_expr_operand   (* a[1 or] *) /\
  parse [97; 91; 61; 93]%N = OCrash S_expr_operand   (* a[=] *) /\
  parse [102; 111; 111; 40; 49; 41]%N = OCrash S_step_pi_name   (* foo(1) *) /\
  parse [99; 111; 109; 109; 101; 110; 116; 40; 49; 41]%N = OCrash S_step_pi_name   (* comment(1) *) /\
  parse [97; 91; 102; 40; 44; 41; 93]%N = OCrash S_expr_empty   (* a[f(,)] *).
Proof. exact total_refuted. Qed.
Print Assumptions C16_total_refuted.

Theorem C16_total_false : ~ C16_total_statement.
Proof. exact total_false. Qed.
Print Assumptions C16_total_false.

(* ---- what holds for every string ---- *)
(* OFuel never (termination within fuel = length + 1 is proved); a crash only at a site with
   site_possible c = true (`unguarded c`).  Proved unreachable, hence excluded: every subscript / assert that
   follows a token-pattern match, the three dictionary lookups (COMPLEMENTING_TOKEN_TYPES, OPERATORS x2),
   tokens[0] of the expanded path, tokens[0] of the node test, tokens[-1] of the predicate loop.
   Remaining: the seven sites that are findings (IndexError x3, KeyError, AssertionError x2, ValueError) and
   seven isinstance-asserts / NotImplementedError that need the invariant `a group is enclosed by its
   bracket tokens` (not proved; never hit in any run, and excluded up to the bounds of ParseSweep.v). *)
Theorem C16_no_other_outcome : forall s,
  (exists e, parse s = OOk e) \/ (exists p m u, parse s = ORej p m u) \/ (exists c, parse s = OCrash c /\ unguarded c).
Proof. exact no_other_outcome. Qed.
Print Assumptions C16_no_other_outcome.

Theorem C16_position_in_range : forall s p m u, parse s = ORej p m u -> p <= length s.
Proof. exact position_in_range. Qed.
Print Assumptions C16_position_in_range.

Theorem C16_renders : forall s p m u, parse s = ORej p m u -> renders s p m.
Proof. exact rejection_renders. Qed.
Print Assumptions C16_renders.

(* ---- cache half: lru_cache(64) on tokenize and on parse, exceptions not cached ---- *)
Theorem C16_cache : forall history s, snd (parse_cached (run history) s) = parse s.
Proof. exact parse_cache_transparent. Qed.
Print Assumptions C16_cache.

Theorem C16_cache_bounded : forall cs s,
  length (parse_cache cs) <= parse_cache_size -> length (parse_cache (fst (parse_cached cs s))) <= parse_cache_size.
Proof. exact parse_cache_bounded. Qed.
Print Assumptions C16_cache_bounded.

(* ---- the full statement under the decidable guard "the model does not leave through a crash site" ----
   crash_free s is computed by running the model.  The finding classes of Classify.v are decidable on
   the token list alone; that every crash lies in the class of its site (so that `unclassified s = true`
   could replace `crash_free s = true`) is proved for all strings up to the bounds of
   C16_sites_in_classes_bounded and compared on every case of every check run, not proved in general:
       forall s, site_in_class s = true                                      (open) *)
Theorem C16_total_partial : forall s, crash_free s = true ->
  (exists e, parse s = OOk e) \/ (exists p m u, parse s = ORej p m u /\ p <= length s /\ renders s p m).
Proof. exact total_partial. Qed.
Print Assumptions C16_total_partial.

Theorem C16_sites_in_classes_bounded : forall s,
  (length s <= 3 /\ Forall (fun c => In c alpha14) s) \/ (length s <= 5 /\ Forall (fun c => In c alpha8) s) ->
  site_in_class s = true.
Proof. exact sites_in_classes_bounded. Qed.
Print Assumptions C16_sites_in_classes_bounded.

(* ---- non-vacuity ---- *)
(* //a[@k='v' and position()=1]|b  parses; the guard of C16_total_partial holds *)
Example C16_example_ok :
  let s := [47; 47; 97; 91; 64; 107; 61; 39; 118; 39; 32; 97; 110; 100; 32; 112; 111; 115; 105; 116; 105; 111; 110; 40; 41; 61; 49; 93; 124; 98]%N in
  crash_free s = true /\ unclassified s = true /\
  parse s = OOk [LocationPath true
                   [LocationStep AxDescendantOrSelf (NodeTypeTest KTagNode) [];
                    LocationStep AxChild (NameMatchTest None [97%N])
                      [BooleanOperator OpAnd
                         (BooleanOperator OpEq (AttributeValue None [107%N]) (AnyValue (VStr [118%N])))
                         (BooleanOperator OpEq (Function [112;111;115;105;116;105;111;110]%N []) (AnyValue (VNum 1%N)))]];
                 LocationPath false [LocationStep AxChild (NameMatchTest None [98%N]) []]].
Proof. vm_compute. repeat split; reflexivity. Qed.

(* a[  is rejected at position 1 with a message that renders *)
Example C16_example_rejected :
  exists m text, parse [97; 91]%N = ORej 1 m false /\ xpe_str (Some [97; 91]%N) (Some 1) (Some m) = Some text
                 /\ crash_free [97; 91]%N = true.
Proof. eexists. eexists. vm_compute. repeat split; reflexivity. Qed.

(* a history that fills the parse cache with a, evicts nothing, then asks again *)
Example C16_example_cache :
  snd (parse_cached (run [EvParse [97%N]; EvParse [97; 47]%N; EvTokenize [98%N]; EvClearTokenize; EvParse [97%N]]) [97%N])
  = parse [97%N]
  /\ length (parse_cache (run [EvParse [97%N]; EvParse [97; 47]%N; EvParse [97%N]])) = 1.
Proof. vm_compute. split; reflexivity. Qed.
