(* C16 - any string is either a parsed XPath expression or an XPathParsingError.
   Statements only; every proof is `exact` of a lemma of XPath/TokFacts.v or XPath/ParseFacts.v.

   Model: XPath/Tok.v (tokenizer), Parse.v (group_enclosed_expressions, expand_axes, partition_tokens,
   parse_location_path / _step, parse_evaluation_expression, Axis / Function constructors, parse,
   XPathParsingError.__str__, lru_cache), over tables regenerated from the source on every run
   (Gen/GenXPath.v).  `parse s : outcome` is what a caller of _delb.xpath.parse(s) observes:
   OOk ast | ORej position message unsupported? | OCrash site | OFuel.
   Every partial operation of the source (subscript, assert, pop, dictionary lookup, int(), getattr,
   raise NotImplementedError) is a crash site of the model or a guarded branch; C16_audit ties their
   number per function to the source.

   C16_total holds for the faithful model of the code as it is now, for every string, without bound:
   all crash sites are proved unreachable and the fuel (length + 1) is proved sufficient.
   Resource limits: int() of more than sys.get_int_max_str_digits() digits is modelled exactly (the
   limit is regenerated from the interpreter; the parser maps the ValueError to an XPathParsingError);
   CPython's recursion limit is not: whether a call runs out of stack depends on the caller's stack depth,
   so it is an input of `parse_under` (true = the interpreter raised RecursionError somewhere during the
   call, which parse() maps to XPathParsingError at position 0).  C16_total_under covers both values. *)
From Coq Require Import List NArith Bool.
From Delb.Base Require Import PyStr.
From Delb.XPath Require Import XBase Tok TokFacts TTree Ast Parse ParseFacts.
From Delb.Gen Require Import GenXPath GenXPathFns.
From Delb.XPath Require ParseEnc.   (* the encoder the check evaluates; required here so that it is built *)
Import ListNotations.

(* ---- the tie to the source ---- *)
Theorem C16_alternation : tok_alternatives = expected_alternatives.
Proof. exact alternatives_as_modelled. Qed.
Print Assumptions C16_alternation.

Theorem C16_audit : audit = model_audit.
Proof. exact audit_ok. Qed.
Print Assumptions C16_audit.

(* the loop helpers of parser.py are translated statement by statement from the source on every run
   (Gen/GenXPathFns.v); the model's functions are those *)
Theorem C16_helpers_as_translated :
  (forall tokens pat, compare_tokens_with_pattern tokens pat = gen_compare_tokens_with_pattern tokens pat)
  /\ (forall tokens pat, all_tokens_match tokens pat = gen_all_tokens_match tokens pat)
  /\ (forall tokens pat, initial_tokens_match tokens pat = gen_initial_tokens_match tokens pat)
  /\ (forall sep tokens, partition_tokens sep tokens = gen_partition_tokens sep tokens)
  /\ (forall tokens, expand_axes tokens = gen_expand_axes tokens).
Proof.
  exact (conj compare_as_translated (conj all_tokens_match_as_translated (conj initial_tokens_match_as_translated
        (conj partition_as_translated expand_as_translated)))).
Qed.
Print Assumptions C16_helpers_as_translated.

(* ---- tokenizer ---- *)
Theorem C16_tokens_concat : forall s l, lexemes s = POk l -> concat (map t_str l) = s.
Proof. exact lexemes_concat. Qed.
Print Assumptions C16_tokens_concat.

Theorem C16_tokenizer_total : forall s,
  (exists l, lexemes s = POk l) \/ (exists e p, lexemes s = PRej e /\ x_pos e = Some p /\ p < length s).
Proof. exact lexemes_total. Qed.
Print Assumptions C16_tokenizer_total.

Theorem C16_tokens_are_lexemes : forall s l,
  tokenize s = POk l -> exists ls, lexemes s = POk ls /\ l = filter not_whitespace ls.
Proof. exact tokenize_lexemes. Qed.
Print Assumptions C16_tokens_are_lexemes.

(* ---- the property ---- *)
Definition renders (s : str) (p : nat) (m : str) : Prop :=
  exists text, xpe_str (Some s) (Some p) (Some m) = Some text.

(* for every string: an expression, or an XPathParsingError carrying a position inside the expression and a
   message that renders; in particular no other exception (OCrash) and termination (OFuel) *)
Theorem C16_total : forall s,
  (exists e, parse s = OOk e) \/ (exists p m u, parse s = ORej p m u /\ p <= length s /\ renders s p m).
Proof. exact total. Qed.
Print Assumptions C16_total.

(* the same whether or not the interpreter runs out of stack during the call *)
Theorem C16_total_under : forall stack_overflow s,
  (exists e, parse_under stack_overflow s = OOk e)
  \/ (exists p m u, parse_under stack_overflow s = ORej p m u /\ p <= length s /\ renders s p m).
Proof. exact total_under. Qed.
Print Assumptions C16_total_under.

Theorem C16_terminates : forall s, parse s <> OFuel.
Proof. exact terminates. Qed.
Print Assumptions C16_terminates.

Theorem C16_no_other_exception : forall s c, parse s <> OCrash c.
Proof. exact never_crashes. Qed.
Print Assumptions C16_no_other_exception.

Theorem C16_position_in_range : forall s p m u, parse s = ORej p m u -> p <= length s.
Proof. exact position_in_range. Qed.
Print Assumptions C16_position_in_range.

(* ---- cache half: lru_cache(64) on tokenize and on parse, exceptions not cached ----
   (determinism is definitional: parse is a function of the string) *)
Theorem C16_cache : forall history s, snd (parse_cached (run history) s) = parse s.
Proof. exact parse_cache_transparent. Qed.
Print Assumptions C16_cache.

Theorem C16_cache_bounded : forall cs s,
  length (parse_cache cs) <= parse_cache_size -> length (parse_cache (fst (parse_cached cs s))) <= parse_cache_size.
Proof. exact parse_cache_bounded. Qed.
Print Assumptions C16_cache_bounded.

(* functools.cached_property on the shared AST nodes (LocationStep._anders_predicates, ._derived_attributes,
   XPathExpression._is_unambiguously_locatable): the list is the one in the source, the node fields they are
   computed from are assigned in __init__ only (generator), and then every read, after any earlier reads,
   gives what a fresh computation gives *)
Theorem C16_cached_properties : cached_properties = expected_cached_properties.
Proof. exact cached_properties_as_modelled. Qed.
Print Assumptions C16_cached_properties.

Theorem C16_cached_property_transparent : forall (V : Type) (f : nat -> V) reads k,
  snd (memo_read f (memo_run f reads) k) = f k.
Proof. exact @memo_transparent. Qed.
Print Assumptions C16_cached_property_transparent.

(* ---- regression: the inputs of the nine repaired findings are rejected now ---- *)
Theorem C16_regression :
  parse [97; 47]%N = ORej 0 msg_parse_location_step_0 false   (* a/ *) /\
  parse [47]%N = ORej 0 msg_parse_location_step_0 false   (* / *) /\
  parse [47; 47]%N = ORej 0 msg_parse_location_step_0 false   (* // *) /\
  parse [115; 101; 108; 102; 58; 58; 110; 111; 100; 101; 40; 41; 91; 49; 93; 47]%N = ORej 0 msg_parse_location_step_0 false   (* self::node()[1]/ *) /\
  parse [108; 97; 115; 116; 40; 41]%N = ORej 0 msg_parse_location_step_3 false   (* last() *) /\
  parse [97; 93]%N = ORej 1 (msg_group_enclosed_expressions_0 [93%N]) false   (* a] *) /\
  parse [97; 91; 49; 32; 111; 114; 93]%N = ORej 4 (msg_parse_evaluation_expression_2 [111; 114]%N) false   (* a[1 or] *) /\
  parse [97; 91; 61; 93]%N = ORej 2 (msg_parse_evaluation_expression_2 [61%N]) false   (* a[=] *) /\
  parse [102; 111; 111; 40; 49; 41]%N = ORej 0 msg_parse_location_step_2 false   (* foo(1) *) /\
  parse [99; 111; 109; 109; 101; 110; 116; 40; 49; 41]%N = ORej 0 msg_parse_location_step_2 false   (* comment(1) *) /\
  parse [97; 91; 102; 40; 44; 41; 93]%N = ORej 0 msg_parse_evaluation_expression_0 false   (* a[f(,)] *) /\
  parse [95; 95; 100; 105; 99; 116; 95; 95; 58; 58; 97]%N = ORej 0 msg_Axis_0 false   (* __dict__::a *) /\
  parse [97; 110; 99; 101; 115; 116; 111; 114; 95; 111; 114; 95; 115; 101; 108; 102; 58; 58; 97]%N = ORej 0 msg_Axis_0 false   (* ancestor_or_self::a *).
Proof. exact regression. Qed.
Print Assumptions C16_regression.

(* ---- non-vacuity ---- *)
(* //a[@k='v' and position()=1]|b  parses *)
Example C16_example_ok :
  parse [47; 47; 97; 91; 64; 107; 61; 39; 118; 39; 32; 97; 110; 100; 32; 112; 111; 115; 105; 116; 105; 111; 110; 40; 41; 61; 49; 93; 124; 98]%N
  = OOk [LocationPath true
           [LocationStep AxDescendantOrSelf (NodeTypeTest KTagNode) [];
            LocationStep AxChild (NameMatchTest None [97%N])
              [BooleanOperator OpAnd
                 (BooleanOperator OpEq (AttributeValue None [107%N]) (AnyValue (VStr [118%N])))
                 (BooleanOperator OpEq (Function [112;111;115;105;116;105;111;110]%N []) (AnyValue (VNum 1%N)))]];
         LocationPath false [LocationStep AxChild (NameMatchTest None [98%N]) []]].
Proof. vm_compute. reflexivity. Qed.

(* a[  is rejected at position 1 with a message that renders *)
Example C16_example_rejected :
  exists m text, parse [97; 91]%N = ORej 1 m false /\ xpe_str (Some [97; 91]%N) (Some 1) (Some m) = Some text.
Proof. eexists. eexists. vm_compute. split; reflexivity. Qed.

(* a history with hits, misses, an uncached exception and a cleared cache *)
Example C16_example_cache :
  snd (parse_cached (run [EvParse [97%N]; EvParse [97; 47]%N; EvTokenize [98%N]; EvClearTokenize; EvParse [97%N]]) [97%N])
  = parse [97%N]
  /\ length (parse_cache (run [EvParse [97%N]; EvParse [97; 47]%N; EvParse [97%N]])) = 1.
Proof. vm_compute. split; reflexivity. Qed.
