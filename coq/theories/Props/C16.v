(* C16 - placeholder while the facts are being written *)
From Delb.XPath Require Import ParseEnc.
