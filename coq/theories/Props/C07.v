(* C07 - whitespace reduction is the TEI normalisation, exactly and idempotently.
   Statements only; every proof is `exact` of a lemma proved in Ws/ReduceFacts.v. *)
From Coq Require Import List NArith Bool.
From Delb.Base Require Import PyStr PyStrFacts.
From Delb.Gen Require Import GenReduce.
From Delb.Tree Require Import ATree Merge.
From Delb.Ws Require Import Reduce ReduceFacts.
Import ListNotations.

(* the rule table regenerated from the source on this run is the stated rule *)
Theorem C07_rule_table : forall s first last,
  reduce_whitespace_content s first last = reduce_text_spec s first last.
Proof. exact rule_table_is_spec. Qed.
Print Assumptions C07_rule_table.

(* the xml:space rule used by the model is the one regenerated from the source *)
Theorem C07_directive : forall attrs inherited,
  get_normalize_space_directive attrs (dir_str inherited) = dir_str (directive attrs inherited).
Proof. exact directive_is_generated. Qed.
Print Assumptions C07_directive.

Theorem C07_spec : forall n, reduce_model n = reduce_spec n.
Proof. exact model_is_spec. Qed.
Print Assumptions C07_spec.

(* twice = once, for every tree of any size and depth, adjacent and empty text nodes included *)
Theorem C07_idem : forall n, reduce_model (reduce_model n) = reduce_model n.
Proof. exact model_idem. Qed.
Print Assumptions C07_idem.

(* elements, attributes, comments, PIs and every non-whitespace character are unchanged
   (skel erases all whitespace from text and drops text that becomes empty; merge_tree only
   concatenates adjacent text nodes) *)
Theorem C07_frame : forall n, skel (reduce_model n) = skel (merge_tree n).
Proof. exact model_frame. Qed.
Print Assumptions C07_frame.

(* subtrees under xml:space="preserve" are untouched *)
Theorem C07_preserve : forall n, undirected n = true -> reduce_with reduce_text_spec true n = n.
Proof. exact reduce_preserve. Qed.
Print Assumptions C07_preserve.

(* non-vacuity: trees on which reduction does something, one of them with adjacent text nodes *)
Example C07_example :
  let t := Tag [] [114%N] [] [Text [32; 97; 32; 32; 98; 32]%N; Tag [] [120%N] [] []; Text [32]%N] in
  reduce_model t = Tag [] [114%N] [] [Text [97; 32; 98; 32]%N; Tag [] [120%N] [] []].
Proof. vm_compute. reflexivity. Qed.
Example C07_example_adjacent :
  reduce_model (Tag [] [114%N] [] [Text [32; 32]%N; Text [32; 97]%N]) = Tag [] [114%N] [] [Text [97]%N].
Proof. vm_compute. reflexivity. Qed.
