(* C09 - a node lives in at most one place; rejected edits change nothing.
   Statements only; proofs are `exact` of lemmas in Conc/Reject.v and Conc/Witness.v.

   `Rejected e` is the documented refusal of a call (InvalidOperation; TypeError for a tag root asked to take a
   sibling; ValueError / IndexError for positions), `Crash e` any other exception.  A single-node call is one that
   offers at most one node (`single_node`), as in the property.

   Findings 19-22 of the first round are repaired in the code (fix commits 572482a, f71365f, e224b43, 84d977e); the
   scripts follow the repaired code, the former refutations are regression examples (`C09_repaired_findings`), and the
   theorems hold without any guard.
   `C09_reject_iff_*`: closed formulas (Conc/Reject.v: sibling_refusal, first_refusal, replace_refusal, detach_refusal,
   append_refusal, insert_refusal, setitem_refusal, delitem_refusal) for when each single-node call is refused and with
   which exception, on the specification side; `C09_reject_agrees` carries them to the concrete model.
   The value-level setters -- comment content, PI target, PI content, attribute creation and renaming -- are modelled in
   Conc/Setters.v (`csetter`): they reject exactly when the validator generated from the source refuses
   (`C09_setter_refused_at`; for attributes the key that is going to be stored is validated, commit 139ed14) and then
   leave the world unchanged (`C09_setter_reject_unchanged`); the four validators are
   characterised by lemmas.  What an accepted attribute assignment does to the store is C11's subject. *)
From Coq Require Import List NArith ZArith Bool.
From Delb.Base Require Import PyStr.
From Delb.Gen Require Import GenValidators GenNsValidators GenNames GenAttr GenAttrKey.
From Delb.Tree Require Import ATree ITree AOps.
From Delb.Conc Require Import CTree COps CGuard Setters SetterSpec Reject Witness.
Import ListNotations.

(* a refused single-node call leaves the whole concrete world -- target tree, offered node's tree, every lxml slot and
   text chain -- exactly as it was; for every ambient filter and every state, well-formed or not *)
Theorem C09_reject_unchanged : forall F c o c' e,
  single_node o = true -> cstep F c o = (c', Rejected e) -> c' = c.
Proof. exact reject_unchanged. Qed.
Print Assumptions C09_reject_unchanged.

(* the concrete model refuses exactly when the plain-tree specification refuses, with the same exception class *)
Theorem C09_reject_agrees : forall F c o e, single_node o = true ->
  (snd (cstep F c o) = Rejected e <-> snd (astep F (abs_world c) o) = Rejected e).
Proof. exact reject_agrees. Qed.
Print Assumptions C09_reject_agrees.

(* when: adding a sibling *)
Theorem C09_reject_iff_following : forall F w x src e,
  snd (astep F w (OAddFollowing x [src])) = Rejected e <-> sibling_refusal w x src = Some e.
Proof. exact add_following_refused_iff. Qed.
Print Assumptions C09_reject_iff_following.
Theorem C09_reject_iff_preceding : forall F w x src e,
  snd (astep F w (OAddPreceding x [src])) = Rejected e <-> sibling_refusal w x src = Some e.
Proof. exact add_preceding_refused_iff. Qed.
Print Assumptions C09_reject_iff_preceding.
(* replacing: a root is never replaced; otherwise as for a sibling *)
Theorem C09_reject_iff_replace : forall F w x src e,
  snd (astep F w (OReplace x src)) = Rejected e <->
  match w_parent w x with None => e = EInvalidOperation | Some _ => sibling_refusal w x src = Some e end.
Proof. exact replace_refused_iff. Qed.
Print Assumptions C09_reject_iff_replace.
(* detaching: only a document's root, and retaining the children of a parentless tag node *)
Theorem C09_reject_iff_detach : forall F w x r e,
  snd (astep F w (ODetach x r)) = Rejected e <->
  e = EInvalidOperation /\ w_kind w x = Some NTag /\
  (is_doc_root w x = true \/ (is_doc_root w x = false /\ w_parent w x = None /\ r = true)).
Proof. exact detach_refused_iff. Qed.
Print Assumptions C09_reject_iff_detach.

(* adding children, item assignment and deletion *)
Theorem C09_reject_iff_append : forall F w p src e,
  snd (astep F w (OAppend p [src])) = Rejected e <-> append_refusal F w p src = Some e.
Proof. exact append_refused_iff. Qed.
Print Assumptions C09_reject_iff_append.
Theorem C09_reject_iff_insert : forall F w p i src e,
  snd (astep F w (OInsert p i [src])) = Rejected e <-> insert_refusal F w p i src = Some e.
Proof. exact insert_refused_iff. Qed.
Print Assumptions C09_reject_iff_insert.
Theorem C09_reject_iff_prepend : forall F w p src e,
  snd (astep F w (OPrepend p [src])) = Rejected e <-> insert_refusal F w p 0%Z src = Some e.
Proof. exact prepend_refused_iff. Qed.
Print Assumptions C09_reject_iff_prepend.
Theorem C09_reject_iff_setitem : forall F w p i src e,
  snd (astep F w (OSetItem p i src)) = Rejected e <-> setitem_refusal F w p i src = Some e.
Proof. exact setitem_refused_iff. Qed.
Print Assumptions C09_reject_iff_setitem.
Theorem C09_reject_iff_delitem : forall F w p i e,
  snd (astep F w (ODelItem p i)) = Rejected e <-> delitem_refusal F w p i = Some e.
Proof. exact delitem_refused_iff. Qed.
Print Assumptions C09_reject_iff_delitem.

(* validators, regenerated from the source on every run *)
Theorem C09_comment_validator : forall s,
  comment_content_refused s = true <-> py_contains s [45%N; 45%N] = true \/ py_endswith s [45%N] = true.
Proof. exact comment_refused_iff. Qed.
Print Assumptions C09_comment_validator.
(* ... and it is the hand-written statement of the XML rule that the check keeps as an independent oracle *)
Theorem C09_comment_rule : forall s, comment_content_refused s = comment_rule s.
Proof. exact comment_rule_generated. Qed.
Print Assumptions C09_comment_rule.
Theorem C09_pi_target_validator : forall s,
  pi_target_refused s = true <-> s = [] \/ py_lower_eq lower_pre s [120%N; 109%N; 108%N] = true.
Proof. exact pi_target_refused_iff. Qed.
Print Assumptions C09_pi_target_validator.

(* the value-level setters (comment content, PI target, PI content, attribute creation / renaming): refused exactly when
   the validator generated from the source refuses, always with ValueError, and then nothing has changed *)
Theorem C09_setter_reject_unchanged : forall w st w' e, csetter w st = (w', Rejected e) -> w' = w.
Proof. exact setter_reject_unchanged. Qed.
Print Assumptions C09_setter_reject_unchanged.
Theorem C09_setter_reject_class : forall w st e, snd (csetter w st) = Rejected e -> e = EValueError.
Proof. exact setter_reject_class. Qed.
Print Assumptions C09_setter_reject_class.
(* at the node the call is addressed to: refused exactly when the generated validator refuses the value -- for an
   attribute: the key that is going to be stored, `deconstruct_clark_notation (_etree_key (ns, name))`, both generated --
   and an assignment takes place only when it accepts *)
Theorem C09_setter_refused_at : forall st inh i k own data kids,
  f_assign st inh (CEl i k own data kids) = Some (CEl i k own data kids, Refused) <->
  i = setter_target st /\ refused_at st (in_scope inh own) k = Some true.
Proof. exact setter_refused_at. Qed.
Print Assumptions C09_setter_refused_at.
Theorem C09_setter_assigned_only_if_accepted : forall st inh e e', f_assign st inh e = Some (e', Done) ->
  refused_at st (in_scope inh (cown_dns e)) (ckind_of e) = Some false.
Proof. exact setter_assigned_only_if_accepted. Qed.
Print Assumptions C09_setter_assigned_only_if_accepted.
(* validating the stored key is validating the qualified name, unless the local name holds Clark notation *)
Theorem C09_attribute_stored_key : forall dns attrs ns name,
  no_char RB ns = true -> no_char RB dns = true -> match name with x :: _ => N.eqb x LB = false | [] => True end ->
  str_eqb dns xmlns_ns = false -> (null ns = false -> str_eqb ns dns = true -> str_eqb ns xmlns_ns = false) ->
  attr_refused dns attrs ns name = attribute_name_refused ns name.
Proof. exact attr_refused_plain. Qed.
Print Assumptions C09_attribute_stored_key.
(* finding C09-23 (repaired, commit 139ed14): Clark notation inside a local name is seen by the validation *)
Example C09_repaired_clark_key :
  attr_refused [] [] [] ([LB] ++ xmlns_ns ++ [RB] ++ [97%N]) = true /\
  attr_refused [] [] [] ([LB] ++ [117%N] ++ [RB] ++ [120; 109; 108; 110; 115]%N) = true /\
  attr_refused [100%N] [] [100%N] [120; 109; 108; 110; 115]%N = true /\
  attr_refused [] [] [] ([LB] ++ [117%N] ++ [RB] ++ [97%N]) = false.
Proof. repeat split; vm_compute; reflexivity. Qed.

(* the two validators added by commits 528fc02 and 8372cfc, regenerated from the source on every run *)
Theorem C09_attribute_name_validator : forall ns name,
  attribute_name_refused ns name = true <-> name = [120; 109; 108; 110; 115]%N \/ ns = xmlns_ns.
Proof. exact attribute_name_refused_iff. Qed.
Print Assumptions C09_attribute_name_validator.
Theorem C09_pi_content_validator : forall s,
  pi_content_refused s = true <-> exists c r, s = c :: r /\ (c = 32 \/ c = 9 \/ c = 10 \/ c = 13)%N.
Proof. exact pi_content_refused_iff. Qed.
Print Assumptions C09_pi_content_validator.

(* the witnesses of the repaired findings 19-22: refused, nothing changed *)
Local Open Scope N_scope.
Example C09_repaired_findings :
  cstep fall w_item (OSetItem 3 0%Z (SNode 1)) = (w_item, Rejected EInvalidOperation) /\
  cstep fall w_dns (OAppend 1 [SNode 0]) = (w_dns, Rejected EInvalidOperation) /\
  cstep fall w_anc (OAddFollowing 2 [SNode 1]) = (w_anc, Rejected EInvalidOperation) /\
  cstep fall w_anc (OAppend 2 [SNode 1]) = (w_anc, Rejected EInvalidOperation) /\
  cstep fall w_big (OAddFollowing 12 [STag 30 [120]]) = (w_big, Rejected EInvalidOperation).
Proof. exact repaired_findings. Qed.

(* every kind of refusal the property lists occurs, and leaves the world as it was *)
Example C09_example :
  cwf w_big /\
  cstep fall w_big (OAddFollowing 3 [SNode 9]) = (w_big, Rejected EInvalidOperation) /\
  cstep fall w_big (ODetach 0 false) = (w_big, Rejected EInvalidOperation) /\
  cstep fall w_big (OReplace 0 (SStr 30 [120])) = (w_big, Rejected EInvalidOperation) /\
  cstep fall w_big (ODetach 13 true) = (w_big, Rejected EInvalidOperation) /\
  cstep fall w_big (OAddFollowing 0 [SStr 30 [120]]) = (w_big, Rejected ETypeError) /\
  cstep fall w_big (OAddFollowing 12 [SNode 13]) = (w_big, Rejected EInvalidOperation) /\
  cstep fall w_big (OInsert 0 99%Z [SStr 30 [120]]) = (w_big, Rejected EIndexError) /\
  cstep fall w_big (OInsert 0 (-1)%Z [SStr 30 [120]]) = (w_big, Rejected EValueError) /\
  cstep fall w_big (OSetItem 0 99%Z (SStr 30 [120])) = (w_big, Rejected EIndexError).
Proof. exact refusal_examples. Qed.
