(* C08 - what is false of the unchanged tree (findings.d/C08.json, class "yield under
   altered_default_filters in <function>" / "decorated generator function").  Kept apart from
   Props/C08.v so that a repair of /repo invalidates only this file. *)
From Coq Require Import String List Bool.
From Delb.Misc Require Import Filters FiltersFacts.
From Delb.Gen Require Import GenFilterFx.
Import ListNotations.
Open Scope string_scope.

(* exactly these routines fail the check: three hold the context across `yield`, one is a decorated
   generator function (the decoration is over before the body starts) *)
Theorem C08_stack_refuted_names : offenders routines = known_offenders.
Proof. vm_compute. reflexivity. Qed.
Print Assumptions C08_stack_refuted_names.

(* the full frame statement fails: inside `for n in root.iterate_descendants():` under the client's
   own filters 7 the top of the stack is a library entry, not the client's *)
Theorem C08_stack_refuted :
  exists (p : list (act nat)) st, run nat (map f_segs routines) p st <> own nat p st.
Proof.
  exists [CPush 7; Seg (index_of "TagNode.iterate_descendants" routines) 0], [].
  vm_compute. discriminate.
Qed.
Print Assumptions C08_stack_refuted.

Example C08_stack_refuted_view :
  let i := index_of "TagNode.iterate_descendants" routines in
  run nat (map f_segs routines) [CPush 7; Seg i 0] [] = Some [None; Some 7] /\
  own nat [CPush 7; Seg i 0] [] = Some [Some 7].
Proof. vm_compute. split; reflexivity. Qed.

(* abandoning out of order: two suspended iterate_descendants generators finalised first-in-first-out
   while the client entered a block in between: the client's entry is popped by the library *)
Example C08_stack_refuted_abandon :
  let i := index_of "TagNode.iterate_descendants" routines in
  run nat (map f_segs routines) [Seg i 0; CPush 7; Seg i 2] [] = Some [None].
Proof. vm_compute. reflexivity. Qed.

(* the known offenders are functions that exist in the source (the guard is not a wildcard) *)
Lemma guard_is_small : length (guarded routines) + length known_offenders = length routines.
Proof. vm_compute. reflexivity. Qed.

