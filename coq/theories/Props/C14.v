(* C14 - location_path is a unique address of a tag node.   Statements only.

   location_path   XPath/LocPath.v   model of TagNode.location_path; its value is the AST the real parser produces for the
                                     real property's string (tied on every run by harness/props/c14.py)
   eval            XPath/Eval.v      the evaluator mirror of C06 (NodeBase.xpath resets the ambient filters, and the
                                     property computes its indexes under its own tag filter: no ambient filter F occurs
                                     in either definition, so the statements hold for every F -- the check observes the
                                     real property and the real query under eight ambient filter settings)
   A tag node is given by its position 0 :: q from the document node: subtree root q = Some t with is_tag_t t. *)
From Delb.Base Require Import PyStr.
From Delb.Tree Require Import ATree ITree.
From Delb.XPath Require Import Ast Nav Eval Ref LocPath LocPathFacts C06Witness.

(* evaluated from ANY context node `ctx` (a node of this tree or not, tag or not) and under ANY prefix mapping,
   the path selects exactly the node: no fault, one result, that node *)
Theorem C14_addresses : forall root m q t ctx,
  subtree root q = Some t -> is_tag_t t = true ->
  eval (docnode root) m (location_path root (0 :: q)) ctx = Ok [(0 :: q, t)].
Proof. exact location_path_addresses. Qed.
Print Assumptions C14_addresses.

(* two different tag nodes of one tree never have the same path *)
Theorem C14_injective : forall root q t q' t',
  subtree root q = Some t -> is_tag_t t = true -> subtree root q' = Some t' -> is_tag_t t' = true ->
  location_path root (0 :: q) = location_path root (0 :: q') -> q = q'.
Proof. exact location_path_injective. Qed.
Print Assumptions C14_injective.

(* the path is "/*" followed by "/*[k]" steps (k >= 1) only: no names, no namespaces, nothing that looks at
   comments, processing instructions or text *)
Theorem C14_shape : forall root q, lp_shape (location_path root (0 :: q)) = true.
Proof. exact location_path_shape. Qed.
Print Assumptions C14_shape.

(* the hypotheses are satisfiable: the second `b` below the first `a` of the C06 example tree, text/comment/PI between *)
Example C14_example :
  exists t, subtree ex_tree [0; 4]%nat = Some t /\ is_tag_t t = true /\
            AstEnc.enc_expr (location_path ex_tree [0; 0; 4]%nat) =
            (* /*/*[1]/*[2] *)
            AstEnc.enc_expr [LocationPath true [star_step; idx_step 1; idx_step 2]].
Proof. eexists. split; [reflexivity|]. split; reflexivity. Qed.
