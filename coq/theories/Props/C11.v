(* C11 - attributes behave as a mapping keyed by namespace and local name.
   Statements only; every proof is `exact` of a lemma of Attr/AttrFacts.v (refutations: vm_compute).

   Model (Attr/AttrModel.v): lxml's store on Clark-notation keys, the default namespace in scope, the
   node's namespace, TagAttributes' cache of Attribute objects, every Attribute object as Live qname |
   Dead last_value; `sys_step` = one operation of a client that keeps the objects it was handed.
   Specification: `dict_step` on an association list keyed by (namespace, local name) plus the client's
   views (VLive key | VDead value).  `deconstruct_clark_notation` is Gen/GenAttr.v, regenerated from
   _delb/names.py on every run; the model is defined in terms of it.  The model follows /repo after the
   fixes bde0777, 3e7a286, 159ed68, bed1ba7, badd57c.
   Remaining hypotheses beyond the stated domain (legal accessors without braces, references to objects
   obtained): `sys_wf` contains no_double (the store does not hold both `name` and `{d}name` for the default
   namespace d - two XML attributes delb presents under one key; preserved by every operation, violated
   only by such a parsed or constructed node, C11_refuted_double) and `step_safe` contains no_stale (no second
   held live object on an entry that is being removed: the open finding C11-second-live-view,
   C11_refuted_second_view). *)
From Coq Require Import List NArith Bool.
From Delb.Base Require Import PyStr PySplit.
From Delb.Gen Require Import GenAttr GenAttrKey.
From Delb.Attr Require Import AttrModel AttrEnc AttrFacts.
Import ListNotations.

(* the generated function is the stated reading of Clark notation: "{ns}name" | "name" *)
Theorem C11_clark_generated : forall s,
  deconstruct_clark_notation s deconstruct_clark_notation_null_default =
  match spec_clark s with Some p => Ok p | None => Crash ValueError end.
Proof. exact decon_spec. Qed.
Print Assumptions C11_clark_generated.

(* the model's key function is TagAttributes._etree_key as regenerated from _delb/nodes.py on this run
   (nsmap.get(None) = Some dns, or None when no default namespace is in scope) *)
Theorem C11_etree_key_generated : forall dns st q,
  etree_key dns st q = etree_key_gen (Some dns) st q /\
  (null dns = true -> etree_key dns st q = etree_key_gen None st q).
Proof. exact etree_key_generated. Qed.
Print Assumptions C11_etree_key_generated.

(* Every operation (get/set/del/contains/iter/len/pop/update on the mapping, the node subscripts, value /
   local_name / namespace assignment through a held object) on a well-formed state, inside the guard,
   gives the dictionary's answer, commutes with the abstraction and preserves well-formedness. *)
Theorem C11_refines : forall y x, sys_wf y = true -> step_safe y x = true -> step_ok y x.
Proof. exact refines_all. Qed.
Print Assumptions C11_refines.

(* ... hence every sequence of operations, of any length *)
Theorem C11_refines_run : forall y l, sys_wf y = true -> run_safe y l = true -> run_ok y l.
Proof. exact refines_run_all. Qed.
Print Assumptions C11_refines_run.

(* Full statement (no guard): forall y l, sys_wf y = true -> run_ok y l.  It is false of the faithful model
   of the code as repaired by bde0777, 3e7a286, 159ed68; two classes remain: *)

(* two live objects for one entry (here: fetched under both spellings of the key, no namespace and the
   default namespace d): deleting the entry detaches only the object cached for the spelling used, the
   other one raises KeyError (specification: "1") *)
Theorem C11_refuted_second_view : exists y l, sys_wf y = true /\ run_disagrees y l.
Proof.
  exists (init_sys [100%N] [100%N] [([107%N], [49%N])]).
  exists [OGet (APair (Some []) [107%N]); OGet (AStr [107%N]); ODel (AStr [107%N]); OValue 0].
  split; [vm_compute; reflexivity|]. exists 3, (RStr [49%N]), RKeyError. vm_compute.
  repeat split; try reflexivity; discriminate.
Qed.
Print Assumptions C11_refuted_second_view.

(* the store holds BOTH k and {d}k while d is the default namespace in scope - two XML attributes, as in
   <x xmlns="d" xmlns:p="d" k="1" p:k="2"/>, that are presented under the one key (d, k).  Not reachable by
   attribute operations from a well-formed node (sys_wf contains no_double and is preserved, C11_refines),
   but by parsing.  Everything else is well-formed and the operations are inside the guard. *)
Theorem C11_refuted_double : exists y l,
  store_shape (fst y) = true /\ cache_ok (fst y) = true /\ snd y = [] /\ no_double (fst y) = false /\
  run_safe y l = true /\ run_disagrees y l.
Proof.
  exists (init_sys [100%N] [100%N] [([107%N], [49%N]); (123%N :: 100%N :: 125%N :: [107%N], [50%N])]).
  exists [OGet (AStr [107%N]); OValue 0].
  repeat split; try (vm_compute; reflexivity). exists 1, (RStr [49%N]), (RStr [50%N]). vm_compute.
  repeat split; try reflexivity; discriminate.
Qed.
Print Assumptions C11_refuted_double.

(* regression examples: the witnesses of the findings repaired in /repo now agree with the dictionary *)
Example C11_fixed_stale_view :      (* 3e7a286: fetch, re-set, delete, read the object fetched first *)
  let y := init_sys [] [] [] in
  let l := [OSet (AStr [107%N]) [49%N]; OGet (AStr [107%N]); OSet (AStr [107%N]) [50%N]; ODel (AStr [107%N]); OValue 0] in
  sys_wf y = true /\ run_safe y l = true /\ snd (sys_run y l) = [RNone; RObj 0; RNone; RNone; RStr [50%N]].
Proof. vm_compute. repeat split; reflexivity. Qed.
Example C11_fixed_rename_then_delete :   (* 3e7a286: rename through the object, delete the new key *)
  let y := init_sys [] [] [([107%N], [49%N])] in
  let l := [OGet (AStr [107%N]); OSetLocal 0 [106%N]; ODel (AStr [106%N]); OValue 0] in
  sys_wf y = true /\ run_safe y l = true /\ snd (sys_run y l) = [RObj 0; RNone; RNone; RStr [49%N]].
Proof. vm_compute. repeat split; reflexivity. Qed.
Example C11_fixed_alias_rename :    (* 159ed68: attr.namespace = "" under the default namespace d *)
  let y := init_sys [100%N] [100%N] [([107%N], [49%N])] in
  let l := [OGet (AStr [107%N]); OSetNs 0 []; OLen; OValue 0] in
  sys_wf y = true /\ run_safe y l = true /\ snd (sys_run y l) = [RObj 0; RNone; RNat 1; RStr [49%N]].
Proof. vm_compute. repeat split; reflexivity. Qed.
Example C11_fixed_collision_reachable :   (* bde0777: the stored {d}k is reached and overwritten, len stays 1 *)
  let y := init_sys [100%N] [100%N] [(123%N :: 100%N :: 125%N :: [107%N], [48%N])] in
  let l := [ONodeSet (AStr [107%N]) [49%N]; OLen; OIter] in
  sys_wf y = true /\ run_safe y l = true /\ snd (sys_run y l) = [RNone; RNat 1; RKeys [([100%N], [107%N])]].
Proof. vm_compute. repeat split; reflexivity. Qed.
Example C11_fixed_collision_no_namespace :   (* badd57c: ... and also under the spelling ("", k) *)
  let y := init_sys [100%N] [100%N] [(123%N :: 100%N :: 125%N :: [107%N], [48%N])] in
  let l := [OContains (APair (Some []) [107%N]); OSet (APair (Some []) [107%N]) [49%N]; OLen; OGet (AStr [107%N]); OValue 0] in
  sys_wf y = true /\ run_safe y l = true /\ snd (sys_run y l) = [RBool true; RNone; RNat 1; RObj 0; RStr [49%N]].
Proof. vm_compute. repeat split; reflexivity. Qed.

Theorem C11_refuted_means_not_ok : forall y l, run_disagrees y l -> ~ run_ok y l.
Proof. exact disagrees_not_ok. Qed.
Print Assumptions C11_refuted_means_not_ok.

(* a local name, a Clark-notation name and a (namespace, name) pair that denote the same attribute are
   resolved to the same qualified name, and every operation depends on the accessor only through it *)
Theorem C11_accessors : forall s ns name,
  plain ns = true ->
  resolve s (AStr (LBRACE :: ns ++ RBRACE :: name)) = Ok (ns, name) /\
  resolve s (APair (Some ns) name) = Ok (ns, name) /\
  (plain name = true ->
   resolve s (AStr name) = Ok (st_node_ns s, name) /\ resolve s (APair None name) = Ok (st_node_ns s, name)).
Proof. exact accessors_same. Qed.
Print Assumptions C11_accessors.

Theorem C11_accessors_ops : forall s a1 a2,
  resolve s a1 = resolve s a2 ->
  astep s (OGet a1) = astep s (OGet a2) /\ (forall v, astep s (OSet a1 v) = astep s (OSet a2 v)) /\
  astep s (ODel a1) = astep s (ODel a2) /\ astep s (OContains a1) = astep s (OContains a2) /\
  astep s (OPop a1) = astep s (OPop a2) /\
  astep s (ONodeGet a1) = astep s (ONodeGet a2) /\ (forall v, astep s (ONodeSet a1 v) = astep s (ONodeSet a2 v)) /\
  astep s (ONodeDel a1) = astep s (ONodeDel a2) /\ astep s (ONodeContains a1) = astep s (ONodeContains a2).
Proof. exact astep_resolve. Qed.
Print Assumptions C11_accessors_ops.

(* and "no namespace" / "the default namespace in scope" reach the same store entry *)
Theorem C11_accessors_default_ns : forall dns st name,
  plain dns = true -> SWf dns st -> plain name = true ->
  etree_key dns st ([], name) = etree_key dns st (dns, name).
Proof. exact alias_same_entry. Qed.
Print Assumptions C11_accessors_default_ns.

(* An attribute object obtained earlier is a live view; renaming moves the entry; once removed it keeps its
   last value.  This is what the specification says about views (i = the client's i-th object) ... *)
Theorem C11_views_spec : forall d i k v,
  nth_error (d_views d) i = Some (VLive k) ->
  (* a change through the node shows in the object, a change through the object shows in the node *)
  (forall h, snd (dict_step (with_dict d (dset (d_dict d) k v)) (OValue i) h) = RStr v) /\
  (forall h, dict_step d (OSetValue i v) h = (with_dict d (dset (d_dict d) k v), RNone)) /\
  (dget (d_dict d) k = Some v -> NoDup (map fst (d_dict d)) ->
   (* removal: the entry is gone, the object keeps the last value and stays assignable *)
   (let d' := fst (d_del d k) in
    dget (d_dict d') k = None /\ nth_error (d_views d') i = Some (VDead v) /\
    (forall h, snd (dict_step d' (OValue i) h) = RStr v) /\
    (forall h w, snd (dict_step (fst (dict_step d' (OSetValue i w) h)) (OValue i) h) = RStr w)) /\
   (* renaming: the entry moves with its value, the object views the new entry *)
   (forall k', k <> k' ->
    let d' := fst (d_rename d i k k') in
    dget (d_dict d') k' = Some v /\ dget (d_dict d') k = None /\ nth_error (d_views d') i = Some (VLive k') /\
    (forall h, snd (dict_step d' (OValue i) h) = RStr v))).
Proof.
  intros d i k v Hi. split; [intros h; exact (spec_view_reads_node d i k v h Hi)|].
  split; [intros h; exact (spec_view_writes_node d i k v h Hi)|].
  intros Hv ND. split; [exact (spec_view_removed d i k v Hi Hv ND)|].
  intros k' Hne. exact (spec_view_renamed d i k k' v Hi Hv ND Hne).
Qed.
Print Assumptions C11_views_spec.

(* ... and the model inherits it on every guarded run by C11_refines_run; spelled out for the case the
   tests cannot enumerate (DESIGN finding 23, repaired by 3e7a286 for a single view per entry): inside the guard, a held object whose entry is deleted
   through any accessor answers with the entry's last value *)
Theorem C11_views : forall y a i k v,
  sys_wf y = true -> step_safe y (ODel a) = true -> acc_key (abs_sys y) a = Some k ->
  nth_error (d_views (abs_sys y)) i = Some (VLive k) -> dget (d_dict (abs_sys y)) k = Some v ->
  snd (sys_run y [ODel a; OValue i]) = [RNone; RStr v].
Proof. exact view_keeps_value. Qed.
Print Assumptions C11_views.

(* ... renaming through the held object (local_name / namespace assignment): the entry moves with its value,
   the object is a view of the new entry and reads its value *)
Theorem C11_views_rename_local : forall y i k v n,
  sys_wf y = true -> step_safe y (OSetLocal i n) = true ->
  nth_error (d_views (abs_sys y)) i = Some (VLive k) -> dget (d_dict (abs_sys y)) k = Some v -> k <> (fst k, n) ->
  let y1 := fst (sys_step y (OSetLocal i n)) in
  snd (sys_step y (OSetLocal i n)) = RNone /\
  dget (d_dict (abs_sys y1)) (fst k, n) = Some v /\ dget (d_dict (abs_sys y1)) k = None /\
  nth_error (d_views (abs_sys y1)) i = Some (VLive (fst k, n)) /\
  snd (sys_step y1 (OValue i)) = RStr v.
Proof. exact view_renamed_local. Qed.
Print Assumptions C11_views_rename_local.

Theorem C11_views_rename_ns : forall y i k v ns,
  sys_wf y = true -> step_safe y (OSetNs i ns) = true ->
  nth_error (d_views (abs_sys y)) i = Some (VLive k) -> dget (d_dict (abs_sys y)) k = Some v ->
  k <> norm (d_dns (abs_sys y)) (ns, snd k) ->
  let k' := norm (d_dns (abs_sys y)) (ns, snd k) in
  let y1 := fst (sys_step y (OSetNs i ns)) in
  snd (sys_step y (OSetNs i ns)) = RNone /\
  dget (d_dict (abs_sys y1)) k' = Some v /\ dget (d_dict (abs_sys y1)) k = None /\
  nth_error (d_views (abs_sys y1)) i = Some (VLive k') /\
  snd (sys_step y1 (OValue i)) = RStr v.
Proof. exact view_renamed_ns. Qed.
Print Assumptions C11_views_rename_ns.

(* ... a value written through the mapping (any accessor of the entry) is read through the held object,
   and a value written through the object is the node's value *)
Theorem C11_views_write : forall y a i k v',
  sys_wf y = true -> step_safe y (OSet a v') = true -> acc_key (abs_sys y) a = Some k ->
  nth_error (d_views (abs_sys y)) i = Some (VLive k) ->
  snd (sys_run y [OSet a v'; OValue i]) = [RNone; RStr v'].
Proof. exact view_reads_write. Qed.
Print Assumptions C11_views_write.

Theorem C11_views_write_through : forall y i k v',
  sys_wf y = true -> nth_error (d_views (abs_sys y)) i = Some (VLive k) ->
  let y1 := fst (sys_step y (OSetValue i v')) in
  snd (sys_step y (OSetValue i v')) = RNone /\ dget (d_dict (abs_sys y1)) k = Some v' /\
  snd (sys_step y1 (OValue i)) = RStr v'.
Proof. exact view_write_shows. Qed.
Print Assumptions C11_views_write_through.

(* TagAttributes.__eq__ (equal sizes, then every item of self has its key among other's keys and is found
   in other with an equal value) is equality of the two dictionaries, whatever the two default namespaces *)
Theorem C11_eq : forall s1 s2,
  sys_wf (s1, []) = true -> sys_wf (s2, []) = true ->
  exists b, attrs_eq s1 s2 = RBool b /\
            (b = true <-> dict_equiv (abs_store (st_dns s1) (st_store s1)) (abs_store (st_dns s2) (st_store s2))).
Proof. exact attrs_eq_dict. Qed.
Print Assumptions C11_eq.

Example C11_fixed_eq_default_ns :   (* bed1ba7: <a k="v"/> vs <a xmlns="d" k="v"/> are no longer equal *)
  attrs_eq (init_state [] [] [([107%N], [118%N])]) (init_state [100%N] [100%N] [([107%N], [118%N])]) = RBool false.
Proof. vm_compute. reflexivity. Qed.

(* non-vacuity: a well-formed node under a default namespace, a 13-step run inside the guards that sets,
   fetches, writes through an object, renames it, deletes, reads the removed object and pops *)
Example C11_example :
  let y := init_sys [100%N] [100%N] [([107%N], [48%N])] in
  let ej := APair (Some [101%N]) [106%N] in
  let l := [OGet (AStr [107%N]); OSet ej [49%N]; OSetValue 0 [50%N];
            OValue 0; OSetLocal 0 [104%N]; OContains (AStr [107%N]); OGet (AStr (123%N :: 101%N :: 125%N :: [106%N]));
            OValue 1; OIter; ODel ej; OValue 1; OSet (AStr [107%N]) [51%N]; OPop (APair None [107%N])] in
  sys_wf y = true /\ run_safe y l = true /\
  snd (sys_run y l) = [RObj 0; RNone; RNone; RStr [50%N]; RNone; RBool false; RObj 1; RStr [49%N];
                       RKeys [([101%N], [106%N]); ([100%N], [104%N])]; RNone; RStr [49%N]; RNone; RObj 2].
Proof. vm_compute. repeat split; reflexivity. Qed.
