(* C11 - attributes behave as a mapping keyed by namespace and local name.  (statements follow) *)
From Coq Require Import List NArith Bool.
From Delb.Base Require Import PyStr PySplit.
From Delb.Gen Require Import GenAttr.
From Delb.Attr Require Import AttrModel AttrEnc.
Import ListNotations.
