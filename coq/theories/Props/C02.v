(* C02 - serialize then parse gives back the same document model.
   Statements only; proofs are in Xml/RoundTrip.v (and Ns/PrefixFacts.v for the prefix table).

   Model: Xml/Plain.v `serialize caller ord t` (prefix collection of C13, then the plain serializer over the
   generated escape tables; byte-for-byte equal to TagNode.serialize(namespaces=...) on every run of the check).
   Reader: Xml/Reader.v `parse` (lexer with fuel, recursive descent with fuel over the tokens, namespaces resolved
   while descending; compared with lxml on serializer output and on mutated input on every run of the check).
   Names are compared as delb presents them (an un-prefixed attribute belongs to the default namespace in scope).

   TARGET (the full property; NOT closed in this development, see "missing" below):

     Theorem C02_roundtrip : forall t caller ord,
       wf_tree t -> valid_caller caller -> caller_prefixes_colon_free caller -> order_ok (bfs_of t) ord ->
       (N.of_nat (n_namespaces t + length caller + 17) < 2 ^ 16)%N ->
       reparse (serialize caller ord t) = Some (merge_tree t).

   with wf_tree = what the API guarantees (element / attribute local names and PI targets are NCNames other than
   "xmlns" / "xml", no name in the xmlns namespace, attributes sorted by (namespace, local name) and distinct,
   comment content passes CommentNode._validate_content, PI content without "?>", characters are XML Chars)
   plus the property's exclusions (no CR in text / comments / PIs, no TAB LF CR in attribute values) plus the
   guards of the open findings (no empty text node, PI content not starting with white space, namespace names
   free of & < > and the double quote).

   PROVED here, for all inputs of the stated kind (no bound on size or depth):
     1. C02_unescape_escape_text / _attr   escaping with the generated tables is undone by the reader's unescape.
     2. C02_lex_render        the lexer reads back ANY well-formed token stream in the serializer's canonical
                              spelling (start / empty / end tags with any number of attributes, text, comments,
                              PIs), fuel = length + 1 proved sufficient (stages 1 and 2 of the plan at the
                              character level).
     3. C02_read_kids_toks    the recursive descent gives back the children of any tree from its token stream,
                              fuel proved sufficient, provided every element "resolves" (Xml/Tokens.v: its
                              start tag opens without changing the environment and its names resolve to the
                              tree's expanded names).
     4. C02_parse_render_toks the composition parse (render_toks (toks_node pm t)) = Some (merge_tree t) for a
                              tree whose elements resolve in the initial environment, i.e. a document that needs
                              no declarations (elements and attributes in no namespace or in the xml namespace).
     5. From C13 (Props/C13.v): collect succeeds and the prefix table is a function, injective, keeps "" un-prefixed,
        leaves xml/xmlns alone, and own attributes never read as declarations.
   MISSING (stated, not proved):
     a. render_root pm t = render_toks (toks_root pm t): the dict built by _generate_attributes_data equals the
        list of (qualified name, value) pairs (needs: qualified names of distinct attributes are distinct, which
        follows from prefix_shape + split_colon + injectivity in Ns/PrefixFacts.v), and namespace names are
        written raw (equal to their escaped form under the guard of finding C02-namespace-uri-not-escaped).
     b. tok_ok for the tokens of a wf_tree (names are Names, characters are Chars: a per-node unfolding).
     c. stage 3: `resolves` for every element under the environment made from declared_attributes pm, from the
        clauses of C13 (c_covers, c_injective, c_empty, c_xml, prefix_shape) - the converse characterisation of
        declared_attributes (every table entry is declared) is not proved.
     d. merge: render pm t = render pm (merge_tree t) and wf_tree preserved by merge_tree, to pass from clean
        trees to trees with adjacent text nodes.
   The instances below (by computation) exercise the whole chain including a-d on concrete documents. *)
From Coq Require Import List NArith Bool.
From Delb.Base Require Import PyStr PyDict.
From Delb.Gen Require Import GenNames GenNs.
From Delb.Tree Require Import ATree Merge.
From Delb.Ns Require Import Namespaces Prefixes.
From Delb.Xml Require Import Plain Reader Tokens RoundTrip.
Import ListNotations.

Theorem C02_unescape_escape_text : forall s, Forall text_char_ok s -> unescape false (escape_text s) = Some s.
Proof. exact unescape_escape_text. Qed.
Print Assumptions C02_unescape_escape_text.

Theorem C02_unescape_escape_attr : forall s, Forall attr_char_ok s -> unescape true (escape_attr s) = Some s.
Proof. exact unescape_escape_attr. Qed.
Print Assumptions C02_unescape_escape_attr.

Theorem C02_lex_render : forall toks fuel,
  Forall tok_ok toks -> no_adj_ttext toks -> length toks < fuel -> lex fuel (render_toks toks) = Some toks.
Proof. exact lex_render. Qed.
Print Assumptions C02_lex_render.

Theorem C02_read_kids_toks : forall e pm fuel ks rest,
  all_resolve e pm ks -> tail_ok rest -> length (toks_kids pm ks) < fuel ->
  read_kids fuel e (toks_kids pm ks ++ rest) = Some (ks, rest).
Proof. exact read_kids_toks. Qed.
Print Assumptions C02_read_kids_toks.

Theorem C02_parse_render_toks : forall pm t,
  is_tag t = true -> resolves initial_env pm t ->
  Forall tok_ok (toks_node pm t) -> no_adj_ttext (toks_node pm t) ->
  parse (render_toks (toks_node pm t)) = Some (merge_tree t).
Proof. exact parse_render_toks. Qed.
Print Assumptions C02_parse_render_toks.

(* ---- instances of the target statement, by computation ---------------------------------------------------
   default namespace given by the caller, an un-namespaced child (forces the redeclaration), a caller prefix, a
   generated prefix, the xml namespace, every special character, a comment, a PI, adjacent text nodes *)
Definition c02_example_tree : node :=
  Tag [117; 49]%N [114%N] [(xml_ns, [108; 97; 110; 103]%N, [101; 110]%N)]
    [Text [97; 38; 60; 62; 34; 39; 93; 93; 62; 252; 8364]%N; Text [98%N];
     Tag [] [97%N] [([], [106%N], [39; 38]%N); ([117; 50]%N, [107%N], [118; 34; 60; 62]%N)] [];
     Comment [32; 99; 32; 60; 38]%N; PI [116%N] [112; 32; 63]%N;
     Tag [117; 51]%N [98%N] [] [Text [120%N]]].
Definition c02_example_caller : caller_map := [(None, [117; 49]%N); (Some [112%N], [117; 50]%N)].
Example C02_example :
  reparse (serialize c02_example_caller (default_order (bfs_of c02_example_tree)) c02_example_tree)
  = Some (merge_tree c02_example_tree).
Proof. vm_compute. reflexivity. Qed.
Example C02_example_no_namespaces :
  let t := Tag [] [114%N] [([], [107%N], [38; 34]%N)] [Text [60%N]; Tag [] [97%N] [] []; Text [62%N]] in
  reparse (serialize [] (default_order (bfs_of t)) t) = Some (merge_tree t).
Proof. vm_compute. reflexivity. Qed.

(* ---- the open findings: the target statement is false without their guards ------------------------------- *)
(* regression (C02-empty-text-node, fixed by bfce419): an empty text node is written as nothing *)
Example C02_regression_empty_text :
  let t := Tag [] [114%N] [] [Text []; Text [97%N]] in
  reparse (serialize [] (default_order (bfs_of t)) t) = Some (merge_tree t).
Proof. vm_compute. reflexivity. Qed.

(* C02-pi-content-leading-whitespace: <?t  x?> is read back with content "x" *)
Theorem C02_pi_leading_whitespace_refuted : exists t t',
  reparse (serialize [] (default_order (bfs_of t)) t) = Some t' /\ t' <> merge_tree t.
Proof.
  exists (Tag [] [114%N] [] [PI [116%N] [32; 120]%N]). eexists. split; [vm_compute; reflexivity|].
  vm_compute. intros H. discriminate H.
Qed.
Print Assumptions C02_pi_leading_whitespace_refuted.

(* regression (C02-namespace-uri-not-escaped, fixed by d973cc6): the namespace a&b is escaped in the declaration *)
Example C02_regression_namespace_uri :
  let t := Tag [97; 38; 98]%N [114%N] [([97; 38; 98]%N, [107%N], [118%N])] [] in
  reparse (serialize [] (default_order (bfs_of t)) t) = Some (merge_tree t).
Proof. vm_compute. reflexivity. Qed.

(* C02-attribute-named-xmlns: the attribute is read back as a default namespace declaration *)
Theorem C02_attribute_named_xmlns_refuted : exists t t',
  reparse (serialize [] (default_order (bfs_of t)) t) = Some t' /\ t' <> merge_tree t.
Proof.
  exists (Tag [] [114%N] [([], XMLNS_, [117; 57]%N)] [Tag [] [97%N] [] []]). eexists. split; [vm_compute; reflexivity|].
  vm_compute. intros H. discriminate H.
Qed.
Print Assumptions C02_attribute_named_xmlns_refuted.
