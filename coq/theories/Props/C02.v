(* placeholder while the model is validated *)
From Delb.Xml Require Import Plain Reader.
