(* C02 - serialize then parse gives back the same document model.
   Statements only; proofs are in Xml/RoundTrip.v (and Ns/PrefixFacts.v for the prefix table).

   Model: Xml/Plain.v `serialize caller ord t` (prefix collection of C13, then the plain serializer over the
   generated escape tables; byte-for-byte equal to TagNode.serialize(namespaces=...) on every run of the check).
   Reader: Xml/Reader.v `parse` (lexer with fuel, recursive descent with fuel over the tokens, namespaces resolved
   while descending; compared with lxml on serializer output and on mutated input on every run of the check).
   Names are compared as delb presents them (an un-prefixed attribute belongs to the default namespace in scope).

   PROVED (closed under the global context, no bound on size or depth):

     Theorem C02_roundtrip : forall t caller ord,
       wf_tree t -> valid_caller caller -> caller_prefixes_ncname caller ->
       order_ok (bfs_of t) ord -> (N.of_nat (n_namespaces t + length caller + 17) < 2 ^ 16)%N ->
       reparse (serialize caller ord t) = Some (merge_tree t).

   wf_tree (Xml/Tokens.v) = what the API guarantees (element / attribute local names and PI targets are NCNames,
   attributes listed in the serializer's order with distinct expanded names, comment content passes
   CommentNode._validate_content, PI content without "?>", target not "xml", characters are XML Chars)
   plus the property's exclusions (no CR in text / comments / PIs, no TAB LF CR in attribute values and
   namespace names).  Attribute names and PI content are what the GENERATED validators TagAttributes._validate_name
   and ProcessingInstructionNode._validate_content let through (Gen/GenNsValidators.v, regenerated from the source on
   every run; RoundTrip.attr_validator_ok / pi_validator_ok derive what the proof uses), comment content what the
   generated CommentNode._validate_content lets through.  One guard of an OPEN finding remains: no element in the
   xmlns namespace (C02-element-in-xmlns-namespace).  caller_prefixes_ncname: the caller's prefixes are NCNames (the code does
   not check it; a prefix with a colon or a space gives output that is not XML).
   Empty and adjacent text nodes are covered (Xml/EmptyTrip.v): an element whose only children are empty text
   nodes is written <r></r>, read as a childless element, which is what merge_tree makes of it.

   How it is put together:
     1. C02_unescape_escape_text / _attr   escaping with the generated tables is undone by the reader's unescape.
     2. C02_lex_render        the lexer reads back any well-formed token stream in the serializer's spelling,
                              fuel = length + 1 proved sufficient.
     3. C02_read_kids_toks    the recursive descent gives back the children of any tree from its token stream
                              when every element resolves; fuel proved sufficient.
     4. Xml/RoundTrip.v render_root_toks: the serializer's output IS the canonical spelling of the tree's token
        stream (the dict of _generate_attributes_data equals the list of (qualified name, value) pairs).
     5. Xml/NsResolve.v: what serialize_root declares exactly (decl_sound / decl_complete_* / decl_keys_NoDup),
        the environment the reader builds from it, env_lookup / resolve_qname: every written name resolves to
        the tree's expanded name (from the C13 clauses: function, injective, empty namespace un-prefixed,
        xml/xmlns untouched, prefix shapes); wf_resolves, wf_root_toks_ok.
     6. Xml/EmptyTrip.v: the token stream the lexer produces for ANY tree described structurally (adjacent texts
        accumulate, an empty accumulation gives no token, <q></q> exactly when the element has children), and
        steps 2-4 re-proved for it: read_kids_toksN builds merge_tree.  (Xml/MergeTrip.v, the earlier route via
        invariance under merge_tree for trees without empty text nodes, is kept: C02_roundtrip_clean.)
   The reader itself is tied to lxml by the check (outputs and mutated streams), the serializer model to
   TagNode.serialize byte for byte. *)
From Coq Require Import List NArith Bool.
From Delb.Base Require Import PyStr PyDict.
From Delb.Gen Require Import GenNames GenNs GenNsValidators.
From Delb.Tree Require Import ATree Merge MergeFacts.
From Delb.Ns Require Import Namespaces Prefixes PrefixFacts.
From Delb.Xml Require Import Plain Reader Tokens RoundTrip NsResolve MergeTrip EmptyTrip.
Import ListNotations.

Theorem C02_unescape_escape_text : forall s, Forall text_char_ok s -> unescape false (escape_text s) = Some s.
Proof. exact unescape_escape_text. Qed.
Print Assumptions C02_unescape_escape_text.

Theorem C02_unescape_escape_attr : forall s, Forall attr_char_ok s -> unescape true (escape_attr s) = Some s.
Proof. exact unescape_escape_attr. Qed.
Print Assumptions C02_unescape_escape_attr.

Theorem C02_lex_render : forall toks fuel,
  Forall tok_ok toks -> no_adj_ttext toks -> length toks < fuel -> lex fuel (render_toks toks) = Some toks.
Proof. exact lex_render. Qed.
Print Assumptions C02_lex_render.

Theorem C02_read_kids_toks : forall e pm fuel ks rest,
  all_resolve e pm ks -> tail_ok rest -> length (toks_kids pm ks) < fuel ->
  read_kids fuel e (toks_kids pm ks ++ rest) = Some (ks, rest).
Proof. exact read_kids_toks. Qed.
Print Assumptions C02_read_kids_toks.

Theorem C02_parse_render_toks : forall pm t,
  is_tag t = true -> resolves initial_env pm t ->
  Forall tok_ok (toks_node pm t) -> no_adj_ttext (toks_node pm t) ->
  parse (render_toks (toks_node pm t)) = Some (merge_tree t).
Proof. exact parse_render_toks. Qed.
Print Assumptions C02_parse_render_toks.

(* THE ROUND TRIP, for every well-formed tree (adjacent and empty text nodes included: the reader gives back
   merge_tree t), every caller mapping the Namespaces constructor accepts whose prefixes are NCNames, every
   per-node iteration order, fewer than 2^16 namespaces and mapping entries: serialization succeeds and the
   reference reader gives back the tree. *)
Theorem C02_roundtrip : forall t caller ord,
  wf_tree t -> valid_caller caller -> caller_prefixes_ncname caller ->
  order_ok (bfs_of t) ord -> (N.of_nat (n_namespaces t + length caller + 17) < 2 ^ 16)%N ->
  reparse (serialize caller ord t) = Some (merge_tree t).
Proof. exact roundtrip_all. Qed.
Print Assumptions C02_roundtrip.

(* the same for clean trees (no adjacent, no empty text nodes: what every parser produces), where merge_tree t = t *)
Theorem C02_roundtrip_clean : forall t caller ord,
  wf_tree t -> clean t = true -> valid_caller caller -> caller_prefixes_ncname caller ->
  order_ok (bfs_of t) ord -> (N.of_nat (n_namespaces t + length caller + 17) < 2 ^ 16)%N ->
  reparse (serialize caller ord t) = Some t.
Proof.
  intros t caller ord H1 H2 H3 H4 H5 H6. rewrite <- (MergeFacts.merge_id t H2) at 2.
  exact (roundtrip_clean t caller ord H1 H2 H3 H4 H5 H6).
Qed.
Print Assumptions C02_roundtrip_clean.

(* trees without namespaces, any caller mapping: an instance (the namespace stage is part of the proof, not a
   hypothesis) *)
Theorem C02_roundtrip_nons : forall t caller,
  wf_tree t -> valid_caller caller -> caller_prefixes_ncname caller ->
  (N.of_nat (n_namespaces t + length caller + 17) < 2 ^ 16)%N ->
  reparse (serialize caller (default_order (bfs_of t)) t) = Some (merge_tree t).
Proof.
  intros t caller H1 H3 H4 H5.
  exact (roundtrip_all t caller _ H1 H3 H4 (PrefixFacts.default_order_ok (bfs_of t)) H5).
Qed.
Print Assumptions C02_roundtrip_nons.

(* ---- instances of the target statement, by computation ---------------------------------------------------
   default namespace given by the caller, an un-namespaced child (forces the redeclaration), a caller prefix, a
   generated prefix, the xml namespace, every special character, a comment, a PI, adjacent text nodes *)
Definition c02_example_tree : node :=
  Tag [117; 49]%N [114%N] [(xml_ns, [108; 97; 110; 103]%N, [101; 110]%N)]
    [Text [97; 38; 60; 62; 34; 39; 93; 93; 62; 252; 8364]%N; Text [98%N];
     Tag [] [97%N] [([], [106%N], [39; 38]%N); ([117; 50]%N, [107%N], [118; 34; 60; 62]%N)] [];
     Comment [32; 99; 32; 60; 38]%N; PI [116%N] [112; 32; 63]%N;
     Tag [117; 51]%N [98%N] [] [Text [120%N]]].
Definition c02_example_caller : caller_map := [(None, [117; 49]%N); (Some [112%N], [117; 50]%N)].
Example C02_example :
  reparse (serialize c02_example_caller (default_order (bfs_of c02_example_tree)) c02_example_tree)
  = Some (merge_tree c02_example_tree).
Proof. vm_compute. reflexivity. Qed.
(* the hypotheses of C02_roundtrip hold of that document and mapping (non-vacuity) *)
Example C02_example_hypotheses :
  wf_tree c02_example_tree /\ valid_caller c02_example_caller
  /\ caller_prefixes_ncname c02_example_caller
  /\ (N.of_nat (n_namespaces c02_example_tree + length c02_example_caller + 17) < 2 ^ 16)%N.
Proof.
  split.
  { split; [reflexivity|]. cbn [wf_node c02_example_tree]. unfold uri_ok, attr_wf, text_char_ok, attr_char_ok.
    repeat (split || constructor); try reflexivity; try discriminate. }
  split.
  { split; [repeat constructor; cbn; intuition discriminate|]. eexists. vm_compute. reflexivity. }
  split; [|vm_compute; reflexivity].
  intros p n [H|[H|[]]]; [discriminate H|]. injection H as <- <-. right. reflexivity.
Qed.
Example C02_example_no_namespaces :
  let t := Tag [] [114%N] [([], [107%N], [38; 34]%N)] [Text [60%N]; Tag [] [97%N] [] []; Text [62%N]] in
  reparse (serialize [] (default_order (bfs_of t)) t) = Some (merge_tree t).
Proof. vm_compute. reflexivity. Qed.

(* ---- the open findings: the target statement is false without their guards ------------------------------- *)
(* regression (C02-empty-text-node, fixed by bfce419): an empty text node is written as nothing *)
Example C02_regression_empty_text :
  let t := Tag [] [114%N] [] [Text []; Text [97%N]] in
  reparse (serialize [] (default_order (bfs_of t)) t) = Some (merge_tree t).
Proof. vm_compute. reflexivity. Qed.

(* regression (C02-pi-content-leading-whitespace, fixed: ProcessingInstructionNode._validate_content): the generated
   validator refuses the witness, and the refusal is needed - the serializer model reads <?t  x?> back with "x" *)
Example C02_regression_pi_leading_whitespace :
  pi_content_refused [32; 120]%N = true /\ pi_content_refused [10]%N = true /\ pi_content_refused [120; 32]%N = false
  /\ exists t t', reparse (serialize [] (default_order (bfs_of t)) t) = Some t' /\ t' <> merge_tree t.
Proof.
  repeat (split; [reflexivity|]).
  exists (Tag [] [114%N] [] [PI [116%N] [32; 120]%N]). eexists. split; [vm_compute; reflexivity|].
  vm_compute. intros H. discriminate H.
Qed.

(* regression (C02-namespace-uri-not-escaped, fixed by d973cc6): the namespace a&b is escaped in the declaration *)
Example C02_regression_namespace_uri :
  let t := Tag [97; 38; 98]%N [114%N] [([97; 38; 98]%N, [107%N], [118%N])] [] in
  reparse (serialize [] (default_order (bfs_of t)) t) = Some (merge_tree t).
Proof. vm_compute. reflexivity. Qed.

(* regression (C02-attribute-named-xmlns, fixed: TagAttributes._validate_name): the generated validator refuses the
   name in every namespace and every name in the xmlns namespace, and the refusal is needed - the attribute is read
   back as a default namespace declaration *)
Example C02_regression_attribute_named_xmlns :
  attribute_name_refused [] XMLNS_ = true /\ attribute_name_refused [117%N] XMLNS_ = true
  /\ attribute_name_refused xmlns_ns [107%N] = true /\ attribute_name_refused [] [107%N] = false
  /\ exists t t', reparse (serialize [] (default_order (bfs_of t)) t) = Some t' /\ t' <> merge_tree t.
Proof.
  repeat (split; [reflexivity|]).
  exists (Tag [] [114%N] [([], XMLNS_, [117; 57]%N)] [Tag [] [97%N] [] []]). eexists. split; [vm_compute; reflexivity|].
  vm_compute. intros H. discriminate H.
Qed.
