(* C04 - garbage collection timing never changes what a program observes.  PARTIAL.
   Statements only; proofs are `exact` of lemmas in Misc/GCFacts.v.

   Proved: the logic of _WrapperCache.__gc_callback__ (as of /repo e92425d) for collections placed at quiescent points
   (between API calls), over the reference graph of Misc/GC.v with *derived* reference counts and the
   code's thresholds.  Not proved (exercised by harness/props/c04.py only): collections that fire
   inside library calls, CPython's actual reference counts, when the collector runs. *)
From Coq Require Import String List NArith Bool Arith.
From Delb.Base Require Import PyStr.
From Delb.Gen Require Import GenGC.
From Delb.Misc Require Import GC GCFacts GCEdits GCEditsFacts.
Import ListNotations.

(* the content of every tree stays the same *)
Theorem C04_content : forall w w', gc_step w = Some w' -> content w' = content w.
Proof. exact content_unchanged. Qed.
Print Assumptions C04_content.

(* ... and the callback does not raise unless some head text node is empty with a chain behind it *)
Theorem C04_no_exception_partial : forall w, slots_guard w = true -> exists w', gc_step w = Some w'.
Proof. exact gc_step_total. Qed.
Print Assumptions C04_no_exception_partial.
(* full statement: forall w, exists w', gc_step w = Some w'.  False (finding 16): *)
Theorem C04_no_exception_refuted : exists w, gc_step w = None.
Proof.
  exists (mk_world [mk_entry 0 None None (Some (mk_wrapper 1 true None 10 [mk_tobj 20 [98%N]] 11 []))] 0 []).
  vm_compute. reflexivity.
Qed.
Print Assumptions C04_no_exception_refuted.

(* once a program drops all its references a collection leaves no cached node objects behind *)
Theorem C04_release : forall w w', held w = [] -> locks w = 0 -> gc_step w = Some w' -> cache_size w' = 0.
Proof. exact release_empties. Qed.
Print Assumptions C04_release.

(* every node object the program still references remains the object navigation returns for its
   position (unconditional since /repo e92425d: a referenced head text object keeps its wrapper) *)
Theorem C04_identity : forall w w', gc_step w = Some w' ->
  Forall2 (fun e e' => e_id e' = e_id e /\
                       forall wh o, In o (held w) -> obj_at e wh = Some o -> obj_at e' wh = Some o) (ents w) (ents w').
Proof. exact identity_kept. Qed.
Print Assumptions C04_identity.

(* edits made through a referenced text node take effect in the tree *)
Theorem C04_edit : forall w w' o n, gc_step w = Some w' -> In o (held w) ->
  content (append_after o n w') = content (append_after o n w).
Proof. exact edits_take_effect. Qed.
Print Assumptions C04_edit.

(* the same for every modelled edit through a held text object o (GCEdits.edit): text added after o,
   text added before o, content assigned through o, o detached, an ELEMENT added after o (the rest of
   o's chain becomes the new element's tail) - each takes effect in the tree exactly as it would have
   without the collection placed before it *)
Theorem C04_edit_any : forall w w' ed, gc_step w = Some w' -> In (edit_obj ed) (held w) ->
  content (apply_world ed w') = content (apply_world ed w).
Proof. exact edit_after_collection. Qed.
Print Assumptions C04_edit_any.

(* any placement of collections: for every history of modelled edits through held text objects with
   collections interleaved anywhere, any number of times, the final content is the content of the
   same history without collections (run_sched = Some ..: no exception escaped a collection) *)
Theorem C04_schedule : forall h w wf,
  (forall ed, In (Do ed) h -> In (edit_obj ed) (held w)) ->
  run_sched h w = Some wf -> content wf = content (run_plain h w).
Proof. exact schedule_content. Qed.
Print Assumptions C04_schedule.

(* the lock: while some function is inside `with _wrapper_cache:` a collection is the identity *)
Theorem C04_locked : forall w, locks w <> 0 -> gc_step w = Some w.
Proof. exact locked_is_identity. Qed.
Print Assumptions C04_locked.

(* generated from the source on this run (Gen/GenGC.v): the constants of the callback are the numbers of
   internal references of the object graph (a changed constant breaks this lemma by computation), and
   the functions the property names take the lock *)
Lemma C04_constants : node_base = 4 /\ doc_base = 4 /\ app_base = 3 /\ head_base = 3.
Proof. exact gc_constants. Qed.
Lemma C04_lock_takers :
  forallb (fun n => existsb (String.eqb n) lock_takers)
    ["NodeBase.serialize"; "TagNode.serialize"; "TagNode.merge_text_nodes"; "TagNode._reduce_whitespace";
     "Document.__serialize"]%string = true.
Proof. vm_compute. reflexivity. Qed.

(* REGRESSION example (finding C04-held-head-text, fixed by e92425d): parse <root><a/>tail</root>, hold
   only root[1] (the tail text of <a>), collect.  The rule before the fix (keep_old, which never looked
   at head text objects) evicts the wrapper of <a>; the current rule keeps it, the held object stays
   the one navigation returns and "X" appended through it reaches the tree. *)
Definition witness7 : world :=
  mk_world [ mk_entry 0 None None (Some (mk_wrapper 1 true (Some 100) 10 [] 11 []));
             mk_entry 1 None (Some [116; 97; 105; 108]%N) (Some (mk_wrapper 2 true None 12 [] 13 [])) ] 0 [13].
Example C04_identity_regression :
  let a := mk_wrapper 2 true None 12 [] 13 [] in
  keep_old witness7 a = false /\ keep witness7 a = true /\
  enc_survivors (gc_step witness7) = [1; 1]%N /\
  option_map (fun w' => map (fun e => obj_at e WTailHead) (ents w')) (gc_step witness7) = Some [None; Some 13] /\
  option_map (fun w' => content (append_after 13 (mk_tobj 99 [88%N]) w')) (gc_step witness7)
    = Some (content (append_after 13 (mk_tobj 99 [88%N]) witness7)).
Proof. vm_compute. repeat split. Qed.

(* adjacent text nodes are coalesced only when the program holds no reference to them: a held appended
   text object keeps its place in its chain *)
Theorem C04_coalesce : forall w w', gc_step w = Some w' ->
  Forall2 (fun e e' => forall k o, In o (held w) ->
     (obj_at e (WDataApp k) = Some o -> obj_at e' (WDataApp k) = Some o) /\
     (obj_at e (WTailApp k) = Some o -> obj_at e' (WTailApp k) = Some o)) (ents w) (ents w').
Proof. exact coalesce_only_unheld. Qed.
Print Assumptions C04_coalesce.

(* non-vacuity: a world with chains where the guard holds, one wrapper survives through a held
   appended text object, one through the held document, one is evicted and its chain merged *)
Example C04_example :
  let w := mk_world [ mk_entry 0 (Some [97%N]) None (Some (mk_wrapper 1 true (Some 100) 10 [mk_tobj 20 [43%N]] 11 []));
                      mk_entry 1 None (Some [98%N]) (Some (mk_wrapper 2 true None 12 [] 13 [mk_tobj 21 [43%N]; mk_tobj 22 [45%N]]));
                      mk_entry 2 (Some [99%N]) (Some [100%N]) (Some (mk_wrapper 3 false None 14 [] 15 [mk_tobj 23 [43%N]])) ]
                    0 [100; 22] in
  slots_guard w = true /\
  enc_survivors (gc_step w) = [1; 0; 1]%N /\
  option_map content (gc_step w) = Some (content w) /\
  content w = [(0, [97%N; 43%N], []); (1, [], [98%N; 43%N; 45%N]); (2, [99%N], [100%N; 43%N])].
Proof. vm_compute. repeat split. Qed.

(* non-vacuity of C04_schedule: hold the appended text object 22 and the head text object 13 of one
   chain; collections before, between and after five different edits through them *)
Example C04_schedule_example :
  let w := mk_world [ mk_entry 0 (Some [97%N]) None (Some (mk_wrapper 1 true (Some 100) 10 [mk_tobj 20 [43%N]] 11 []));
                      mk_entry 1 None (Some [98%N]) (Some (mk_wrapper 2 true None 12 [] 13 [mk_tobj 21 [43%N]; mk_tobj 22 [45%N]])) ]
                    0 [22; 13] in
  let h := [Collect; Do (EAppendText 22 (mk_tobj 30 [88%N])); Collect; Do (ESetContent 13 [66%N]); Collect;
            Do (EAddElementAfter 13 7 40 41 42); Collect; Do (EPrependText 22 (mk_tobj 31 [89%N]));
            Do (EDetachText 13 43); Collect] in
  option_map content (run_sched h w) = Some (content (run_plain h w)) /\
  content (run_plain h w) = [(0, [97%N; 43%N], []); (1, [], []); (7, [], [43%N; 89%N; 45%N; 88%N])].
Proof. vm_compute. split; reflexivity. Qed.
