(* C12 - a saved document is a complete, decodable copy of the document.
   Statements only; every proof is `exact` of a lemma of Xml/DocFacts.v (model: Xml/Doc.v).

   What is modelled here is the DOCUMENT LEVEL: the writer calls of Document.__serialize (declaration,
   prologue, root, epilogue, the serializer's newline), _LengthTrackingWriter as these calls see it,
   the newline translation of the text layer, the XML reader's line-end normalisation, XMLDecl and
   Misc* around the root, the root setter with _copy_root_siblings, and the two parser options next
   to the root.  The layers below are parameters, and what is assumed of them is stated as a
   hypothesis of the theorem that uses it - nothing is assumed globally:

     H_root   forall fo t rest, root_ok fo t -> read_root (ser_root fo t ++ rest) = Some (norm fo t, rest)
              the root serializer / element reader round trip.  This is property C02 (C03 for the
              pretty serializers, where `norm` is whitespace normalisation).  For the plain serializer it
              is PROVED from C02's theorem (C12_root_plain) and C12_roundtrip_plain / _str_plain do not
              have it as a hypothesis any more.
     H_codec  forall enc body b, supported enc = true ->
              encode enc (decl_of enc ++ body) = Some b -> decode b = Some (decl_of enc ++ body)
              Python's codec and the reader's decoder (libxml2: BOM / declaration sniffing) are mutually
              inverse, for the four supported encodings, on streams that start with a declaration naming
              the codec.  Trusted base; exercised by the check on every run (bytes compared, re-read).
     H_strip_root (C12_strip only)  the element reader with remove_comments / remove_pis delivers
              strip_node of what it delivers without them (libxml2; established by the check only).

   Per-document premises (doc_pre): doc_ok d (comments / PIs that XML can hold: no "--", no trailing
   "-", a name as PI target, no "?>" and no leading blank in PI content, no carriage return),
   root_ok, and two facts about the root's serialization the document level relies on:
   root_shape (starts with "<" + neither "!" nor "?", ends with ">") and no carriage return. *)
From Coq Require Import List NArith Bool.
From Delb.Base Require Import PyStr PyStrFacts.
From Delb.Tree Require Import ATree.
From Delb.Gen Require GenDoc.
From Delb.Gen Require GenPretty.
From Delb.Xml Require Import Doc DocFacts DocGenFacts DocWriterFacts.
From Delb.Ns Require Namespaces Prefixes PrefixFacts.
From Delb.Xml Require Tokens DocPlain DocPlainFacts DocPretty DocPrettyFacts.
From Delb.Ws Require Reduce Pretty Wrap WsVariant SimplePP WrapTextOnly.
Import ListNotations.
Open Scope N_scope.

(* fuel: parse_doc never runs out of fuel, whatever the input and the element reader *)
Theorem C12_fuel : forall read_root rc rp s, parse_doc_with read_root rc rp s <> OutOfFuel.
Proof. exact parse_doc_fuel. Qed.
Print Assumptions C12_fuel.

(* reading back the bytes written by write / save gives the document: equal prologue and epilogue,
   the root up to the root layer's normalisation, for every serializer kind, newline setting and
   every encoding for which encoding succeeds (= able to represent the content) *)
Theorem C12_roundtrip :
  forall (fmt bytes : Type) (kind_of : fmt -> skind) (ser_root : fmt -> node -> str)
         (read_root : str -> option (node * str)) (norm : fmt -> node -> node) (root_ok : fmt -> node -> Prop)
         (supported : str -> bool) (encode : str -> str -> option bytes) (decode : bytes -> option str),
    (forall fo t rest, root_ok fo t -> read_root (ser_root fo t ++ rest) = Some (norm fo t, rest)) ->
    (forall enc body b, supported enc = true ->
        encode enc (decl_of enc ++ body) = Some b -> decode b = Some (decl_of enc ++ body)) ->
    forall enc ls nl fo d b,
      supported enc = true -> label_ok enc = true -> linesep_ok ls ->
      doc_pre fmt ser_root root_ok fo d ->
      doc_write kind_of ser_root encode ls enc nl fo d = Some b ->
      doc_read read_root decode b = Ok (Some (upper enc), norm_doc norm fo d).
Proof. exact roundtrip_bytes. Qed.
Print Assumptions C12_roundtrip.

(* the same for str(document) (always UTF-8, newline from DefaultStringOptions) *)
Theorem C12_roundtrip_str :
  forall (fmt : Type) (kind_of : fmt -> skind) (ser_root : fmt -> node -> str)
         (read_root : str -> option (node * str)) (norm : fmt -> node -> node) (root_ok : fmt -> node -> Prop),
    (forall fo t rest, root_ok fo t -> read_root (ser_root fo t ++ rest) = Some (norm fo t, rest)) ->
    forall nl fo d,
      doc_pre fmt ser_root root_ok fo d ->
      parse_doc read_root (nl_in (doc_str kind_of ser_root nl fo d)) = Ok (Some (upper L_UTF8), norm_doc norm fo d).
Proof. exact roundtrip_str. Qed.
Print Assumptions C12_roundtrip_str.

(* the stream starts with the XML declaration (position 0, also after newline translation); the
   declaration is read back as naming `upper enc`, which is `enc` up to case: the codec used *)
Theorem C12_declared :
  forall (fmt : Type) (kind_of : fmt -> skind) (ser_root : fmt -> node -> str) enc ls nl fo d,
    label_ok enc = true -> doc_ok d = true -> root_shape (ser_root fo (root d)) = true ->
    exists rest,
      nl_out ls nl (doc_serialize kind_of ser_root enc fo d) = decl_of enc ++ rest
      /\ parse_decl (decl_of enc ++ rest) = Ok (Some (upper enc), rest)
      /\ label_eqb (upper enc) enc = true.
Proof. exact declared. Qed.
Print Assumptions C12_declared.

(* declaration, prologue nodes, root tree, epilogue nodes, in this order, with nothing but the
   serializer's newline between them - also through the _LengthTrackingWriter of the wrapping serializer *)
Theorem C12_order :
  forall (fmt : Type) (kind_of : fmt -> skind) (ser_root : fmt -> node -> str) enc fo d,
    doc_ok d = true -> root_shape (ser_root fo (root d)) = true ->
    doc_serialize kind_of ser_root enc fo d
    = decl_of enc ++ pnl (kind_of fo)
      ++ flat_map (fun n => misc_str n ++ pnl (kind_of fo)) (prologue d)
      ++ ser_root fo (root d)
      ++ flat_map (fun n => pnl (kind_of fo) ++ misc_str n) (epilogue d).
Proof. exact order. Qed.
Print Assumptions C12_order.

(* newline translation on write is undone by the reader's line-end normalisation *)
Theorem C12_newline : forall ls nl s, linesep_ok ls -> no_cr s = true -> nl_in (nl_out ls nl s) = s.
Proof. exact nl_in_out. Qed.
Print Assumptions C12_newline.

(* replacing the root keeps prologue and epilogue (model of the setter + _copy_root_siblings);
   in general the new root's own root-level siblings stay outermost *)
Theorem C12_set_root : forall d n, is_tag n = true ->
  set_root false d (loose n) = Some {| prologue := prologue d; root := n; epilogue := epilogue d |}.
Proof. exact set_root_keeps. Qed.
Print Assumptions C12_set_root.
(* OPEN finding C12-new-root-with-own-siblings: a new root that has root-level comments / PIs of its own (the root
   of another document; a former root, which keeps the siblings that were copied from it) passes the setter's
   detachedness check, and its own siblings end up in the document: read strictly ("the same prologue and epilogue
   afterwards") the property fails there (refuted, witness: swap the root for a new node and back - the prologue is
   doubled); what holds for EVERY new root is that the old prologue and epilogue are kept in order next to the root
   (C12_set_root_in_order), and the strict statement holds under the guard "no root-level siblings of its own"
   (C12_set_root_partial; C12_set_root above is its instance for a loose node). *)
Theorem C12_set_root_in_order : forall d tgt d',
  set_root false d tgt = Some d' ->
  prologue d' = prologue tgt ++ prologue d /\ epilogue d' = epilogue d ++ epilogue tgt /\ root d' = root tgt.
Proof. exact set_root_in_order. Qed.
Print Assumptions C12_set_root_in_order.
Theorem C12_set_root_partial : forall d tgt,
  is_tag (root tgt) = true -> prologue tgt = [] -> epilogue tgt = [] ->
  set_root false d tgt = Some {| prologue := prologue d; root := root tgt; epilogue := epilogue d |}.
Proof. exact set_root_partial. Qed.
Print Assumptions C12_set_root_partial.
(* the witness: d = <!--a--><n/> whose former root <r/> still has the comment it was copied from *)
Theorem C12_set_root_strict_refuted : exists d tgt,
  is_tag (root tgt) = true /\
  set_root false d tgt <> Some {| prologue := prologue d; root := root tgt; epilogue := epilogue d |}.
Proof.
  exists {| prologue := [Comment [97]]; root := Tag [] [110] [] []; epilogue := [] |},
         {| prologue := [Comment [97]]; root := Tag [] [114] [] []; epilogue := [] |}.
  split; [reflexivity|]. vm_compute. discriminate.
Qed.
Print Assumptions C12_set_root_strict_refuted.

(* assigning the current root to itself changes nothing (fixed finding C12-root-self-assignment, e27f40b:
   the siblings used to be copied once more, see DocFacts.copy_root_siblings_self); the early return is
   read from the source on every run (Gen/GenDoc.v) *)
Theorem C12_set_root_self : forall d, is_tag (root d) = true -> set_root true d d = Some d.
Proof. exact set_root_self. Qed.
Print Assumptions C12_set_root_self.
Theorem C12_generated_setter : GenDoc.gen_setter_returns_on_same_root = true.
Proof. exact setter_generated. Qed.
Print Assumptions C12_generated_setter.
Theorem C12_copy_root_siblings : forall src tgt,
  copy_root_siblings src tgt
  = {| prologue := prologue tgt ++ prologue src; root := root tgt; epilogue := epilogue src ++ epilogue tgt |}.
Proof. exact copy_root_siblings_spec. Qed.
Print Assumptions C12_copy_root_siblings.

(* parsing with remove_comments / remove_processing_instructions = filtering the parse without them;
   next to the root this is proved for the document-level parser, inside the root it is H_strip_root *)
Theorem C12_strip :
  forall rc rp (read_root read_root_opt : str -> option (node * str)),
    (forall s, read_root_opt s = match read_root s with Some (n, r) => Some (strip_node rc rp n, r) | None => None end) ->
    forall s,
      parse_doc_with read_root_opt rc rp s
      = map_res (fun x => (fst x, strip_doc rc rp (snd x))) (parse_doc_with read_root false false s).
Proof. exact strip_parse. Qed.
Print Assumptions C12_strip.
(* "exactly those": none of the dropped kind is left next to the root, everything else is kept in order *)
Theorem C12_strip_exact_comments : forall rp l,
  forallb (fun n => negb (is_comment n)) (filter (keep true rp) l) = true
  /\ filter is_pi (filter (keep true rp) l) = (if rp then [] else filter is_pi l).
Proof. intros rp l. split; [exact (filter_keep_no_comment rp l)|exact (filter_keep_pis rp l)]. Qed.
Print Assumptions C12_strip_exact_comments.
Theorem C12_strip_exact_pis : forall rc l,
  forallb (fun n => negb (is_pi n)) (filter (keep rc true) l) = true
  /\ filter is_comment (filter (keep rc true) l) = (if rc then [] else filter is_comment l).
Proof. intros rc l. split; [exact (filter_keep_no_pi rc l)|exact (filter_keep_comments rc l)]. Qed.
Print Assumptions C12_strip_exact_pis.
(* ... and none anywhere inside the root of the model's strip_node (the claim H_strip_root makes about libxml2) *)
Theorem C12_strip_root_no_comment : forall rp n,
  is_comment n = false -> count_kind is_comment (strip_node true rp n) = 0%nat.
Proof. exact strip_node_no_comment. Qed.
Print Assumptions C12_strip_root_no_comment.
Theorem C12_strip_root_no_pi : forall rc n,
  is_pi n = false -> count_kind is_pi (strip_node rc true n) = 0%nat.
Proof. exact strip_node_no_pi. Qed.
Print Assumptions C12_strip_root_no_pi.
Theorem C12_strip_none : forall l, filter (keep false false) l = l.
Proof. exact filter_keep_ff. Qed.
Print Assumptions C12_strip_none.

(* ------------------------------------------------------------------------------------------ *)
(* the plain serializer plugged in: H_root is discharged with C02's round trip theorem
   (DocPlainFacts.read_root_plain_ser uses RoundTrip/MergeTrip.roundtrip = C02_roundtrip), for the model of
   Serializer.serialize_root (Xml/Plain.v) and an element reader made of the reference lexer (to find where
   the element ends) and the reference reader Reader.parse (on exactly that prefix).  Left: H_codec, and the two
   decidable per-document premises root_shape / no_cr on the root's serialization.  plain_root_ok is the premise
   of C02_roundtrip (wf_tree, no empty text nodes, a valid caller mapping, the iteration order, the size bound);
   the root comes back merged (merge_tree), as in C02. *)
Theorem C12_root_plain : forall fo t rest,
  DocPlainFacts.plain_root_ok fo t ->
  DocPlain.read_root_plain (DocPlain.ser_root_plain fo t ++ rest) = Some (DocPlain.norm_plain fo t, rest).
Proof. exact DocPlainFacts.read_root_plain_ser. Qed.
Print Assumptions C12_root_plain.

Theorem C12_roundtrip_plain :
  forall (bytes : Type) (supported : str -> bool) (encode : str -> str -> option bytes) (decode : bytes -> option str),
    (forall enc body b, supported enc = true ->
        encode enc (decl_of enc ++ body) = Some b -> decode b = Some (decl_of enc ++ body)) ->
    forall enc ls nl fo d b,
      supported enc = true -> label_ok enc = true -> linesep_ok ls ->
      doc_ok d = true -> DocPlainFacts.plain_root_ok fo (root d) ->
      root_shape (DocPlain.ser_root_plain fo (root d)) = true -> no_cr (DocPlain.ser_root_plain fo (root d)) = true ->
      doc_write DocPlain.plain_kind DocPlain.ser_root_plain encode ls enc nl fo d = Some b ->
      doc_read DocPlain.read_root_plain decode b = Ok (Some (upper enc), norm_doc DocPlain.norm_plain fo d).
Proof. exact DocPlainFacts.roundtrip_bytes_plain. Qed.
Print Assumptions C12_roundtrip_plain.

Theorem C12_roundtrip_str_plain : forall nl fo d,
  doc_ok d = true -> DocPlainFacts.plain_root_ok fo (root d) ->
  root_shape (DocPlain.ser_root_plain fo (root d)) = true -> no_cr (DocPlain.ser_root_plain fo (root d)) = true ->
  parse_doc DocPlain.read_root_plain (nl_in (doc_str DocPlain.plain_kind DocPlain.ser_root_plain nl fo d))
  = Ok (Some (upper L_UTF8), norm_doc DocPlain.norm_plain fo d).
Proof. exact DocPlainFacts.roundtrip_str_plain. Qed.
Print Assumptions C12_roundtrip_str_plain.

(* ------------------------------------------------------------------------------------------ *)
(* the formatting serializers plugged in (chunk models of Ws/Pretty.v, width = 0, and Ws/Wrap.v, width > 0):
   H_root is replaced by what C03 provides.  C03_width0 / C03_wrapped_real say that reducing the tree a
   re-parse SEES (`seen c`) gives the reduced root back; accordingly the statement is: re-reading the written
   bytes and reducing whitespace (ParserOptions(reduce_whitespace=True)) gives the document back.
   Hypotheses left: H_codec, and the ONE bridging hypothesis
     H_render_seen  forall fo t rest, fmt_root_ok fo t ->
                    ref_read (render (fmt_chunk fo t) ++ rest) = Some (merge_tree (seen (fmt_chunk fo t)), rest)
   "the reference reader applied to `render c` yields `seen c`" (with what follows the element handed back).
   It is not proved in general (it needs a string-level reader proof for the formatted start tags); it is
   instantiated by computation below with the reader built from C02's lexer and parser
   (C12_example_render_seen) and tied on every run by C03's correspondence check, which compares `seen` with
   what the real parser makes of the real output.  fmt_root_ok = the premises of C03 (a tag node, reduced, an
   indentation of space/tab/newline; for width > 0: width >= 1). *)
Theorem C12_root_formatted : forall fo t,
  DocPrettyFacts.fmt_root_ok fo t -> Reduce.reduce_model (DocPretty.norm_fmt fo t) = t.
Proof. exact DocPrettyFacts.fmt_transparent. Qed.
Print Assumptions C12_root_formatted.

Definition H_render_seen_for (ref_read : str -> option (node * str)) : Prop :=
  forall fo t rest, DocPrettyFacts.fmt_root_ok fo t ->
    ref_read (Pretty.render (DocPretty.fmt_chunk fo t) ++ rest)
    = Some (Merge.merge_tree (Pretty.seen (DocPretty.fmt_chunk fo t)), rest).

Theorem C12_roundtrip_formatted :
  forall (bytes : Type) (supported : str -> bool) (encode : str -> str -> option bytes) (decode : bytes -> option str)
         (ref_read : str -> option (node * str)),
    (forall enc body b, supported enc = true ->
        encode enc (decl_of enc ++ body) = Some b -> decode b = Some (decl_of enc ++ body)) ->
    H_render_seen_for ref_read ->
    forall enc ls nl fo d b,
      supported enc = true -> label_ok enc = true -> linesep_ok ls ->
      doc_ok d = true -> DocPrettyFacts.fmt_root_ok fo (root d) ->
      root_shape (DocPretty.ser_root_fmt fo (root d)) = true -> no_cr (DocPretty.ser_root_fmt fo (root d)) = true ->
      doc_write DocPretty.fmt_kind DocPretty.ser_root_fmt encode ls enc nl fo d = Some b ->
      DocPretty.reduce_read (doc_read ref_read decode b) = Ok (Some (upper enc), d).
Proof. exact DocPrettyFacts.roundtrip_bytes_fmt. Qed.
Print Assumptions C12_roundtrip_formatted.

(* the two instances by name: PrettySerializer (width = 0) ... *)
Theorem C12_roundtrip_pretty :
  forall (bytes : Type) (supported : str -> bool) (encode : str -> str -> option bytes) (decode : bytes -> option str)
         (ref_read : str -> option (node * str)),
    (forall enc body b, supported enc = true ->
        encode enc (decl_of enc ++ body) = Some b -> decode b = Some (decl_of enc ++ body)) ->
    H_render_seen_for ref_read ->
    forall enc ls nl ind align d b,
      supported enc = true -> label_ok enc = true -> linesep_ok ls -> doc_ok d = true ->
      is_tag (root d) = true -> WsVariant.reduced (root d) -> SimplePP.ws_indent ind = true ->
      root_shape (Pretty.pretty ind align (root d)) = true -> no_cr (Pretty.pretty ind align (root d)) = true ->
      doc_write DocPretty.fmt_kind DocPretty.ser_root_fmt encode ls enc nl (DocPretty.FPretty ind align) d = Some b ->
      DocPretty.reduce_read (doc_read ref_read decode b) = Ok (Some (upper enc), d).
Proof.
  intros bytes supported encode decode ref_read Hc Hb enc ls nl ind align d b Hs He Hl Hd Ht Hr Hi Hsh Hcr Hw.
  apply (DocPrettyFacts.roundtrip_bytes_fmt bytes supported encode decode ref_read Hc Hb enc ls nl
           (DocPretty.FPretty ind align) d b); try assumption.
  repeat split; assumption.
Qed.
Print Assumptions C12_roundtrip_pretty.

(* ... and TextWrappingSerializer (width >= 1) *)
Theorem C12_roundtrip_wrapped :
  forall (bytes : Type) (supported : str -> bool) (encode : str -> str -> option bytes) (decode : bytes -> option str)
         (ref_read : str -> option (node * str)),
    (forall enc body b, supported enc = true ->
        encode enc (decl_of enc ++ body) = Some b -> decode b = Some (decl_of enc ++ body)) ->
    H_render_seen_for ref_read ->
    forall enc ls nl ind align width d b,
      supported enc = true -> label_ok enc = true -> linesep_ok ls -> doc_ok d = true ->
      is_tag (root d) = true -> WsVariant.reduced (root d) ->
      SimplePP.ws_indent ind = true -> (1 <= width)%Z ->
      root_shape (Wrap.wrap_str ind align width (root d) []) = true ->
      no_cr (Wrap.wrap_str ind align width (root d) []) = true ->
      doc_write DocPretty.fmt_kind DocPretty.ser_root_fmt encode ls enc nl (DocPretty.FWrap ind align width) d = Some b ->
      DocPretty.reduce_read (doc_read ref_read decode b) = Ok (Some (upper enc), d).
Proof.
  intros bytes supported encode decode ref_read Hc Hb enc ls nl ind align width d b Hs He Hl Hd Ht Hr Hi Hwd Hsh Hcr Hw.
  assert (E : DocPretty.ser_root_fmt (DocPretty.FWrap ind align width) (root d) = Wrap.wrap_str ind align width (root d) []).
  { unfold DocPretty.ser_root_fmt, DocPretty.fmt_chunk, Wrap.wrap_str. destruct (Wrap.wrap_real ind align width (root d) []); reflexivity. }
  apply (DocPrettyFacts.roundtrip_bytes_fmt bytes supported encode decode ref_read Hc Hb enc ls nl
           (DocPretty.FWrap ind align width) d b); try assumption; try (rewrite E; assumption).
  repeat split; assumption.
Qed.
Print Assumptions C12_roundtrip_wrapped.

Theorem C12_roundtrip_str_formatted :
  forall (ref_read : str -> option (node * str)), H_render_seen_for ref_read ->
    forall nl fo d,
      doc_ok d = true -> DocPrettyFacts.fmt_root_ok fo (root d) ->
      root_shape (DocPretty.ser_root_fmt fo (root d)) = true -> no_cr (DocPretty.ser_root_fmt fo (root d)) = true ->
      DocPretty.reduce_read (parse_doc ref_read (nl_in (doc_str DocPretty.fmt_kind DocPretty.ser_root_fmt nl fo d)))
      = Ok (Some (upper L_UTF8), d).
Proof. exact DocPrettyFacts.roundtrip_str_fmt. Qed.
Print Assumptions C12_roundtrip_str_formatted.

(* the tie to the source: the writer calls of Document.__serialize, str() of comments and PIs and the
   comment validator, as regenerated from /repo on this run (Gen/GenDoc.v), are what the model uses *)
Theorem C12_generated_chunks : forall k enc pro rootc epi,
  doc_chunks k enc pro rootc epi = GenDoc.gen_doc_chunks (is_pretty k) (upper enc) pro rootc epi.
Proof. exact doc_chunks_generated. Qed.
Print Assumptions C12_generated_chunks.
(* the writer of the wrapping serializer as the model uses it (only "offset == 0" is kept) is the generated
   _LengthTrackingWriter.__call__ (Gen/GenPretty.v) with preserve_space = False; offsets stay >= 0 *)
Theorem C12_generated_writer : forall off data, (0 <= off)%Z ->
  ltw_call (off =? 0)%Z data
  = ((snd (GenPretty.writer_call false off data) =? 0)%Z, fst (GenPretty.writer_call false off data)).
Proof. exact ltw_call_generated. Qed.
Print Assumptions C12_generated_writer.
Theorem C12_generated_writer_offset : forall p off data,
  (0 <= off)%Z -> (0 <= snd (GenPretty.writer_call p off data))%Z.
Proof. exact writer_call_offset_nonneg. Qed.
Print Assumptions C12_generated_writer_offset.
Theorem C12_generated_str : forall n, is_misc n = true -> misc_str n = gen_misc_str n.
Proof. exact misc_str_generated. Qed.
Print Assumptions C12_generated_str.
Theorem C12_generated_comment_ok : forall c, comment_ok c = negb (GenDoc.gen_comment_invalid c).
Proof. exact comment_ok_generated. Qed.
Print Assumptions C12_generated_comment_ok.

(* ------------------------------------------------------------------------------------------ *)
(* list equality as a boolean, for the computed examples *)
Fixpoint forallb2_eq (a b : list N) : bool :=
  match a, b with [], [] => true | x :: a', y :: b' => (N.eqb x y && forallb2_eq a' b')%bool | _, _ => false end.

(* non-vacuity: the hypotheses are satisfiable.  The toy root layer (elements without content,
   `<name/>`) and the toy codecs ("ascii" refuses non-ASCII, identity otherwise) satisfy H_root and
   H_codec, so the theorems apply to every document with such a root and any prologue / epilogue. *)
Definition toy_ok (_ : skind) (n : node) : Prop := toy_root_ok n = true.

Example C12_toy_instance : forall enc ls nl k d b,
  label_ok enc = true -> linesep_ok ls -> doc_ok d = true -> toy_root_ok (root d) = true ->
  doc_write (fun k => k) toy_ser toy_encode ls enc nl k d = Some b ->
  doc_read toy_read toy_decode b = Ok (Some (upper enc), norm_doc toy_norm k d).
Proof.
  intros enc ls nl k d b He Hl Hd Hr Hw.
  apply (C12_roundtrip skind str (fun k => k) toy_ser toy_read toy_norm toy_ok (fun _ => true) toy_encode toy_decode)
    with (ls := ls) (nl := nl); try assumption; try reflexivity.
  - intros fo t rest H. apply toy_read_ser. exact H.
  - intros e body b0 _ H. apply toy_codec. exact H.
  - destruct (toy_shape k (root d) Hr) as [H1 H2]. repeat split; assumption.
Qed.

Definition ex_doc : doc :=
  {| prologue := [Comment [32; 97; 10; 98; 32]; PI [112] []];                   (* <!-- a\nb --><?p ?> *)
     root := Tag [] [114] [] [];                                                (* <r/> *)
     epilogue := [PI [113] [120; 63]; Comment []; Comment [233]] |}.            (* <?q x??><!----><!--e-acute--> *)

(* a concrete run of every piece, all three serializer kinds, CRLF translation, non-ASCII content *)
Example C12_example_roundtrip :
  forall k, doc_read toy_read toy_decode
      (match doc_write (fun k => k) toy_ser toy_encode [LF] L_UTF8 NlCRLF k ex_doc with Some b => b | None => [] end)
    = Ok (Some [85; 84; 70; 45; 56], ex_doc).
Proof. intros k. destruct k; vm_compute; reflexivity. Qed.
(* the stream really is translated (it differs from the untranslated one) and ascii really refuses *)
Example C12_example_translated :
  doc_write (fun k => k) toy_ser toy_encode [LF] L_UTF8 NlCRLF KPretty ex_doc
  <> doc_write (fun k => k) toy_ser toy_encode [LF] L_UTF8 NlLF KPretty ex_doc.
Proof. vm_compute. discriminate. Qed.
Example C12_example_unrepresentable :
  doc_write (fun k => k) toy_ser toy_encode [LF] L_ASCII NlNone KPlain ex_doc = None.
Proof. vm_compute. reflexivity. Qed.
Example C12_example_premises :
  doc_ok ex_doc = true /\ toy_root_ok (root ex_doc) = true
  /\ forallb label_ok [[117; 116; 102; 45; 56]; [117; 116; 102; 45; 49; 54];
                       [105; 115; 111; 45; 56; 56; 53; 57; 45; 49]; [97; 115; 99; 105; 105]] = true.
Proof. vm_compute. repeat split. Qed.
(* the wrapping serializer's writer would strip a newline written at offset 0: the model does that *)
Example C12_example_writer : ltw_write true [[LF; 60]; [LF]; [LF; LF; 62]] = [60; LF; 62].
Proof. vm_compute. reflexivity. Qed.
Example C12_example_strip :
  parse_doc_with toy_read true false (doc_str (fun k => k) toy_ser NlNone KPretty ex_doc)
  = Ok (Some [85; 84; 70; 45; 56], strip_doc true false ex_doc)
  /\ strip_doc true false ex_doc = {| prologue := [PI [112] []]; root := Tag [] [114] [] []; epilogue := [PI [113] [120; 63]] |}
  /\ strip_node true false (Tag [] [114] [] [Text [97]; Comment [99]; Text [98]; PI [112] []])
     = Tag [] [114] [] [Text [97; 98]; PI [112] []].
Proof. vm_compute. repeat split. Qed.
Example C12_example_set_root :
  set_root false ex_doc (loose (Tag [] [110] [] [])) = Some {| prologue := prologue ex_doc; root := Tag [] [110] [] []; epilogue := epilogue ex_doc |}
  /\ set_root false ex_doc (loose (Text [120])) = None
  /\ set_root true ex_doc ex_doc = Some ex_doc.
Proof. vm_compute. repeat split; reflexivity. Qed.

(* the plain instance on a real tree: <r k="v">a &amp; b<x/><!--c--></r> with prologue and epilogue, CRLF, read back *)
Definition ex_plain_root : node :=
  Tag [] [114] [([], [107], [118])] [Text [97; 32; 38; 32; 98]; Tag [] [120] [] []; Comment [99]].
Definition ex_plain_doc : doc := {| prologue := prologue ex_doc; root := ex_plain_root; epilogue := epilogue ex_doc |}.
Definition ex_plain_fo : DocPlain.plain_fmt := ([], Prefixes.default_order (Prefixes.bfs_of ex_plain_root)).
Example C12_example_plain :
  doc_read DocPlain.read_root_plain toy_decode
    (match doc_write DocPlain.plain_kind DocPlain.ser_root_plain toy_encode [LF] L_UTF8 NlCRLF ex_plain_fo ex_plain_doc
     with Some b => b | None => [] end)
  = Ok (Some [85; 84; 70; 45; 56], ex_plain_doc)
  /\ root_shape (DocPlain.ser_root_plain ex_plain_fo ex_plain_root) = true
  /\ no_cr (DocPlain.ser_root_plain ex_plain_fo ex_plain_root) = true
  /\ DocPlain.ser_root_plain ex_plain_fo ex_plain_root
     = [60; 114; 32; 107; 61; 34; 118; 34; 62; 97; 32; 38; 97; 109; 112; 59; 32; 98; 60; 120; 47; 62;
        60; 33; 45; 45; 99; 45; 45; 62; 60; 47; 114; 62].
Proof. vm_compute. repeat split; reflexivity. Qed.
Example C12_example_plain_premises : DocPlainFacts.plain_root_ok ex_plain_fo ex_plain_root.
Proof.
  unfold DocPlainFacts.plain_root_ok, ex_plain_fo. cbn [fst snd]. split.
  { split; [reflexivity|]. cbn [Tokens.wf_node ex_plain_root].
    unfold Tokens.uri_ok, Tokens.attr_wf, Tokens.text_char_ok, Tokens.attr_char_ok.
    repeat (split || constructor); try reflexivity; discriminate. }
  split; [reflexivity|]. split.
  { split; [repeat constructor|]. eexists. vm_compute. reflexivity. }
  split; [intros p n []|]. split; [apply PrefixFacts.default_order_ok|vm_compute; reflexivity].
Qed.

(* the formatting serializers on a real tree (mixed content, an attribute, a comment), with the reader built from
   C02's lexer and parser as reference reader: the bridging hypothesis holds there by computation, and so does
   the whole document round trip (written, CRLF-translated, read back, reduced) *)
Definition ex_fmt_root : node :=
  Tag [] [114] [([], [107], [118; 32; 119])]
      [Text [97; 97; 32; 98; 98; 32]; Tag [] [105] [] [Text [99; 99]]; Text [32; 100; 100; 32; 101; 101; 101; 32; 102];
       Comment [99]; Tag [] [120] [] []].
Definition ex_fmt_doc : doc := {| prologue := prologue ex_doc; root := ex_fmt_root; epilogue := epilogue ex_doc |}.
Definition ex_fmts : list DocPretty.fmt_opts :=
  [DocPretty.FPretty [SP; SP] false; DocPretty.FPretty [9] true; DocPretty.FPretty [] false;
   DocPretty.FWrap [SP; SP] false 5%Z; DocPretty.FWrap [] true 12%Z; DocPretty.FWrap [9] false 40%Z].
Example C12_example_render_seen :
  forallb (fun fo =>
    match DocPlain.read_root_plain (Pretty.render (DocPretty.fmt_chunk fo ex_fmt_root) ++ [LF; 60; 33; 45; 45; 45; 45; 62]) with
    | Some (n, rest) => (N.eqb (N.of_nat (length rest)) 8
                         && Compare_dec.leb 1 (length (Encode.enc_node n))
                         && forallb2_eq (Encode.enc_node n)
                              (Encode.enc_node (Merge.merge_tree (Pretty.seen (DocPretty.fmt_chunk fo ex_fmt_root)))))%bool
    | None => false
    end) ex_fmts = true.
Proof. vm_compute. reflexivity. Qed.
Example C12_example_formatted :
  forallb (fun fo =>
    match doc_write DocPretty.fmt_kind DocPretty.ser_root_fmt toy_encode [LF] L_UTF8 NlCRLF fo ex_fmt_doc with
    | Some b => forallb2_eq (enc_parse (DocPretty.reduce_read (doc_read DocPlain.read_root_plain toy_decode b)))
                            (enc_parse (Ok (Some [85; 84; 70; 45; 56], ex_fmt_doc)))
    | None => false
    end) ex_fmts = true
  /\ forallb (fun fo => (root_shape (DocPretty.ser_root_fmt fo ex_fmt_root) && no_cr (DocPretty.ser_root_fmt fo ex_fmt_root))%bool) ex_fmts = true
  /\ Reduce.reduce_model ex_fmt_root = ex_fmt_root
  /\ DocPretty.ser_root_fmt (DocPretty.FPretty [SP; SP] false) ex_fmt_root
     <> DocPretty.ser_root_fmt (DocPretty.FWrap [SP; SP] false 5%Z) ex_fmt_root.
Proof. vm_compute. repeat split. discriminate. Qed.
