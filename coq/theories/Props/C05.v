(* C05 - all navigation relations describe one and the same ordered tree.  (statements follow) *)
From Coq Require Import List NArith Bool.
From Delb.Tree Require Import ITree ANav.
From Delb.Conc Require Import CTree CNav.
