(* C05 - all navigation relations describe one and the same ordered tree.
   Statements only; every proof is `exact` of a lemma of Tree/ANavFacts.v or Conc/CNavFacts.v.

   Subject of the theorems: Conc/CNav.v, the navigation routines modelled as the code walks over the object graph
   (lxml slots + chains of text objects) of a concrete tree `c : cel` (Conc/CTree.v); tied to _delb/nodes.py and
   _delb/utils.py by the correspondence part of harness/props/c05.py on every run.
   `D` = ambient filter default_filters[-1], `F` = filters passed by the caller, both arbitrary predicates on identities.

   COVERED by theorem (for every well-formed tree with unique identities, every node, every D and F; fuel proved
   sufficient, i.e. the result is `Ok`, never OutOfFuel):
     iterate_children, __len__, first_child, last_child, __getitem__ (int incl. negative and out of range, slices),
     index (exact value for every D; = the abstract index for D = no filter), parent,
     fetch_following_sibling, iterate_following_siblings, fetch_preceding_sibling, iterate_preceding_siblings,
     iterate_descendants (explicit-stack loop = strict pre-order), traverse_df_ltr_ttb,
     iterate_ancestors (= parent chain, restricted to F), depth (= its length, also for parentless nodes),
     iterate_preceding (= all nodes before, nearest first, restricted to F; independent of D),
     iterate_following (= all nodes after restricted to D and F) under the decidable guard `up_closed_b D t`
       (a node the ambient filter hides has only hidden descendants: holds for no filter, the library default
       "tag or text", "tags only"); without the guard the statement is FALSE for the code as it is (C05_following_refuted),
     the partition: reversed preceding ++ [n] ++ following = all objects of the tree in document order,
     last_descendant (= last visible descendant, same guard),
     traverse_bf_ltr_ttb and traverse_df_ltr_btt (any passed filter; the latter keeps the given root), run without ambient
       filter, = level order / post-order restricted to matching nodes;
       the three orders are permutations of the subtree's nodes,
     _sort_nodes_in_document_order = the offered tag nodes in document order (also under an ambient filter as long as no
       hidden node holds an offered node); the three traversers are stated exactly under every ambient filter,
     fetch_following / fetch_preceding = heads of the axes,
     full_text (= content of the D-visible text descendants in document order; the node's own content for a text node);
     and on the plain tree: child exactly once at its index, parent <-> child, inverse siblings, descendants = pre-order
     of the children relation, ancestors = parent chain, preceding ++ [n] ++ following = document order (pairwise disjoint).
   NOT covered by theorem (modelled in CNav.v and checked by correspondence + direct search on every run only):
     see the list at the end of this file. *)
From Coq Require Import List NArith ZArith Bool Permutation.
From Delb.Base Require Import PyStr.
From Delb.Tree Require Import ATree ITree ANav ANavFacts ANavOrderFacts.
From Delb.Conc Require Import CTree CNav CHeapFacts CWalkFacts CNavFacts CDocFacts.
Import ListNotations.

(* the abstraction keeps every object, in document order: identities of the plain tree = objects of the concrete one *)
Theorem C05_same_nodes : forall c inh, el_ok c = true -> ids (abs_el inh c) = cel_ids c.
Proof. exact abs_ids. Qed.
Print Assumptions C05_same_nodes.

(* the pointer primitives (one case per text state DATA / TAIL / APPENDED, chains walked to their end) *)
Theorem C05_fetch_following_sibling_raw : forall c inh, el_ok c = true -> NoDup (cel_ids c) ->
  forall n, In n (ids (abs_el inh c)) ->
  c_next_raw (c_fuel_h (heap_top c)) (heap_top c) n = Ok (a_next_sibling (abs_el inh c) n).
Proof. exact P_next. Qed.
Print Assumptions C05_fetch_following_sibling_raw.
Theorem C05_preceding_candidate : forall c inh, el_ok c = true -> NoDup (cel_ids c) ->
  forall n, In n (ids (abs_el inh c)) ->
  c_prev_cand (c_fuel_h (heap_top c)) (heap_top c) n = Ok (a_prev_sibling (abs_el inh c) n).
Proof. exact P_prev. Qed.
Print Assumptions C05_preceding_candidate.
Theorem C05_parent : forall c inh, el_ok c = true -> NoDup (cel_ids c) ->
  forall n, In n (ids (abs_el inh c)) ->
  c_parent (c_fuel_h (heap_top c)) (heap_top c) n = Ok (a_parent (abs_el inh c) n).
Proof. exact P_parent. Qed.
Print Assumptions C05_parent.

(* every routine below is a function of the ONE tree abs_el inh c: hence they agree with each other;
   passing filters yields exactly the unfiltered sequence restricted to matching nodes *)
Theorem C05_one_tree : forall c inh, el_ok c = true -> NoDup (cel_ids c) ->
  forall D F n, In n (ids (abs_el inh c)) ->
    c_iterate_children c D F n = Ok (filter (fand D F) (a_children (abs_el inh c) n))
    /\ c_len c D n = Ok (length (filter D (a_children (abs_el inh c) n)))
    /\ c_first_child c D n = Ok (hd_error (filter D (a_children (abs_el inh c) n)))
    /\ c_last_child c D n = Ok (last_error (filter D (a_children (abs_el inh c) n)))
    /\ (forall i, c_getitem c D n i = match py_index (filter D (a_children (abs_el inh c) n)) i with
                                     | Some x => Ok x | None => Crash IndexError end)
    /\ (forall a b, c_getslice c D n a b = Ok (py_slice (filter D (a_children (abs_el inh c) n)) a b))
    /\ c_index c ftrue n = Ok (a_index (abs_el inh c) n)
    /\ c_parent_of c n = Ok (a_parent (abs_el inh c) n)
    /\ c_fetch_following_sibling c D F n = Ok (hd_error (filter (fand D F) (a_fsibs (abs_el inh c) n)))
    /\ c_iterate_following_siblings c D F n = Ok (filter (fand D F) (a_fsibs (abs_el inh c) n))
    /\ c_fetch_preceding_sibling c D F n = Ok (hd_error (filter (fand D F) (a_psibs (abs_el inh c) n)))
    /\ c_iterate_preceding_siblings c D F n = Ok (filter (fand D F) (a_psibs (abs_el inh c) n))
    /\ c_iterate_descendants c D F n = Ok (filter (fand D F) (a_descendants (abs_el inh c) n))
    /\ c_traverse_df_ttb c D F n = Ok (n :: filter (fand D F) (a_descendants (abs_el inh c) n)).
Proof. exact c_nav_one_tree. Qed.
Print Assumptions C05_one_tree.

(* index under an ambient filter: the position among the visible siblings; InvalidCodePath when the node is hidden *)
Theorem C05_index_filtered : forall c inh, el_ok c = true -> NoDup (cel_ids c) ->
  forall D n, In n (ids (abs_el inh c)) ->
  c_index c D n = match a_parent (abs_el inh c) n with
                  | None => Ok None
                  | Some _ => match index_of n (filter D (a_siblings (abs_el inh c) n)) with
                              | Some i => Ok (Some i)
                              | None => Crash InvalidCodePath
                              end
                  end.
Proof. exact c_index_abs. Qed.
Print Assumptions C05_index_filtered.

(* ancestors are the parent chain, depth is its length; neither consults a filter other than the passed one *)
Theorem C05_ancestors : forall c inh, el_ok c = true -> NoDup (cel_ids c) ->
  forall D F n, In n (ids (abs_el inh c)) ->
  c_iterate_ancestors c D F n = Ok (filter F (a_ancestors (abs_el inh c) n)).
Proof. exact c_ancestors_abs. Qed.
Print Assumptions C05_ancestors.
Theorem C05_depth : forall c inh, el_ok c = true -> NoDup (cel_ids c) ->
  forall D n, In n (ids (abs_el inh c)) -> c_depth c D n = Ok (a_depth (abs_el inh c) n).
Proof. exact c_depth_abs. Qed.
Print Assumptions C05_depth.
(* regression for finding C05-depth-parentless-childless (repaired in 50b8568): a parentless comment has depth 0 *)
Example C05_depth_parentless_comment : c_depth (CEl 0%N (KComment []) None no_chain []) ftrue 0%N = Ok 0%nat.
Proof. exact depth_parentless_comment. Qed.
Theorem C05_ancestors_are_parent_chain : forall t, NoDup (ids t) -> forall n, In n (ids t) ->
  a_ancestors t n = match a_parent t n with Some p => p :: a_ancestors t p | None => [] end.
Proof. exact ancestors_chain. Qed.
Print Assumptions C05_ancestors_are_parent_chain.

(* document order *)
Theorem C05_preceding : forall c inh, el_ok c = true -> NoDup (cel_ids c) ->
  forall D F n, In n (ids (abs_el inh c)) ->
  c_iterate_preceding c D F n = Ok (filter F (a_preceding (abs_el inh c) n)).
Proof. exact c_preceding_abs. Qed.
Print Assumptions C05_preceding.
Theorem C05_following_partial : forall c inh, el_ok c = true -> NoDup (cel_ids c) ->
  forall D F n, up_closed_b D (abs_el inh c) = true -> In n (ids (abs_el inh c)) ->
  c_iterate_following c D F n = Ok (filter (fand D F) (a_following (abs_el inh c) n)).
Proof. exact c_following_abs. Qed.
Print Assumptions C05_following_partial.
(* full statement (no guard):  forall D F n, c_iterate_following c D F n = Ok (filter (fand D F) (a_following (abs_el inh c) n)).
   It does not hold for the code as it is: under an ambient filter that hides an element with visible descendants
   (e.g. "text nodes only") `_iterate_following` steps over the element's subtree, because it descends through
   `first_child`, which applies the ambient filter.  Witness: <r><x>c</x></r>, ambient filter = {the text node}. *)
Theorem C05_following_refuted : exists c D n,
  el_ok c = true /\ nodupb (cel_ids c) = true /\ In n (ids (abs_el [] c)) /\
  c_iterate_following c D ftrue n <> Ok (filter (fand D ftrue) (a_following (abs_el [] c) n)).
Proof. exact following_unguarded_refuted. Qed.
Print Assumptions C05_following_refuted.
(* the two walks around a node return the whole tree: nodes before + the node + nodes after, in document order *)
Theorem C05_partition : forall c inh, el_ok c = true -> NoDup (cel_ids c) ->
  forall n, In n (ids (abs_el inh c)) ->
  exists p f, c_iterate_preceding c ftrue ftrue n = Ok p /\ c_iterate_following c ftrue ftrue n = Ok f
              /\ rev p ++ n :: f = cel_ids c.
Proof. exact c_partition. Qed.
Print Assumptions C05_partition.

(* last_descendant: the last of the visible descendants, under the same guard as the following axis *)
Theorem C05_last_descendant_partial : forall c inh, el_ok c = true -> NoDup (cel_ids c) ->
  forall D n, up_closed_b D (abs_el inh c) = true -> In n (ids (abs_el inh c)) ->
  c_last_descendant c D n = Ok (last_error (filter D (a_descendants (abs_el inh c) n))).
Proof. exact c_last_descendant_abs. Qed.
Print Assumptions C05_last_descendant_partial.
Theorem C05_last_descendant : forall c inh, el_ok c = true -> NoDup (cel_ids c) ->
  forall n, In n (ids (abs_el inh c)) -> c_last_descendant c ftrue n = Ok (a_last_descendant (abs_el inh c) n).
Proof. exact c_last_descendant_unfiltered. Qed.
Print Assumptions C05_last_descendant.

(* the contributed traversers (run without filters) enumerate the same node set in their documented orders:
   breadth-first level by level, depth-first bottom-to-top = post-order, depth-first top-to-bottom = pre-order *)
Theorem C05_traverse_bf : forall c inh, el_ok c = true -> NoDup (cel_ids c) ->
  forall F n, In n (ids (abs_el inh c)) -> c_traverse_bf c ftrue F n = Ok (filter F (a_bf_ttb (abs_el inh c) n)).
Proof. exact c_traverse_bf_abs. Qed.
Print Assumptions C05_traverse_bf.
Theorem C05_traverse_df_btt : forall c inh, el_ok c = true -> NoDup (cel_ids c) ->
  forall F n, In n (ids (abs_el inh c)) ->
  c_traverse_df_btt c ftrue F n = Ok (filter (fun x => N.eqb x n || F x) (a_df_btt (abs_el inh c) n)).
Proof. exact c_traverse_df_btt_abs. Qed.
Print Assumptions C05_traverse_df_btt.
(* under an ambient filter D: exactly the post-order through the D-visible children, restricted to the passed filters,
   the given root yielded in any case *)
Theorem C05_traverse_df_btt_ambient : forall c inh, el_ok c = true -> NoDup (cel_ids c) ->
  forall D F n, In n (ids (abs_el inh c)) ->
  c_traverse_df_btt c D F n = Ok (filter (fun x => N.eqb x n || F x) (a_post_vis (abs_el inh c) D n)).
Proof. exact c_traverse_df_btt_ambient. Qed.
Print Assumptions C05_traverse_df_btt_ambient.
(* regression for finding C05-df-btt-prunes (repaired in b0bcfbb): <r><a>x</a></r> with the filter "text nodes" *)
Example C05_traverse_df_btt_regression : c_traverse_df_btt refute_tree ftrue (fun i => N.eqb i 2) 0%N = Ok [2; 0]%N.
Proof. exact df_btt_filtered_regression. Qed.
Theorem C05_traversers_same_nodes : forall t, NoDup (ids t) -> forall n, In n (ids t) ->
  Permutation (a_df_ttb t n) (a_bf_ttb t n) /\ Permutation (a_df_btt t n) (a_df_ttb t n)
  /\ a_df_ttb t n = n :: a_descendants t n.
Proof. exact traversers_same_nodes. Qed.
Print Assumptions C05_traversers_same_nodes.

(* the sorter of utils.py: the offered tag nodes, each once, in document order *)
Theorem C05_sort : forall c inh, el_ok c = true -> NoDup (cel_ids c) ->
  forall l, (forall n, In n l -> In n (ids (abs_el inh c)) /\ h_is_tag (heap_top c) n = true) ->
  c_sort c ftrue l = Ok (a_doc_sort (abs_el inh c) l).
Proof. exact c_sort_abs. Qed.
Print Assumptions C05_sort.
(* fetch_following / fetch_preceding are the heads of the two axes *)
Theorem C05_fetch_following_partial : forall c inh, el_ok c = true -> NoDup (cel_ids c) ->
  forall D F n, up_closed_b D (abs_el inh c) = true -> In n (ids (abs_el inh c)) ->
  c_fetch_following c D F n = Ok (hd_error (filter (fand D F) (a_following (abs_el inh c) n))).
Proof. exact c_fetch_following_abs. Qed.
Print Assumptions C05_fetch_following_partial.
Theorem C05_fetch_preceding : forall c inh, el_ok c = true -> NoDup (cel_ids c) ->
  forall D F n, In n (ids (abs_el inh c)) ->
  c_fetch_preceding c D F n = Ok (hd_error (filter F (a_preceding (abs_el inh c) n))).
Proof. exact c_fetch_preceding_abs. Qed.
Print Assumptions C05_fetch_preceding.

(* passed filters only, no ambient restriction: the following axis is exactly the restriction (no guard) *)
Theorem C05_following_passed_filters : forall c inh, el_ok c = true -> NoDup (cel_ids c) ->
  forall F n, In n (ids (abs_el inh c)) ->
  c_iterate_following c ftrue F n = Ok (filter F (a_following (abs_el inh c) n)).
Proof. exact c_following_passed. Qed.
Print Assumptions C05_following_passed_filters.

(* under an ambient filter D: traverse_bf_ltr_ttb walks level by level through the D-visible children (`lvg` over
   `vis_children`, `d` levels, the next level is empty) and applies the passed filters to every node, the root included *)
Theorem C05_traverse_bf_ambient : forall c inh, el_ok c = true -> NoDup (cel_ids c) ->
  forall D F n, In n (ids (abs_el inh c)) ->
  exists d, lvg (vis_children (abs_el inh c) D) d (vis_children (abs_el inh c) D n)
            = lvg (vis_children (abs_el inh c) D) (S d) (vis_children (abs_el inh c) D n)
    /\ c_traverse_bf c D F n
       = Ok ((if F n then [n] else []) ++ filter F (lvg (vis_children (abs_el inh c) D) d (vis_children (abs_el inh c) D n))).
Proof. exact c_traverse_bf_ambient. Qed.
Print Assumptions C05_traverse_bf_ambient.
(* the sorter under an ambient filter D: indexes are positions among the visible siblings; as long as no hidden node
   below the root holds an offered node the result is the same document order (otherwise `index` raises InvalidCodePath) *)
Theorem C05_sort_ambient : forall c inh, el_ok c = true -> NoDup (cel_ids c) ->
  forall D l, (forall n, In n l -> In n (ids (abs_el inh c)) /\ h_is_tag (heap_top c) n = true) ->
  (forall x, In x (flat_map subtrees (ikids (abs_el inh c))) -> D (iid x) = false -> forall n, In n l -> ~ In n (ids x)) ->
  c_sort c D l = Ok (a_doc_sort (abs_el inh c) l).
Proof. exact c_sort_ambient. Qed.
Print Assumptions C05_sort_ambient.

(* full_text *)
Theorem C05_full_text : forall c inh, el_ok c = true -> NoDup (cel_ids c) ->
  forall D n, In n (ids (abs_el inh c)) ->
  c_full_text c D n = Ok (if a_is_text (abs_el inh c) n then a_text (abs_el inh c) n
                          else a_text_concat (abs_el inh c) (filter D (a_descendants (abs_el inh c) n))).
Proof. exact c_full_text_abs. Qed.
Print Assumptions C05_full_text.

(* ---- documents: prologue nodes, root element, epilogue nodes are siblings of each other and have no parent.
   `heap_doc docid d` = object graph of the document, `abs_el inh (doc_cel docid d)` = the tree with a virtual document
   node `docid` above the root-level nodes.  Hypotheses: the virtual tree is well-formed, identities (docid included)
   are unique. ---- *)
Theorem C05_doc_siblings : forall docid d, el_ok (doc_cel docid d) = true -> NoDup (cel_ids (doc_cel docid d)) ->
  forall inh D F n, In n (ids (abs_el inh (doc_cel docid d))) ->
    h_fetch_following_sibling (heap_doc docid d) D F n = Ok (hd_error (filter (fand D F) (a_fsibs (abs_el inh (doc_cel docid d)) n)))
    /\ h_fetch_preceding_sibling (heap_doc docid d) D F n = Ok (hd_error (filter (fand D F) (a_psibs (abs_el inh (doc_cel docid d)) n))).
Proof. exact doc_siblings. Qed.
Print Assumptions C05_doc_siblings.
Theorem C05_doc_siblings_inverse : forall docid d, el_ok (doc_cel docid d) = true -> NoDup (cel_ids (doc_cel docid d)) ->
  forall inh n m, In n (ids (abs_el inh (doc_cel docid d))) -> In m (ids (abs_el inh (doc_cel docid d))) ->
    (h_fetch_following_sibling (heap_doc docid d) ftrue ftrue n = Ok (Some m)
     <-> h_fetch_preceding_sibling (heap_doc docid d) ftrue ftrue m = Ok (Some n)).
Proof. exact doc_siblings_inverse. Qed.
Print Assumptions C05_doc_siblings_inverse.
(* a root-level node (a child of the virtual document node) has no parent, no index, depth 0 and no ancestors *)
Theorem C05_doc_toplevel : forall docid d, el_ok (doc_cel docid d) = true -> NoDup (cel_ids (doc_cel docid d)) ->
  forall inh D F n, In n (ids (abs_el inh (doc_cel docid d))) -> a_parent (abs_el inh (doc_cel docid d)) n = Some docid ->
    h_parent (heap_doc docid d) n = Ok None /\ h_index (heap_doc docid d) D n = Ok None
    /\ h_depth (heap_doc docid d) D n = Ok 0%nat /\ h_iterate_ancestors (heap_doc docid d) D F n = Ok [].
Proof. exact doc_toplevel. Qed.
Print Assumptions C05_doc_toplevel.
(* every node of a document: parent, ancestors, children and descendants are those of the virtual tree without the
   virtual document node *)
Theorem C05_doc_parent : forall docid d, el_ok (doc_cel docid d) = true -> NoDup (cel_ids (doc_cel docid d)) ->
  forall inh n, In n (ids (abs_el inh (doc_cel docid d))) ->
    c_parent (c_fuel_h (heap_doc docid d)) (heap_doc docid d) n = Ok (patchopt docid (a_parent (abs_el inh (doc_cel docid d)) n)).
Proof. exact D_parent. Qed.
Print Assumptions C05_doc_parent.
Theorem C05_doc_ancestors : forall docid d, el_ok (doc_cel docid d) = true -> NoDup (cel_ids (doc_cel docid d)) ->
  forall inh D F n, In n (ids (abs_el inh (doc_cel docid d))) -> n <> docid ->
    h_iterate_ancestors (heap_doc docid d) D F n = Ok (filter F (removelast (a_ancestors (abs_el inh (doc_cel docid d)) n))).
Proof. exact doc_ancestors. Qed.
Print Assumptions C05_doc_ancestors.
Theorem C05_doc_descendants : forall docid d, el_ok (doc_cel docid d) = true -> NoDup (cel_ids (doc_cel docid d)) ->
  forall inh D F n, In n (ids (abs_el inh (doc_cel docid d))) ->
    h_iterate_descendants (heap_doc docid d) D F n = Ok (filter (fand D F) (a_descendants (abs_el inh (doc_cel docid d)) n)).
Proof. exact doc_descendants. Qed.
Print Assumptions C05_doc_descendants.
(* non-vacuity: <!--p--><r>a</r><!--e--> ; p = 1, r = 2, a = 3, e = 4, virtual document node 9 *)
Definition ex_doc : cdoc :=
  {| d_pro := [CEl 1%N (KComment []) None no_chain []];
     d_root := CEl 2%N (KTag [] [114%N] []) None {| ch_head := Some 3%N; ch_slot := Some [97%N]; ch_app := [] |} [];
     d_epi := [CEl 4%N (KComment []) None no_chain []] |}.
Example C05_doc_example :
  el_ok (doc_cel 9%N ex_doc) = true /\ nodupb (cel_ids (doc_cel 9%N ex_doc)) = true
  /\ h_fetch_following_sibling (heap_doc 9%N ex_doc) ftrue ftrue 2%N = Ok (Some 4%N)
  /\ h_fetch_preceding_sibling (heap_doc 9%N ex_doc) ftrue ftrue 2%N = Ok (Some 1%N)
  /\ h_parent (heap_doc 9%N ex_doc) 4%N = Ok None /\ h_depth (heap_doc 9%N ex_doc) ftrue 4%N = Ok 0%nat
  /\ h_iterate_ancestors (heap_doc 9%N ex_doc) ftrue ftrue 3%N = Ok [2%N].
Proof. vm_compute. repeat split; reflexivity. Qed.

(* the relations of the one tree agree with each other (the statement of the property, on the plain tree) *)
Theorem C05_consistency : forall t, NoDup (ids t) -> forall n, In n (ids t) ->
  (forall p, a_parent t n = Some p ->
     exists i, a_index t n = Some i /\ nth_error (a_children t p) i = Some n /\ NoDup (a_children t p))
  /\ (forall p, In p (ids t) -> (a_parent t n = Some p <-> In n (a_children t p)))
  /\ (forall m, In m (ids t) -> (a_next_sibling t n = Some m <-> a_prev_sibling t m = Some n))
  /\ a_descendants t n = flat_map (fun k => k :: a_descendants t k) (a_children t n)
  /\ rev (a_preceding t n) ++ n :: a_following t n = ids t
  /\ ~ In n (a_preceding t n) /\ ~ In n (a_following t n)
  /\ (forall x, In x (a_preceding t n) -> ~ In x (a_following t n)).
Proof. exact tree_consistency. Qed.
Print Assumptions C05_consistency.

(* indexed access agrees with the child iteration for negative indices too *)
Theorem C05_negative_index : forall (l : list nid) i, (i < length l)%nat ->
  py_index l (Z.of_nat i - Z.of_nat (length l)) = nth_error l i /\ py_index l (Z.of_nat i) = nth_error l i.
Proof. exact py_index_both. Qed.
Print Assumptions C05_negative_index.

(* non-vacuity: <r>a b<x>c</x>d e<!-- --></r> with two chained text nodes in the text slot and in a tail slot *)
Definition ex_tree : cel :=
  CEl 0%N (KTag [] [114%N] []) None
      {| ch_head := Some 1%N; ch_slot := Some [97%N]; ch_app := [{| t_id := 2%N; t_s := [98%N] |}] |}
      [(CEl 3%N (KTag [] [120%N] []) None {| ch_head := Some 4%N; ch_slot := Some [99%N]; ch_app := [] |} [],
        {| ch_head := Some 5%N; ch_slot := Some [100%N]; ch_app := [{| t_id := 6%N; t_s := [101%N] |}] |});
       (CEl 7%N (KComment []) None no_chain [], no_chain)].
Example C05_example_wf : el_ok ex_tree = true /\ nodupb (cel_ids ex_tree) = true.
Proof. vm_compute. split; reflexivity. Qed.
Example C05_example_descendants :
  c_iterate_descendants ex_tree ftrue ftrue 0%N = Ok [1; 2; 3; 4; 5; 6; 7]%N
  /\ c_iterate_preceding_siblings ex_tree ftrue ftrue 7%N = Ok [6; 5; 3; 2; 1]%N
  /\ c_fetch_following_sibling ex_tree ftrue (fun i => N.eqb i 7) 1%N = Ok (Some 7%N)
  /\ c_getitem ex_tree ftrue 0%N (-2)%Z = Ok 6%N.
Proof. vm_compute. repeat split; reflexivity. Qed.

(* NOT covered by theorem (modelled in Conc/CNav.v, compared with the code and searched directly on every run):
   - the sorter when a hidden node holds an offered node (it raises InvalidCodePath at the first such node; modelled,
     compared, no theorem about which node raises first);
   - documents with root-level siblings (model: `heap_doc`): siblings, parent, index / depth / ancestors of the root-level
     nodes, ancestors, children and descendants of all nodes are covered (the C05_doc_ theorems); the following / preceding axes,
     index and depth of the inner nodes, full_text, the traversers and the sorter of a document are covered by the check only;
   - DETACHED text nodes (model: `heap_loose`): covered by the check (correspondence and direct search), not by a theorem. *)
