(* C18 - indented output puts each structural child on its own line at its depth.
   Statements only; the proofs are in Ws/PrettyFacts.v.  `pretty` (Ws/Pretty.v) is the model of
   PrettySerializer at width 0 that the check compares byte for byte with the implementation on every
   run; `simple_pp` (Ws/SimplePP.v) is the straightforward recursive printer of the statement.
   The indentation ranges over `ws_indent` (space, tab, newline), a sub-domain of what the code accepts since 9955ff3
   (XML white space: space, tab, carriage return, newline). *)
From Coq Require Import List NArith Bool.
From Delb.Base Require Import PyStr PyStrFacts.
From Delb.Tree Require Import ATree.
From Delb.Ws Require Import Reduce Pretty SimplePP WsVariant PrettyFacts Qualified QualifiedSer.
Import ListNotations.

(* for every element at every nesting depth (root, sub-tree, or inside a larger output) *)
Theorem C18_any_depth : forall ind align, ind <> [] -> ws_indent ind = true ->
  forall n L, is_text n = false -> data_style n = true ->
  render (p_node ind align L n) = simple_pp ind align L n.
Proof. intros ind align Hn Hw n L. exact (pretty_is_simple ind align Hn Hw n L). Qed.
Print Assumptions C18_any_depth.

(* the statement of the property: serialization of a data-style, whitespace-reduced element *)
Theorem C18 : forall t ind align, is_tag t = true ->
  data_style t = true -> reduced t -> ind <> [] -> ws_indent ind = true ->
  pretty ind align t = simple_pp ind align 0 t.
Proof. exact C18_pretty. Qed.
Print Assumptions C18.

(* as a document: declaration, prologue, root and epilogue each on lines of their own *)
Theorem C18_document : forall pro t epi ind align, is_tag t = true ->
  data_style t = true -> reduced t -> ind <> [] -> ws_indent ind = true ->
  forallb (fun n => negb (is_tag n || is_text n)) (pro ++ epi) = true ->
  pretty_doc ind align pro t epi = simple_doc ind align pro t epi.
Proof. exact C18_doc. Qed.
Print Assumptions C18_document.

(* non-vacuity: a reduced data-style document with nesting, a comment, attributes and a text leaf *)
Example C18_example :
  let t := Tag [] [114%N] [([], [107%N], [118%N]); ([], [105; 100]%N, [49%N])]
             [Tag [] [97%N] [] [Text [120; 32; 121]%N]; Text [SP]; Comment [99%N]; Text [SP]; Tag [] [98%N] [] []] in
  data_style t = true /\ reduce_model t = t /\ ws_indent [SP; SP] = true /\
  pretty [SP; SP] true t = simple_pp [SP; SP] true 0 t.
Proof. vm_compute. repeat split. Qed.

(* namespaced trees are serialized as their qualified view (Ws/Qualified.v: prefixed names, the declarations as
   attributes of the root), for the prefix table and declarations computed by Serializer._collect_prefixes; the
   statement holds for every prefix table and every list of declarations *)
Theorem C18_namespaced : forall pf decl t ind align, is_tag t = true -> data_style t = true -> reduced t ->
  plain_decl decl = true -> ind <> [] -> ws_indent ind = true ->
  pretty ind align (qual_root pf decl t) = simple_pp ind align 0 (qual_root pf decl t).
Proof. exact pretty_simple_ns. Qed.
Print Assumptions C18_namespaced.
