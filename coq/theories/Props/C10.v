(* C10 - clones are equal to, and independent of, their originals.
   Statements only; proofs are `exact` of lemmas in Conc/CloneFacts.v.

   `clone_el ren inh e` mirrors TagNode.clone / _ElementWrappingNode.clone (Conc/Clone.v); `ren` names the new objects
   and is arbitrary; `content` (Tree/ITree.v) forgets identities: name, namespace, presented attributes, children
   including comments and PIs, text.  A clone is a parentless node by construction (`LEl` / `LText` carry no tail).
   Independence over later histories: `C10_independent` -- after a history of any length (under the C01 guard), every
   tree of the world that no primitive update of those calls names (`hist_avoids`, decidable, computed along the run)
   is presented exactly as before; this holds for the clone while the original is edited and for every tree that
   existed before while the clone is edited.  Missing: that the updates of a call name only nodes of the trees the
   call's arguments lie in (a per-script lemma needing unique identities) -- until then `hist_avoids` stands as a
   hypothesis; harness/props/c10.py checks the unguarded statement on the implementation.
   Guard inherited from C01 (finding 13b): a node whose namespaced attribute equals the default namespace in scope
   cannot be cloned (KeyError when reading the attribute). *)
From Coq Require Import List NArith Bool.
From Delb.Base Require Import PyStr.
From Delb.Tree Require Import ATree ITree AOps.
From Delb.Tree Require Import AGuard AOpsFacts.
From Delb.Conc Require Import CTree COps CGuard Clone CloneFacts Witness.
Import ListNotations.

(* deep clone of an element-like node: as a client sees it, the original subtree with new identities ... *)
Theorem C10_equal_tree : forall ren e inh, abs_el [] (clone_el ren inh e) = a_rename ren (abs_el inh e).
Proof. exact clone_abs. Qed.
Print Assumptions C10_equal_tree.
(* ... hence the same content, in every default-namespace context, for every arrangement of text chains *)
Theorem C10_equal : forall ren inh e, content (abs_top (clone_el ren inh e)) = content (abs_el inh e).
Proof. exact clone_equal. Qed.
Print Assumptions C10_equal.
Theorem C10_equal_text : forall ren t, content (abs_loose (LText (clone_tobj ren t))) = content (atext t).
Proof. exact clone_text_spec. Qed.
Print Assumptions C10_equal_text.

(* shallow clone: same name, namespace and presented attributes, no children *)
Theorem C10_shallow : forall ren inh e,
  exists i, abs_top (clone_shallow ren inh e) = INode i (ipayload (abs_el inh e)) [].
Proof. exact clone_shallow_spec. Qed.
Print Assumptions C10_shallow.

(* cloning adds one parentless node; every tree, lxml slot and text chain that existed is exactly as before *)
Theorem C10_clone_frame : forall w x deep ren,
  c_clone_step w x deep ren = w \/
  exists l, c_clone_step w x deep ren = cadd_loose l w /\
            abs_world (c_clone_step w x deep ren) = add_loose (abs_loose l) (abs_world w).
Proof. exact clone_step_frame. Qed.
Print Assumptions C10_clone_frame.

(* later histories: a tree none of whose nodes is named by an update of the later calls stays as it is *)
Theorem C10_independent : forall C c ops,
  shape_ok c = true -> hist_ok c ops = true -> hist_avoids (comp_root C) (abs_world c) ops = true ->
  comp_in C (abs_world c) -> comp_in C (abs_world (fst (crun c ops))).
Proof. exact later_history_frame. Qed.
Print Assumptions C10_independent.
(* ... in particular the clone just made, and every tree that existed before it *)
Theorem C10_independent_clone : forall w x deep ren l ops,
  shape_ok (cadd_loose l w) = true -> c_clone w x deep ren = Some l ->
  let c := c_clone_step w x deep ren in
  hist_ok c ops = true ->
  (hist_avoids (abs_loose l) (abs_world c) ops = true -> In (abs_loose l) (loose (abs_world (fst (crun c ops))))) /\
  (forall C, comp_in C (abs_world w) -> hist_avoids (comp_root C) (abs_world c) ops = true ->
             comp_in C (abs_world (fst (crun c ops)))).
Proof. exact clone_then_history. Qed.
Print Assumptions C10_independent_clone.
(* the frame property of the plain-tree edits it rests on *)
Theorem C10_frame : forall C u w, avoids (comp_root C) u = true -> comp_in C w -> comp_in C (apply_a u w).
Proof. exact apply_a_frame. Qed.
Print Assumptions C10_frame.

(* the clone is a well-shaped tree, so the theorems of C01 apply to every later history on it *)
Theorem C10_clone_shape : forall ren e inh, el_ok e = true -> el_ok (clone_el ren inh e) = true.
Proof. exact clone_ok. Qed.
Print Assumptions C10_clone_shape.

(* Document.clone reproduces the comments and PIs before and after the root *)
Theorem C10_document : forall ren d,
  let '(pro, r, epi) := abs_doc (clone_doc ren d) in
  let '(pro0, r0, epi0) := abs_doc d in
  map content pro = map content pro0 /\ content r = content r0 /\ map content epi = map content epi0.
Proof. exact clone_doc_spec. Qed.
Print Assumptions C10_document.

Example C10_example_independent :
  exists l, c_clone w_big 9%N true ren9 = Some l /\
            let c := c_clone_step w_big 9%N true ren9 in
            cwf c /\ hist_ok c after_clone = true /\ hist_ok c on_original = true /\
            hist_avoids (abs_top (d_root (hd {| d_pro := []; d_root := CEl 0%N (KComment []) None no_chain []; d_epi := [] |} (w_docs w_big))))
                        (abs_world c) after_clone = true /\
            hist_avoids (abs_loose l) (abs_world c) on_original = true.
Proof. exact clone_example. Qed.

Example C10_example :
  let e := CEl 0%N (KTag [100%N] [114%N] [([], [107%N], [118%N])]) (Some [100%N])
               {| ch_head := Some 1%N; ch_slot := Some [97%N]; ch_app := [{| t_id := 2%N; t_s := [98%N] |}] |}
               [(CEl 3%N (KComment [99%N]) None no_chain [], {| ch_head := Some 4%N; ch_slot := Some [100%N]; ch_app := [] |})] in
  el_ok e = true /\ content (abs_top (clone_el [(0, 10); (1, 11); (2, 12); (3, 13); (4, 14)]%N [] e)) = content (abs_top e).
Proof. split; reflexivity. Qed.
