(* C10 - clones are equal to, and independent of, their originals.
   Statements only; proofs are `exact` of lemmas in Conc/CloneFacts.v.

   `clone_el ren inh e` mirrors TagNode.clone / _ElementWrappingNode.clone (Conc/Clone.v); `ren` names the new objects
   and is arbitrary; `content` (Tree/ITree.v) forgets identities: name, namespace, presented attributes, children
   including comments and PIs, text.  A clone is a parentless node by construction (`LEl` / `LText` carry no tail).
   Missing: `C10_independent` as a theorem over later histories (a frame lemma of astep: an operation whose target and
   offered nodes lie in one tree leaves every other tree of the world unchanged, then C01_history).  What is proved
   here is the first half -- cloning itself changes nothing that exists -- and the later histories are checked on the
   implementation by harness/props/c10.py (after every later call on one side the other side's view is compared).
   Guard inherited from C01 (finding 13b): a node whose namespaced attribute equals the default namespace in scope
   cannot be cloned (KeyError when reading the attribute). *)
From Coq Require Import List NArith Bool.
From Delb.Base Require Import PyStr.
From Delb.Tree Require Import ATree ITree AOps.
From Delb.Conc Require Import CTree COps CGuard Clone CloneFacts.
Import ListNotations.

(* deep clone of an element-like node: as a client sees it, the original subtree with new identities ... *)
Theorem C10_equal_tree : forall ren e inh, abs_el [] (clone_el ren inh e) = a_rename ren (abs_el inh e).
Proof. exact clone_abs. Qed.
Print Assumptions C10_equal_tree.
(* ... hence the same content, in every default-namespace context, for every arrangement of text chains *)
Theorem C10_equal : forall ren inh e, content (abs_top (clone_el ren inh e)) = content (abs_el inh e).
Proof. exact clone_equal. Qed.
Print Assumptions C10_equal.
Theorem C10_equal_text : forall ren t, content (abs_loose (LText (clone_tobj ren t))) = content (atext t).
Proof. exact clone_text_spec. Qed.
Print Assumptions C10_equal_text.

(* shallow clone: same name, namespace and presented attributes, no children *)
Theorem C10_shallow : forall ren inh e,
  exists i, abs_top (clone_shallow ren inh e) = INode i (ipayload (abs_el inh e)) [].
Proof. exact clone_shallow_spec. Qed.
Print Assumptions C10_shallow.

(* cloning adds one parentless node; every tree, lxml slot and text chain that existed is exactly as before *)
Theorem C10_clone_frame : forall w x deep ren,
  c_clone_step w x deep ren = w \/
  exists l, c_clone_step w x deep ren = cadd_loose l w /\
            abs_world (c_clone_step w x deep ren) = add_loose (abs_loose l) (abs_world w).
Proof. exact clone_step_frame. Qed.
Print Assumptions C10_clone_frame.

(* the clone is a well-shaped tree, so the theorems of C01 apply to every later history on it *)
Theorem C10_clone_shape : forall ren e inh, el_ok e = true -> el_ok (clone_el ren inh e) = true.
Proof. exact clone_ok. Qed.
Print Assumptions C10_clone_shape.

(* Document.clone reproduces the comments and PIs before and after the root *)
Theorem C10_document : forall ren d,
  let '(pro, r, epi) := abs_doc (clone_doc ren d) in
  let '(pro0, r0, epi0) := abs_doc d in
  map content pro = map content pro0 /\ content r = content r0 /\ map content epi = map content epi0.
Proof. exact clone_doc_spec. Qed.
Print Assumptions C10_document.

Example C10_example :
  let e := CEl 0%N (KTag [100%N] [114%N] [([], [107%N], [118%N])]) (Some [100%N])
               {| ch_head := Some 1%N; ch_slot := Some [97%N]; ch_app := [{| t_id := 2%N; t_s := [98%N] |}] |}
               [(CEl 3%N (KComment [99%N]) None no_chain [], {| ch_head := Some 4%N; ch_slot := Some [100%N]; ch_app := [] |})] in
  el_ok e = true /\ content (abs_top (clone_el [(0, 10); (1, 11); (2, 12); (3, 13); (4, 14)]%N [] e)) = content (abs_top e).
Proof. split; reflexivity. Qed.
