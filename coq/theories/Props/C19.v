(* C19 - wrapped text fills lines greedily up to the requested width.
   Statements about TextWrappingSerializer._wrap_text as regenerated from the source (Gen/GenWrap.v);
   every proof is `exact` of a lemma in Ws/WrapFacts.v. *)
From Coq Require Import List NArith ZArith Bool.
From Delb.Base Require Import PyStr.
From Delb.Gen Require Import GenWrap.
From Delb.Ws Require Import WrapFacts.
Import ListNotations.

(* for every text and every width >= 1 the generator terminates and yields lines that satisfy the greedy
   line specification `lines_spec` (each step breaks at the last space within the width; or the line is one
   unbreakable word longer than the width; or nothing is left to break) *)
Theorem C19_wrap_total_and_greedy : forall text (width : nat), (0 < width)%nat ->
  exists lines, wrap_text text (Z.of_nat width) = Some lines /\ lines_spec width text lines.
Proof. exact wrap_text_total_and_greedy. Qed.
Print Assumptions C19_wrap_total_and_greedy.

(* no line is longer than the width unless it is a single unbreakable word *)
Theorem C19_short_or_word : forall width text lines, lines_spec width text lines ->
  Forall (fun l => (length l <= width)%nat \/ no_sp l) lines.
Proof. exact lines_short_or_word. Qed.
Print Assumptions C19_short_or_word.

(* lines are broken at spaces only; words are neither split, joined nor reordered: joining the lines with
   single spaces gives the text back (up to one trailing space that a break consumed) *)
Theorem C19_words_kept : forall width text lines, lines_spec width text lines ->
  (lines = [] /\ text = []) \/
  (lines <> [] /\ (text = py_join [SP] lines \/ text = py_join [SP] lines ++ [SP])).
Proof. exact lines_join. Qed.
Print Assumptions C19_words_kept.

(* no line is shorter than necessary *)
Theorem C19_greedy : forall width text lines, lines_spec width text lines -> greedy width lines.
Proof. exact lines_greedy. Qed.
Print Assumptions C19_greedy.

Example C19_example :
  wrap_text [97; 97; 32; 98; 98; 98; 32; 99; 32; 100; 100; 100; 100; 100; 100; 100]%N 5%Z
  = Some [[97; 97]; [98; 98; 98; 32; 99]; [100; 100; 100; 100; 100; 100; 100]]%N.
Proof. vm_compute. reflexivity. Qed.
