(* C19 - wrapped text fills lines greedily up to the requested width.
   Statements about TextWrappingSerializer._wrap_text as regenerated from the source (Gen/GenWrap.v);
   every proof is `exact` of a lemma in Ws/WrapFacts.v. *)
From Coq Require Import List NArith ZArith Bool.
From Delb.Base Require Import PyStr.
From Delb.Gen Require Import GenWrap.
From Delb.Tree Require Import ATree.
From Delb.Ws Require Import WrapFacts Wrap WrapOneLine.
Import ListNotations.

(* for every text and every width >= 1 the generator terminates and yields lines that satisfy the greedy
   line specification `lines_spec` (each step breaks at the last space within the width; or the line is one
   unbreakable word longer than the width; or nothing is left to break) *)
Theorem C19_wrap_total_and_greedy : forall text (width : nat), (0 < width)%nat ->
  exists lines, wrap_text text (Z.of_nat width) = Some lines /\ lines_spec width text lines.
Proof. exact wrap_text_total_and_greedy. Qed.
Print Assumptions C19_wrap_total_and_greedy.

(* no line is longer than the width unless it is a single unbreakable word *)
Theorem C19_short_or_word : forall width text lines, lines_spec width text lines ->
  Forall (fun l => (length l <= width)%nat \/ no_sp l) lines.
Proof. exact lines_short_or_word. Qed.
Print Assumptions C19_short_or_word.

(* lines are broken at spaces only; words are neither split, joined nor reordered: joining the lines with
   single spaces gives the text back (up to one trailing space that a break consumed) *)
Theorem C19_words_kept : forall width text lines, lines_spec width text lines ->
  (lines = [] /\ text = []) \/
  (lines <> [] /\ (text = py_join [SP] lines \/ text = py_join [SP] lines ++ [SP])).
Proof. exact lines_join. Qed.
Print Assumptions C19_words_kept.

(* no line is shorter than necessary *)
Theorem C19_greedy : forall width text lines, lines_spec width text lines -> greedy width lines.
Proof. exact lines_greedy. Qed.
Print Assumptions C19_greedy.

Example C19_example :
  wrap_text [97; 97; 32; 98; 98; 98; 32; 99; 32; 100; 100; 100; 100; 100; 100; 100]%N 5%Z
  = Some [[97; 97]; [98; 98; 98; 32; 99]; [100; 100; 100; 100; 100; 100; 100]]%N.
Proof. vm_compute. reflexivity. Qed.

(* ---- the indentation clause, over the model of TextWrappingSerializer (Ws/Wrap.v, hand-written and tied
   to the code by the correspondence checks of C03 and C19): for a text-only element whose text is written
   over lines at nesting level L, for every width >= 1, every indentation string without line feeds, every
   fitting oracle `req` and every writer state at the start of a line, the output is exactly the lines of
   the generated wrap_text on the escaped text, each prefixed by the indentation repeated L times and
   ended by a newline. *)
From Delb.Base Require Import PyStrFacts.
From Delb.Ws Require Import Pretty Wrap WrapTextOnly.

Theorem C19_text_lines_indented :
  forall (ind : str) (width : Z) (req : rpath -> Z -> option Z),
  no_lf ind = true -> (1 <= width)%Z ->
  forall (L : nat) (st : wst) (rp : rpath) (aft : option rpath) (k : str),
  core k -> w_off st = 0%Z ->
  exists ls, wrap_text (esc_text k) width = Some ls /\
    render_list (fst (w_text ind width req L st rp None k None aft))
    = flat_map (fun l => repeat_str ind L ++ l ++ NL) ls.
Proof. exact text_only_lines_str. Qed.
Print Assumptions C19_text_lines_indented.

(* the same without the restriction to indentation strings free of line feeds: at the start of a line the
   writer lets the indentation through as it is unless it begins with line feeds (those are stripped at
   offset 0 outside preserved content); `eff_indent` is that effective indentation, equal to the plain one
   whenever the indentation does not start with a line feed *)
From Delb.Ws Require Import WrapTextOnlyLF.

Theorem C19_text_lines_indented_any : forall ind width req, (1 <= width)%Z ->
  forall L st rp aft k, core k -> w_off st = 0%Z ->
  exists ls, wrap_text (esc_text k) width = Some ls /\
    render_list (fst (w_text ind width req L st rp None k None aft))
    = flat_map (fun l => eff_indent ind (w_pres st) L ++ l ++ NL) ls.
Proof. exact text_only_lines_str_lf. Qed.
Print Assumptions C19_text_lines_indented_any.

(* open finding C19-oneline-boundary-whitespace, on the model of the whole serializer (Ws/Wrap.v): for the
   un-reduced text "ccc\n" below <d0><p>, width 10, indentation " ", the output has the line " <p>ccc </p>" whose
   content is 11 characters long and contains a space.  The statements above are about the text lines of the
   multi-line form; the one-line form is covered by the byte-for-byte correspondence and the direct search. *)
Theorem C19_oneline_boundary_refuted :
  exists pre post,
    wrap_str [SP] false 10%Z c19_oneline_witness [] = pre ++ LF :: SP :: c19_oneline_line ++ LF :: post
    /\ (length c19_oneline_line > 10)%nat /\ In SP c19_oneline_line /\ ~ In LF c19_oneline_line.
Proof. exact oneline_boundary_refuted. Qed.
Print Assumptions C19_oneline_boundary_refuted.

Example C19_oneline_reduced_fits :
  wrap_str [SP] false 10%Z (Tag [] [100; 48]%N [] [Tag [] [112]%N [] [Text [99; 99; 99]%N]]) []
  = [60; 100; 48; 62]%N ++ LF :: SP :: [60; 112; 62; 99; 99; 99; 60; 47; 112; 62]%N ++ LF :: [60; 47; 100; 48; 62]%N.
Proof. exact oneline_reduced_fits. Qed.
Print Assumptions C19_oneline_reduced_fits.
