(* C01 - tree edits behave like edits on a plain ordered tree.
   Statements only; every proof is `exact` of a lemma proved in Conc/Refine.v or Conc/Witness.v.

   cstep  (Conc/COps.v)  the editing calls on the concrete tree: lxml text/tail slots + chains of text objects
   astep  (Tree/AOps.v)  the same calls as list surgery on the plain ordered tree with node identity
   abs_world             flattens chains into text children and presents attributes as a client sees them

   Full statement (refuted below in the classes of the known findings):
       forall F c o, cwf c -> let (c', r) := cstep F c o in astep F (abs_world c) o = (abs_world c', r)
   Proved: the same under the decidable guard `step_ok F c o` (Conc/CGuard.v), which fails exactly when a primitive
   update of the call (a) creates or assigns an empty text, (b) moves a node with an un-prefixed attribute into the
   scope of a default namespace it is not shielded from.  (A third class of the first round -- a text bound over an
   occupied text slot, finding 29 -- is repaired in the code: the text is prepended to the chain.)
   The equality of whole worlds contains: the edited node lands where the plain edit puts it, every other node keeps
   parent, order, name, namespace, presented attributes and content, nothing is lost or duplicated.

   Covered operations: all eleven kinds of `op` (add following/preceding siblings, append/prepend/insert children,
   detach with and without retained children, replace_with, item assignment and deletion, content assignment,
   merge_text_nodes), any number of offered nodes (strings, tag() definitions, parentless nodes), any kind-based
   ambient filter, moves between trees.  Not modelled (both sides answer `Crash EUnmodelled`, so the theorems say
   nothing about the code there): comments / PIs added next to a parentless node or a document root.
   Identities: `C01_step_cwf` / `C01_history_cwf` -- with the objects a call creates being new (`run_fresh`), unique node
   identities are preserved (the full `cwf`, not only its shape part).  Text: `C01_text_conserved` -- a call that neither
   assigns content nor merges (`run_structural`, computed along the run) leaves the multiset of (identity, content) of
   all text nodes, attached or parentless, as it was, plus the text nodes made from the offered strings.
   Independent specification: `edit_ok F w o w'` (Tree/AEdit.v) states each call as a *relation* on the flat view of the
   plain tree -- for every node its payload and the identities of its children -- without the scripts that compute
   positions: the offered node becomes a child of the stated parent with exactly the stated visible children before /
   after it, that parent keeps its payload and the order of its other children, every other node keeps payload and
   children (hence parent and order), parentless nodes and documents change only as stated.  `C01_astep_sound`: for
   all eleven operation kinds, any number of offered nodes and any kind-based filter, a successful `astep` satisfies
   `edit_ok` (under unique identities; the guard `setitem_guard` excludes exactly finding 18, which
   `C01_setitem_childless_violates_edit_ok` states against the relation).  `C01_edit_ok` composes it with the
   refinement: a successful call on the concrete text-chain model, seen through `abs_world`, satisfies `edit_ok`.
   merge_text_nodes has its own independent clause: the flat view changes only inside the subtree at p, the new subtree
   has the same normal form `norm` (same element-like nodes with their identities, payloads, parents and order, the same
   text between any two of them), no two adjacent children of any node are text nodes (`merged`), and no identity
   appears that was not there (`C01_merge_spec`; that the survivor of a run is its *first* member, and the dropping of
   empty results, are not part of the clause -- the latter cannot arise without empty text). *)
From Coq Require Import List NArith ZArith Bool.
From Delb.Base Require Import PyStr.
From Delb.Tree Require Import ATree ITree AOps.
From Coq Require Import Permutation.
From Delb.Tree Require Import AGuard AOpsFacts AFlat AFlatFacts AEdit ASound.
From Delb.Conc Require Import CTree COps CGuard CEncode Refine RefineIds Witness.
Import ListNotations.

(* which operations the history theorem covers: all of them *)
Definition covered_op (o : op) : bool := true.

Theorem C01_step_partial : forall F c o, cwf c -> covered_op o = true -> step_ok F c o = true ->
  let (c', r) := cstep F c o in shape_ok c' = true /\ astep F (abs_world c) o = (abs_world c', r).
Proof. intros F c o H _. exact (step_refines_let F c o H). Qed.
Print Assumptions C01_step_partial.

(* any length, any mix of operations and ambient filters *)
Theorem C01_history_partial : forall ops c, cwf c -> forallb (fun fo => covered_op (snd fo)) ops = true ->
  hist_ok c ops = true ->
  let (c', rs) := crun c ops in shape_ok c' = true /\ arun (abs_world c) ops = (abs_world c', rs).
Proof. intros ops c H _. exact (history_refines_let ops c H). Qed.
Print Assumptions C01_history_partial.

(* each primitive of the text layer is the plain list edit, whatever script calls it *)
Theorem C01_primitive : forall u w, shape_ok w = true -> upd_ok u w = true ->
  abs_world (apply_c u w) = apply_a u (abs_world w) /\ shape_ok (apply_c u w) = true.
Proof. exact apply_sim. Qed.
Print Assumptions C01_primitive.

(* re-creating a detached element below a default namespace does not change what a client sees *)
Theorem C01_pin : forall e d, el_ok e = true -> abs_el [] (pin_dns d e) = abs_el d e.
Proof. intros e d H. exact (pin_abs e d [] H (or_introl eq_refl)). Qed.
Print Assumptions C01_pin.

(* unique identities are preserved: the whole of cwf, for steps and histories *)
Theorem C01_step_cwf : forall F c o, cwf c -> step_ok F c o = true -> run_fresh (script F o) (abs_world c) = true ->
  cwf (fst (cstep F c o)).
Proof. exact step_cwf. Qed.
Print Assumptions C01_step_cwf.
Theorem C01_history_cwf : forall ops c, cwf c -> hist_ok c ops = true -> hist_fresh (abs_world c) ops = true ->
  cwf (fst (crun c ops)).
Proof. exact history_cwf. Qed.
Print Assumptions C01_history_cwf.
(* on the plain tree: every primitive update permutes the nodes; merging only drops the merged text nodes *)
Theorem C01_ids_preserved : forall p w, NoDup (world_ids_a w) -> run_fresh p w = true ->
  NoDup (world_ids_a (fst (run_a p w))).
Proof. exact run_nodup. Qed.
Print Assumptions C01_ids_preserved.

(* no text is lost, duplicated, moved between nodes or changed *)
Theorem C01_text_conserved : forall F c o, shape_ok c = true -> step_ok F c o = true ->
  run_structural (script F o) (abs_world c) = true ->
  Permutation (world_texts (abs_world (fst (cstep F c o))))
              (world_texts (abs_world c) ++ run_new_texts (script F o) (abs_world c)).
Proof. exact step_texts. Qed.
Print Assumptions C01_text_conserved.

Example C01_example_ids_text :
  hist_fresh (abs_world w_big) sample_history = true /\
  run_structural (script fall (OAddFollowing 3%N [SStr 20%N [120%N]; SNode 13%N; SStr 21%N [121%N]])) (abs_world w_big) = true.
Proof. split; [exact sample_history_fresh|exact (proj1 sample_step_structural)]. Qed.

(* the position scripts meet the relational specification of every editing call *)
Theorem C01_astep_sound : forall F w o w',
  ainv w -> roots_tag w -> target_exists w o -> run_fresh (script F o) w = true -> setitem_guard F w o ->
  astep F w o = (w', ROk) -> edit_ok F w o w'.
Proof. exact astep_sound. Qed.
Print Assumptions C01_astep_sound.

(* ... and so does the concrete model, through the refinement *)
Theorem C01_edit_ok : forall F c o c',
  cwf c -> step_ok F c o = true -> run_fresh (script F o) (abs_world c) = true ->
  target_exists (abs_world c) o -> setitem_guard F (abs_world c) o ->
  cstep F c o = (c', ROk) -> edit_ok F (abs_world c) o (abs_world c').
Proof. exact step_edit_ok. Qed.
Print Assumptions C01_edit_ok.

(* finding 18, against the relation: `r[0] = "x"` on a node without visible children reports success and leaves the
   world as it was, which edit_ok does not allow *)
Theorem C01_setitem_childless_violates_edit_ok : forall F w p i f s,
  filter (vis_id F w) (kids_of w p) = [] -> ~ edit_ok F w (OSetItem p i (SStr f s)) w.
Proof. exact setitem_childless_violates. Qed.
Print Assumptions C01_setitem_childless_violates_edit_ok.

(* merging, characterised without the merge function *)
Theorem C01_merge_spec : forall t, norm (merge_tree t) = norm t /\ merged (merge_tree t) = true.
Proof. intros t. split; [exact (merge_tree_norm t)|exact (merge_tree_merged t)]. Qed.
Print Assumptions C01_merge_spec.

(* the guard is necessary: one witness per class *)
Theorem C01_step_refuted_empty_content : exists c o,
  cwf c /\ step_ok fall c o = false /\ enc_world (fst (astep fall (abs_world c) o)) <> enc_world (abs_world (fst (cstep fall c o))).
Proof. exists w_ab, (OSetContent 1%N []). exact refuted_empty_head. Qed.
Print Assumptions C01_step_refuted_empty_content.

Theorem C01_step_refuted_empty_appended : exists c o,
  cwf c /\ step_ok fall c o = false /\ shape_ok (fst (cstep fall c o)) = false.
Proof. exists w_ab, (OSetContent 2%N []). exact refuted_empty_appended. Qed.
Print Assumptions C01_step_refuted_empty_appended.

Theorem C01_step_refuted_empty_string : exists c o,
  cwf c /\ step_ok fall c o = false /\ shape_ok (fst (cstep fall c o)) = false.
Proof. exists w_ab, (OAppend 0%N [SStr 3%N []]). exact refuted_empty_string. Qed.
Print Assumptions C01_step_refuted_empty_string.

Theorem C01_step_refuted_namespace : exists c o,
  cwf c /\ step_ok fall c o = false /\ enc_world (fst (astep fall (abs_world c) o)) <> enc_world (abs_world (fst (cstep fall c o))).
Proof. exists w_dns, (OAppend 0%N [SNode 1%N]). exact refuted_namespace. Qed.
Print Assumptions C01_step_refuted_namespace.

(* finding 29 is repaired (commit 53035ac): the former witness now refines the plain edit, no text is lost *)
Example C01_repaired_overwrite :
  cwf w_text /\ step_ok ftag w_text (OAppend 0%N [SStr 2%N [120%N]]) = true /\
  enc_world (fst (astep ftag (abs_world w_text) (OAppend 0%N [SStr 2%N [120%N]])))
  = enc_world (abs_world (fst (cstep ftag w_text (OAppend 0%N [SStr 2%N [120%N]])))) /\
  world_texts (abs_world (fst (cstep ftag w_text (OAppend 0%N [SStr 2%N [120%N]])))) = [(2, [120]); (1, [116; 101; 120; 116])]%N.
Proof. exact repaired_overwrite. Qed.

(* finding 18: the specification script, which follows the code, leaves the tree unchanged and reports success *)
Theorem C01_setitem_childless_refuted : exists w p i s,
  children_ids w p = [] /\ astep fall w (OSetItem p 0%Z (SStr i s)) = (w, ROk).
Proof. exists (abs_world w_dns), 0%N, 5%N, [120%N]. split; [reflexivity|exact setitem_childless_noop]. Qed.
Print Assumptions C01_setitem_childless_refuted.

(* the hypotheses are satisfiable: a history through every kind of operation on a tree with chains in every slot *)
Example C01_example : cwf w_big /\ hist_ok w_big sample_history = true /\
  snd (crun w_big sample_history) = [ROk; ROk; ROk; ROk; ROk; ROk; ROk; ROk; ROk; ROk; ROk; ROk].
Proof. exact sample_history_ok. Qed.
