(* C05 - utils._sort_nodes_in_document_order: the trie of index paths, emitted with its keys in ascending order,
   lists the offered nodes in document order.  Argument: the trie built by successive `add` calls is the *canonical*
   trie of the set of nodes added so far (`canon L t`: one entry per child subtree that holds an offered node), and
   emitting the canonical trie is filtering the pre-order. *)
From Coq Require Import List NArith ZArith Bool Lia.
From Delb.Base Require Import PyStr.
From Delb.Tree Require Import ATree ITree ANav ANavFacts ANavOrderFacts.
From Delb.Conc Require Import CTree CNav.
Import ListNotations.

Definition hits (L : list nid) (s : itree) : bool := existsb (fun x => memb x L) (ids s).
Definition canon_items (rec : itree -> trie) (L : list nid) :=
  fix go (i : nat) (kids : list itree) : list (nat * trie) :=
    match kids with
    | [] => []
    | k :: r => if hits L k then (i, rec k) :: go (S i) r else go (S i) r
    end.
Fixpoint canon (L : list nid) (s : itree) : trie :=
  match s with INode id _ kids => Trie (if memb id L then Some id else None) (canon_items (canon L) L 0 kids) end.

Lemma canon_unfold L id p kids :
  canon L (INode id p kids) = Trie (if memb id L then Some id else None) (canon_items (canon L) L 0 kids).
Proof. reflexivity. Qed.

(* the inner loop of trie_add, named *)
Definition tgo (k : nat) (rest : list nat) (n : nid) :=
  fix go (l : list (nat * trie)) : list (nat * trie) :=
    match l with
    | [] => [(k, trie_add rest n (Trie None []))]
    | (k', sub) :: r =>
        if Nat.eqb k' k then (k', trie_add rest n sub) :: r
        else if Nat.ltb k k' then (k, trie_add rest n (Trie None [])) :: (k', sub) :: r
        else (k', sub) :: go r
    end.
Lemma trie_add_nil n nd items : trie_add [] n (Trie nd items) = Trie (Some n) items.
Proof. reflexivity. Qed.
Lemma trie_add_cons k rest n nd items : trie_add (k :: rest) n (Trie nd items) = Trie nd (tgo k rest n items).
Proof. reflexivity. Qed.

(* ---- emitting the canonical trie = filtering the pre-order ---- *)
Lemma hits_false L s : hits L s = false -> filter (fun i => memb i L) (ids s) = [].
Proof.
  unfold hits. intros H. apply filter_none. intros x Hx. destruct (memb x L) eqn:E; [|reflexivity].
  exfalso. assert (existsb (fun x => memb x L) (ids s) = true) by (apply existsb_exists; exists x; auto). congruence.
Qed.
Lemma emit_canon L s : trie_emit (canon L s) = filter (fun i => memb i L) (ids s).
Proof.
  induction s as [id p kids IH] using itree_ind'. rewrite canon_unfold, ids_unfold. cbn [trie_emit filter].
  assert (Hk : forall i, flat_map (fun kv : nat * trie => match kv with (_, sub) => trie_emit sub end) (canon_items (canon L) L i kids)
                         = filter (fun i => memb i L) (flat_map ids kids)).
  { induction IH as [|k r Hk0 _ IHr]; intros i; [reflexivity|]. cbn [canon_items flat_map]. rewrite filter_app.
    destruct (hits L k) eqn:E.
    - cbn [flat_map]. rewrite Hk0, IHr. reflexivity.
    - rewrite (hits_false L k E), IHr. reflexivity. }
  rewrite Hk. destruct (memb id L); reflexivity.
Qed.

(* ---- nodes outside a subtree do not change its canonical trie ---- *)
Lemma existsb_ext_in' {A} (f g : A -> bool) l : (forall x, In x l -> f x = g x) -> existsb f l = existsb g l.
Proof.
  induction l as [|x r IH]; intros H; [reflexivity|]. cbn. rewrite (H x (or_introl eq_refl)), IH; [reflexivity|].
  intros y Hy. apply H. right. exact Hy.
Qed.
Lemma hits_cons_out L s n : ~ In n (ids s) -> hits (n :: L) s = hits L s.
Proof.
  intros Hn. unfold hits. apply existsb_ext_in'. intros x Hx. unfold memb. cbn [existsb].
  destruct (N.eqb x n) eqn:E; [apply N.eqb_eq in E; subst; contradiction|reflexivity].
Qed.
Lemma canon_cons_out L n : forall s, ~ In n (ids s) -> canon (n :: L) s = canon L s.
Proof.
  induction s as [id p kids IH] using itree_ind'. intros Hn. rewrite !canon_unfold. rewrite ids_unfold in Hn.
  assert (Hid : memb id (n :: L) = memb id L).
  { unfold memb. cbn [existsb]. destruct (N.eqb id n) eqn:E; [apply N.eqb_eq in E; subst; exfalso; apply Hn; left; reflexivity|reflexivity]. }
  rewrite Hid. f_equal.
  assert (Hkids : forall k, In k kids -> ~ In n (ids k)).
  { intros k Hk Hin. apply Hn. right. apply in_flat_map. exists k. auto. }
  clear Hn Hid. generalize 0. induction IH as [|k r Hk0 _ IHr]; intros i; [reflexivity|]. cbn [canon_items].
  rewrite (hits_cons_out L k n (Hkids k (or_introl eq_refl))), (Hk0 (Hkids k (or_introl eq_refl))).
  rewrite IHr by (intros k' Hk'; apply Hkids; right; exact Hk'). reflexivity.
Qed.
Lemma canon_items_out L n kids : (forall k, In k kids -> ~ In n (ids k)) ->
  forall i, canon_items (canon (n :: L)) (n :: L) i kids = canon_items (canon L) L i kids.
Proof.
  intros H. induction kids as [|k r IH]; intros i; [reflexivity|]. cbn [canon_items].
  rewrite (hits_cons_out L k n (H k (or_introl eq_refl))), (canon_cons_out L n k (H k (or_introl eq_refl))).
  rewrite IH by (intros k' Hk'; apply H; right; exact Hk'). reflexivity.
Qed.
Lemma canon_miss L : forall s, hits L s = false -> canon L s = Trie None [].
Proof.
  induction s as [id p kids IH] using itree_ind'. intros H. rewrite canon_unfold. unfold hits in H. rewrite ids_unfold in H.
  cbn [existsb] in H. apply orb_false_iff in H. destruct H as [H1 H2]. rewrite H1. f_equal.
  assert (Hk : forall k, In k kids -> hits L k = false).
  { intros k Hk. unfold hits. destruct (existsb (fun x => memb x L) (ids k)) eqn:E; [|reflexivity].
    apply existsb_exists in E. destruct E as [x [Hx Hm]].
    assert (existsb (fun x => memb x L) (flat_map ids kids) = true).
    { apply existsb_exists. exists x. split; [apply in_flat_map; exists k; auto|exact Hm]. }
    congruence. }
  clear H1 H2 IH. generalize 0. induction kids as [|k r IHr]; intros i; [reflexivity|]. cbn [canon_items].
  rewrite (Hk k (or_introl eq_refl)). apply IHr. intros k' Hk'. apply Hk. right. exact Hk'.
Qed.
Lemma hits_cons_in L s n : In n (ids s) -> hits (n :: L) s = true.
Proof. intros H. unfold hits. apply existsb_exists. exists n. split; [exact H|]. unfold memb. cbn. rewrite N.eqb_refl. reflexivity. Qed.
Lemma canon_items_head_ge rec L : forall kids i k sub r, canon_items rec L i kids = (k, sub) :: r -> i <= k.
Proof.
  induction kids as [|x kids' IH]; intros i k sub r H; [discriminate|]. cbn [canon_items] in H.
  destruct (hits L x); [injection H as <- _ _; lia|]. specialize (IH (S i) k sub r H). lia.
Qed.

(* ---- one `add` turns the canonical trie of L into the canonical trie of n :: L ---- *)
Lemma tgo_canon L n rest : forall l1 i kj l2,
  (forall k, In k l1 -> ~ In n (ids k)) -> (forall k, In k l2 -> ~ In n (ids k)) -> In n (ids kj) ->
  trie_add rest n (canon L kj) = canon (n :: L) kj ->
  tgo (i + length l1) rest n (canon_items (canon L) L i (l1 ++ kj :: l2))
  = canon_items (canon (n :: L)) (n :: L) i (l1 ++ kj :: l2).
Proof.
  induction l1 as [|x l1' IH]; intros i kj l2 H1 H2 Hn Hrec.
  - cbn [app length canon_items]. rewrite Nat.add_0_r, (hits_cons_in L kj n Hn), (canon_items_out L n l2 H2).
    destruct (hits L kj) eqn:E.
    + cbn [tgo]. rewrite Nat.eqb_refl, Hrec. reflexivity.
    + rewrite (canon_miss L kj E) in Hrec.
      destruct (canon_items (canon L) L (S i) l2) as [|[k' sub] r] eqn:El; cbn [tgo]; [rewrite Hrec; reflexivity|].
      pose proof (canon_items_head_ge _ _ _ _ _ _ _ El) as Hge.
      destruct (Nat.eqb_spec k' i); [lia|]. destruct (Nat.ltb_spec i k'); [|lia]. rewrite Hrec. reflexivity.
  - cbn [app length canon_items]. rewrite (hits_cons_out L x n (H1 x (or_introl eq_refl))), (canon_cons_out L n x (H1 x (or_introl eq_refl))).
    assert (IH' := IH (S i) kj l2 (fun k Hk => H1 k (or_intror Hk)) H2 Hn Hrec).
    replace (i + S (length l1')) with (S i + length l1') by lia.
    destruct (hits L x); [|exact IH'].
    cbn [tgo]. destruct (Nat.eqb_spec i (S i + length l1')); [lia|]. destruct (Nat.ltb_spec (S i + length l1') i); [lia|].
    f_equal. exact IH'.
Qed.

Lemma add_canon L n : forall s, NoDup (ids s) -> In n (ids s) -> forall p, rpath n s = Some p ->
  trie_add p n (canon L s) = canon (n :: L) s.
Proof.
  induction s as [id pl kids IH] using itree_ind'. intros Hnd Hn p Hp. rewrite rpath_unfold in Hp. rewrite !canon_unfold.
  rewrite ids_unfold in Hnd, Hn. inversion Hnd as [|? ? Hni Hnd']; subst.
  destruct (N.eqb id n) eqn:E.
  - apply N.eqb_eq in E. subst id. injection Hp as <-. rewrite trie_add_nil.
    assert (memb n (n :: L) = true) as -> by (unfold memb; cbn; rewrite N.eqb_refl; reflexivity).
    f_equal. symmetry. apply canon_items_out. intros k Hk Hin. apply Hni. apply in_flat_map. exists k. auto.
  - destruct Hn as [->|Hn]; [rewrite N.eqb_refl in E; discriminate|].
    assert (Hid : memb id (n :: L) = memb id L) by (unfold memb; cbn [existsb]; rewrite E; reflexivity).
    rewrite Hid. apply in_flat_map in Hn. destruct Hn as [kj [Hkj Hn]]. destruct (in_split _ _ Hkj) as [l1 [l2 Ek]]. subst kids.
    assert (H1 : forall k, In k l1 -> ~ In n (ids k)).
    { intros k Hk Hin. rewrite flat_map_app in Hnd'. eapply nodup_app_disj; [exact Hnd'|apply in_flat_map; exists k; eauto|].
      cbn [flat_map]. apply in_or_app. left. exact Hn. }
    assert (H2 : forall k, In k l2 -> ~ In n (ids k)).
    { intros k Hk Hin. rewrite flat_map_app in Hnd'. apply nodup_app_r in Hnd'. cbn [flat_map] in Hnd'.
      eapply nodup_app_disj; [exact Hnd'|exact Hn|apply in_flat_map; exists k; eauto]. }
    destruct (rpath_some n kj Hn) as [q Hq].
    rewrite (rpath_kids_pick (rpath n) l1 0 kj l2 q) in Hp; [|intros x Hx; apply rpath_none; exact (H1 x Hx)|exact Hq].
    injection Hp as <-. rewrite trie_add_cons. f_equal.
    rewrite Forall_forall in IH.
    assert (Hndk : NoDup (ids kj)) by exact (flat_map_nodup_part ids _ kj Hnd' Hkj).
    exact (tgo_canon L n q l1 0 kj l2 H1 H2 Hn (IH kj Hkj Hndk Hn q Hq)).
Qed.

(* ================================================================ under an ambient filter D ================
   The indexes are positions among the D-visible siblings; a hidden node that holds an offered node makes `index` raise.
   Under the hypothesis that no hidden node (below the root) holds an offered node the same argument goes through with
   the canonical trie indexed by visible positions. *)
Definition canon_itemsD (D : nfilter) (rec : itree -> trie) (L : list nid) :=
  fix go (i : nat) (kids : list itree) : list (nat * trie) :=
    match kids with
    | [] => []
    | k :: r => if D (iid k) then (if hits L k then (i, rec k) :: go (S i) r else go (S i) r) else go i r
    end.
Fixpoint canonD (D : nfilter) (L : list nid) (s : itree) : trie :=
  match s with INode id _ kids => Trie (if memb id L then Some id else None) (canon_itemsD D (canonD D L) L 0 kids) end.
Lemma canonD_unfold D L id p kids :
  canonD D L (INode id p kids) = Trie (if memb id L then Some id else None) (canon_itemsD D (canonD D L) L 0 kids).
Proof. reflexivity. Qed.

(* no hidden node strictly below s holds a node of L *)
Definition hidden_free (D : nfilter) (L : list nid) (s : itree) : Prop :=
  forall x, In x (flat_map subtrees (ikids s)) -> D (iid x) = false -> hits L x = false.
Lemma hidden_free_kid D L s k : hidden_free D L s -> In k (ikids s) -> hidden_free D L k.
Proof.
  intros H Hk x Hx. apply H. apply in_flat_map. exists k. split; [exact Hk|].
  destruct k as [i p kk]. rewrite subtrees_unfold. right. exact Hx.
Qed.
Lemma hidden_free_self D L s k : hidden_free D L s -> In k (ikids s) -> D (iid k) = false -> hits L k = false.
Proof. intros H Hk. apply H. apply in_flat_map. exists k. split; [exact Hk|apply self_in_subtrees]. Qed.

Lemma emit_canonD D L : forall s, hidden_free D L s -> trie_emit (canonD D L s) = filter (fun i => memb i L) (ids s).
Proof.
  induction s as [id p kids IH] using itree_ind'. intros Hh. rewrite canonD_unfold, ids_unfold. cbn [trie_emit filter].
  assert (Hk : forall i, flat_map (fun kv : nat * trie => match kv with (_, sub) => trie_emit sub end) (canon_itemsD D (canonD D L) L i kids)
                         = filter (fun i => memb i L) (flat_map ids kids)).
  { assert (Hkids : forall k, In k kids -> hidden_free D L k /\ (D (iid k) = false -> hits L k = false)).
    { intros k Hk. split; [exact (hidden_free_kid D L _ k Hh Hk)|exact (hidden_free_self D L _ k Hh Hk)]. }
    clear Hh. induction IH as [|k r Hk0 _ IHr]; intros i; [reflexivity|]. cbn [canon_itemsD flat_map]. rewrite filter_app.
    destruct (Hkids k (or_introl eq_refl)) as [Hf Hs].
    assert (IHr' := IHr (fun k' Hk' => Hkids k' (or_intror Hk'))).
    destruct (D (iid k)) eqn:Ed.
    - destruct (hits L k) eqn:E.
      + cbn [flat_map]. rewrite (Hk0 Hf), IHr'. reflexivity.
      + rewrite (hits_false L k E), IHr'. reflexivity.
    - rewrite (hits_false L k (Hs eq_refl)), IHr'. reflexivity. }
  rewrite Hk. destruct (memb id L); reflexivity.
Qed.

Lemma canonD_cons_out D L n : forall s, ~ In n (ids s) -> canonD D (n :: L) s = canonD D L s.
Proof.
  induction s as [id p kids IH] using itree_ind'. intros Hn. rewrite !canonD_unfold. rewrite ids_unfold in Hn.
  assert (Hid : memb id (n :: L) = memb id L).
  { unfold memb. cbn [existsb]. destruct (N.eqb id n) eqn:E; [apply N.eqb_eq in E; subst; exfalso; apply Hn; left; reflexivity|reflexivity]. }
  rewrite Hid. f_equal.
  assert (Hkids : forall k, In k kids -> ~ In n (ids k)).
  { intros k Hk Hin. apply Hn. right. apply in_flat_map. exists k. auto. }
  clear Hn Hid. generalize 0. induction IH as [|k r Hk0 _ IHr]; intros i; [reflexivity|]. cbn [canon_itemsD].
  rewrite (hits_cons_out L k n (Hkids k (or_introl eq_refl))), (Hk0 (Hkids k (or_introl eq_refl))).
  rewrite !IHr by (intros k' Hk'; apply Hkids; right; exact Hk'). reflexivity.
Qed.
Lemma canon_itemsD_out D L n kids : (forall k, In k kids -> ~ In n (ids k)) ->
  forall i, canon_itemsD D (canonD D (n :: L)) (n :: L) i kids = canon_itemsD D (canonD D L) L i kids.
Proof.
  intros H. induction kids as [|k r IH]; intros i; [reflexivity|]. cbn [canon_itemsD].
  rewrite (hits_cons_out L k n (H k (or_introl eq_refl))), (canonD_cons_out D L n k (H k (or_introl eq_refl))).
  rewrite !IH by (intros k' Hk'; apply H; right; exact Hk'). reflexivity.
Qed.
Lemma canonD_miss D L : forall s, hits L s = false -> canonD D L s = Trie None [].
Proof.
  induction s as [id p kids IH] using itree_ind'. intros H. rewrite canonD_unfold. unfold hits in H. rewrite ids_unfold in H.
  cbn [existsb] in H. apply orb_false_iff in H. destruct H as [H1 H2]. rewrite H1. f_equal.
  assert (Hk : forall k, In k kids -> hits L k = false).
  { intros k Hk. unfold hits. destruct (existsb (fun x => memb x L) (ids k)) eqn:E; [|reflexivity].
    apply existsb_exists in E. destruct E as [x [Hx Hm]].
    assert (existsb (fun x => memb x L) (flat_map ids kids) = true).
    { apply existsb_exists. exists x. split; [apply in_flat_map; exists k; auto|exact Hm]. }
    congruence. }
  clear H1 H2 IH. generalize 0. induction kids as [|k r IHr]; intros i; [reflexivity|]. cbn [canon_itemsD].
  rewrite (Hk k (or_introl eq_refl)). destruct (D (iid k)); apply IHr; intros k' Hk'; apply Hk; right; exact Hk'.
Qed.
Lemma canon_itemsD_head_ge D rec L : forall kids i k sub r, canon_itemsD D rec L i kids = (k, sub) :: r -> i <= k.
Proof.
  induction kids as [|x kids' IH]; intros i k sub r H; [discriminate|]. cbn [canon_itemsD] in H.
  destruct (D (iid x)); [|exact (IH i k sub r H)].
  destruct (hits L x); [injection H as <- _ _; lia|]. specialize (IH (S i) k sub r H). lia.
Qed.

Lemma tgo_canonD D L n rest : forall l1 i kj l2,
  (forall k, In k l1 -> ~ In n (ids k)) -> (forall k, In k l2 -> ~ In n (ids k)) -> In n (ids kj) -> D (iid kj) = true ->
  trie_add rest n (canonD D L kj) = canonD D (n :: L) kj ->
  tgo (i + vcount D l1) rest n (canon_itemsD D (canonD D L) L i (l1 ++ kj :: l2))
  = canon_itemsD D (canonD D (n :: L)) (n :: L) i (l1 ++ kj :: l2).
Proof.
  induction l1 as [|x l1' IH]; intros i kj l2 H1 H2 Hn Hvis Hrec.
  - unfold vcount. cbn [app filter length canon_itemsD]. rewrite Nat.add_0_r, Hvis, (hits_cons_in L kj n Hn), (canon_itemsD_out D L n l2 H2).
    destruct (hits L kj) eqn:E.
    + cbn [tgo]. rewrite Nat.eqb_refl, Hrec. reflexivity.
    + rewrite (canonD_miss D L kj E) in Hrec.
      destruct (canon_itemsD D (canonD D L) L (S i) l2) as [|[k' sub] r] eqn:El; cbn [tgo]; [rewrite Hrec; reflexivity|].
      pose proof (canon_itemsD_head_ge _ _ _ _ _ _ _ _ El) as Hge.
      destruct (Nat.eqb_spec k' i); [lia|]. destruct (Nat.ltb_spec i k'); [|lia]. rewrite Hrec. reflexivity.
  - cbn [app canon_itemsD]. rewrite (hits_cons_out L x n (H1 x (or_introl eq_refl))), (canonD_cons_out D L n x (H1 x (or_introl eq_refl))).
    unfold vcount. cbn [filter]. fold (vcount D l1').
    destruct (D (iid x)) eqn:Ed.
    + assert (IH' := IH (S i) kj l2 (fun k Hk => H1 k (or_intror Hk)) H2 Hn Hvis Hrec).
      cbn [length]. fold (vcount D l1'). replace (i + S (vcount D l1')) with (S i + vcount D l1') by lia.
      destruct (hits L x); [|exact IH'].
      cbn [tgo]. destruct (Nat.eqb_spec i (S i + vcount D l1')); [lia|]. destruct (Nat.ltb_spec (S i + vcount D l1') i); [lia|].
      f_equal. exact IH'.
    + exact (IH i kj l2 (fun k Hk => H1 k (or_intror Hk)) H2 Hn Hvis Hrec).
Qed.

(* every node strictly below s on the way to n (n included) is visible *)
Definition way_visible (D : nfilter) (n : nid) (s : itree) : Prop :=
  forall x, In x (flat_map subtrees (ikids s)) -> In n (ids x) -> D (iid x) = true.
Lemma add_canonD D L n : forall s, NoDup (ids s) -> In n (ids s) -> way_visible D n s -> forall p, rpathD D n s = Some p ->
  trie_add p n (canonD D L s) = canonD D (n :: L) s.
Proof.
  induction s as [id pl kids IH] using itree_ind'. intros Hnd Hn Hw p Hp. rewrite rpathD_unfold in Hp. rewrite !canonD_unfold.
  rewrite ids_unfold in Hnd, Hn. inversion Hnd as [|? ? Hni Hnd']; subst.
  destruct (N.eqb id n) eqn:E.
  - apply N.eqb_eq in E. subst id. injection Hp as <-. rewrite trie_add_nil.
    assert (memb n (n :: L) = true) as -> by (unfold memb; cbn; rewrite N.eqb_refl; reflexivity).
    f_equal. symmetry. apply canon_itemsD_out. intros k Hk Hin. apply Hni. apply in_flat_map. exists k. auto.
  - destruct Hn as [->|Hn]; [rewrite N.eqb_refl in E; discriminate|].
    assert (Hid : memb id (n :: L) = memb id L) by (unfold memb; cbn [existsb]; rewrite E; reflexivity).
    rewrite Hid. apply in_flat_map in Hn. destruct Hn as [kj [Hkj Hn]]. destruct (in_split _ _ Hkj) as [l1 [l2 Ek]]. subst kids.
    assert (H1 : forall k, In k l1 -> ~ In n (ids k)).
    { intros k Hk Hin. rewrite flat_map_app in Hnd'. eapply nodup_app_disj; [exact Hnd'|apply in_flat_map; exists k; eauto|].
      cbn [flat_map]. apply in_or_app. left. exact Hn. }
    assert (H2 : forall k, In k l2 -> ~ In n (ids k)).
    { intros k Hk Hin. rewrite flat_map_app in Hnd'. apply nodup_app_r in Hnd'. cbn [flat_map] in Hnd'.
      eapply nodup_app_disj; [exact Hnd'|exact Hn|apply in_flat_map; exists k; eauto]. }
    assert (Hvis : D (iid kj) = true).
    { apply Hw; [|exact Hn]. cbn [ikids]. apply in_flat_map. exists kj. split; [exact Hkj|apply self_in_subtrees]. }
    assert (Hwk : way_visible D n kj).
    { intros x Hx. apply Hw. cbn [ikids]. apply in_flat_map. exists kj. split; [exact Hkj|].
      destruct kj as [j pj kk]. rewrite subtrees_unfold. right. exact Hx. }
    destruct (rpathD_some D n kj Hn) as [q Hq].
    rewrite (rpath_kidsD_pick D (rpathD D n) l1 0 kj l2 q) in Hp; [|intros x Hx; apply rpathD_none; exact (H1 x Hx)|exact Hq].
    injection Hp as <-. rewrite trie_add_cons. f_equal.
    rewrite Forall_forall in IH.
    assert (Hndk : NoDup (ids kj)) by exact (flat_map_nodup_part ids _ kj Hnd' Hkj).
    exact (tgo_canonD D L n q l1 0 kj l2 H1 H2 Hn Hvis (IH kj Hkj Hndk Hn Hwk q Hq)).
Qed.
