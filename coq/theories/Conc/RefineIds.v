(* Identities and text on the concrete side: carried over from the plain tree through the refinement.
   Lemmas for Props/C01.v / C10.v. *)
From Coq Require Import Permutation.
From Delb.Base Require Import PyStr.
From Delb.Tree Require Import ATree ITree AOps AGuard AOpsFacts.
From Delb.Conc Require Import CTree COps CGuard Refine.

Lemma chain_ids_texts ch : chain_ok ch = true -> chain_ids ch = map t_id (chain_texts ch).
Proof.
  destruct ch as [[h|] [s|] a]; unfold chain_ok, chain_ids, chain_texts; cbn [ch_head ch_slot ch_app]; try discriminate.
  - reflexivity.
  - intros H. destruct a; [reflexivity|discriminate].
Qed.
Lemma ids_texts l : flat_map ids (map atext l) = map t_id l.
Proof. induction l as [|t r IH]; [reflexivity|]. cbn [map flat_map ids atext app]. rewrite IH. reflexivity. Qed.

Lemma cel_ids_abs e : el_ok e = true -> forall inh, cel_ids e = ids (abs_el inh e).
Proof.
  induction e as [i k own data kids IH] using cel_ind'. intros Hok inh. rewrite abs_el_eq. cbn [cel_ids ids].
  rewrite el_ok_eq in Hok. apply andb3 in Hok as (Hd & _ & Hkids). f_equal. unfold akids. rewrite flat_map_app, ids_texts.
  rewrite (chain_ids_texts _ Hd). f_equal. set (dns := in_scope inh own). clearbody dns.
  induction kids as [|[c t] r IHr]; [reflexivity|]. inversion IH as [|? ? Hc Hrest]; subst. cbn [fst] in Hc.
  cbn [forallb kid_ok] in Hkids. apply andb_true_iff in Hkids as [Hct Hr]. apply andb_true_iff in Hct as [Hcok Htok].
  cbn [flat_map akid]. rewrite flat_map_app. cbn [flat_map]. rewrite ids_texts.
  rewrite <- (Hc Hcok dns), <- (chain_ids_texts _ Htok), <- (IHr Hrest Hr). reflexivity.
Qed.

Lemma forallb_and {X} (p q : X -> bool) l : forallb (fun x => p x && q x)%bool l = true -> forallb p l = true.
Proof. induction l; cbn; [reflexivity|]. intros H. apply andb_true_iff in H as [H1 H2]. apply andb_true_iff in H1 as [H1 _]. rewrite H1. auto. Qed.

Lemma world_ids_abs w : shape_ok w = true -> world_ids w = world_ids_a (abs_world w).
Proof.
  intros Hs. destruct (shape_split _ Hs) as [Hd Hl]. unfold world_ids, world_ids_a, forest. cbn [abs_world docs loose].
  rewrite flat_map_app. f_equal.
  - induction (w_docs w) as [|d r IH]; [reflexivity|]. cbn [forallb] in Hd. apply andb_true_iff in Hd as [Hd1 Hr].
    cbn [map flat_map]. rewrite flat_map_app, (IH Hr). f_equal. unfold doc_ok in Hd1.
    apply andb_true_iff in Hd1 as [Hd1 Hepi]. apply andb_true_iff in Hd1 as [Hd1 _]. apply andb_true_iff in Hd1 as [Hpro Hroot].
    unfold doc_ids, abs_doc, doc_nodes. rewrite flat_map_app. cbn [flat_map].
    assert (F : forall l, forallb (fun e => el_ok e && negb (is_ktag (ckind_of e)))%bool l = true ->
                          flat_map cel_ids l = flat_map ids (map abs_top l)).
    { induction l as [|e l IHl]; [reflexivity|]. cbn [forallb]. intros H. apply andb_true_iff in H as [H1 H2].
      apply andb_true_iff in H1 as [H1 _]. cbn [map flat_map]. rewrite (cel_ids_abs _ H1 []), (IHl H2). reflexivity. }
    rewrite (F _ Hpro), (F _ Hepi), (cel_ids_abs _ Hroot []). reflexivity.
  - induction (w_loose w) as [|l r IH]; [reflexivity|]. cbn [forallb] in Hl. apply andb_true_iff in Hl as [Hl1 Hr].
    cbn [map flat_map]. rewrite (IH Hr). f_equal. destruct l as [e|t]; [apply (cel_ids_abs _ Hl1 [])|reflexivity].
Qed.

Lemma nodupb_spec l : nodupb l = true <-> NoDup l.
Proof.
  induction l as [|x r IH]; cbn [nodupb]; [split; [constructor|reflexivity]|]. rewrite andb_true_iff, negb_true_iff, IH.
  split.
  - intros [H1 H2]. constructor; [|exact H2]. intros Hin. assert (existsb (N.eqb x) r = true); [|congruence].
    apply existsb_exists. exists x. split; [exact Hin|apply N.eqb_refl].
  - intros H. inversion H as [|? ? Hn Hr]; subst. split; [|exact Hr]. destruct (existsb (N.eqb x) r) eqn:E; [|reflexivity].
    apply existsb_exists in E as [y [Hy E]]. apply N.eqb_eq in E. subst. contradiction.
Qed.
Lemma cwf_iff w : cwf w <-> NoDup (world_ids w) /\ shape_ok w = true.
Proof.
  unfold cwf, cwf_b, shape_ok. rewrite <- nodupb_spec. rewrite <- andb_assoc, andb_true_iff. reflexivity.
Qed.

(* well-formedness -- unique identities included -- is preserved when the objects a call creates are new *)
Theorem step_cwf F c o : cwf c -> step_ok F c o = true -> run_fresh (script F o) (abs_world c) = true ->
  cwf (fst (cstep F c o)).
Proof.
  intros Hc Hg Hf. apply cwf_iff in Hc as [N Hs]. destruct (step_refines F c o Hs Hg) as [E Hs'].
  apply cwf_iff. split; [|exact Hs']. rewrite (world_ids_abs _ Hs').
  assert (E' : abs_world (fst (cstep F c o)) = fst (astep F (abs_world c) o)) by (rewrite E; reflexivity).
  rewrite E'. unfold astep. apply run_nodup; [|exact Hf]. rewrite <- (world_ids_abs _ Hs). exact N.
Qed.
Theorem history_cwf ops : forall c, cwf c -> hist_ok c ops = true -> hist_fresh (abs_world c) ops = true ->
  cwf (fst (crun c ops)).
Proof.
  induction ops as [|[F o] r IH]; intros c Hc Hg Hf; cbn [crun hist_ok hist_fresh] in *; [exact Hc|].
  apply andb_true_iff in Hg as [Hg1 Hg2]. apply andb_true_iff in Hf as [Hf1 Hf2].
  pose proof (step_cwf F c o Hc Hg1 Hf1) as Hc1. apply cwf_iff in Hc as [_ Hs].
  destruct (step_refines F c o Hs Hg1) as [E _].
  assert (E' : fst (astep F (abs_world c) o) = abs_world (fst (cstep F c o))) by (rewrite E; reflexivity).
  rewrite E' in Hf2. destruct (cstep F c o) as [c1 res]. cbn [fst] in *.
  specialize (IH c1 Hc1 Hg2 Hf2). destruct (crun c1 r) as [c2 rs]. exact IH.
Qed.

(* no text is lost, duplicated or changed by a call that neither assigns content nor merges: the text nodes after
   the call are those before it plus the ones made from the strings offered *)
Theorem step_texts F c o : shape_ok c = true -> step_ok F c o = true ->
  run_structural (script F o) (abs_world c) = true ->
  Permutation (world_texts (abs_world (fst (cstep F c o))))
              (world_texts (abs_world c) ++ run_new_texts (script F o) (abs_world c)).
Proof.
  intros Hs Hg Hst. destruct (step_refines F c o Hs Hg) as [E _].
  assert (E' : abs_world (fst (cstep F c o)) = fst (astep F (abs_world c) o)) by (rewrite E; reflexivity).
  rewrite E'. unfold astep. apply run_texts, Hst.
Qed.

(* ------------------------------------------------------------------ the abstraction of a well-formed concrete world
   satisfies the invariant of astep_sound *)
From Delb.Tree Require Import AFlat AFlatFacts AEdit ASound.

Lemma abs_nontag_leaf inh e : el_ok e = true -> is_ktag (ckind_of e) = false ->
  ikids (abs_el inh e) = [] /\ is_cpik (ikind (abs_el inh e)) = true.
Proof.
  destruct e as [i k own data kids]. rewrite el_ok_eq. intros H Hk. apply andb3 in H as (Hd & Hks & _). cbn [ckind_of] in Hk.
  unfold kind_shape in Hks. rewrite Hk in Hks. apply andb_true_iff in Hks as [Hks _]. apply andb_true_iff in Hks as [He Hn].
  apply null_nil in Hn. subst kids. destruct data as [[h|] [s|] [|a0 a]]; try discriminate. rewrite abs_el_eq.
  split; [reflexivity|]. destruct k; [discriminate|reflexivity|reflexivity].
Qed.
Lemma abs_entries_tags e : forall inh, el_ok e = true ->
  forall q p ks, In (q, p, ks) (flat (abs_el inh e)) -> ks <> [] -> kind_of_payload p = NTag.
Proof.
  induction e as [i k own data kids IH] using cel_ind'. intros inh Hok q p ks Hin Hne. rewrite abs_el_eq, flat_eq in Hin.
  destruct Hin as [E|Hin].
  - injection E as _ <- <-. destruct (is_ktag k) eqn:Ek; [destruct k; try discriminate; reflexivity|].
    exfalso. apply Hne. destruct (abs_nontag_leaf inh _ Hok Ek) as [H _]. rewrite abs_el_eq in H. cbn [ikids] in H. rewrite H. reflexivity.
  - rewrite el_ok_eq in Hok. apply andb3 in Hok as (_ & _ & Hkids). unfold akids in Hin. rewrite flat_map_app in Hin. apply in_app_or in Hin.
    destruct Hin as [Hin|Hin].
    + exfalso. apply Hne. clear -Hin. induction (chain_texts data) as [|t r IHr]; [destruct Hin|]. cbn [map flat_map flat atext app] in Hin.
      destruct Hin as [E|Hin]; [injection E as _ _ <-; reflexivity|apply IHr, Hin].
    + set (dns := in_scope inh own) in *. clearbody dns. induction kids as [|[c t] r IHr]; [destruct Hin|].
      inversion IH as [|? ? Hc Hrest]; subst. cbn [fst] in Hc. cbn [forallb kid_ok] in Hkids. apply andb_true_iff in Hkids as [Hct Hr].
      apply andb_true_iff in Hct as [Hcok _]. cbn [flat_map akid] in Hin. rewrite flat_map_app in Hin. apply in_app_or in Hin.
      destruct Hin as [Hin|Hin]; [|apply (IHr Hrest Hr Hin)]. cbn [flat_map] in Hin. apply in_app_or in Hin. destruct Hin as [Hin|Hin].
      * apply (Hc dns Hcok q p ks Hin Hne).
      * exfalso. apply Hne. clear -Hin. induction (chain_texts t) as [|t0 r0 IHr0]; [destruct Hin|]. cbn [map flat_map flat atext app] in Hin.
        destruct Hin as [E|Hin]; [injection E as _ _ <-; reflexivity|apply IHr0, Hin].
Qed.

Lemma abs_ainv c : cwf c -> ainv (abs_world c) /\ roots_tag (abs_world c).
Proof.
  intros Hc. apply cwf_iff in Hc as [N Hs]. destruct (shape_split _ Hs) as [Hd Hl]. rewrite forallb_forall in Hd, Hl.
  assert (Docs : forall d, In d (w_docs c) -> doc_ok d = true) by exact Hd.
  split; [split; [split|]|].
  - rewrite <- (world_ids_abs _ Hs). exact N.
  - intros d t Hdin Ht. cbn [abs_world docs] in Hdin. apply in_map_iff in Hdin as (d0 & <- & Hd0). specialize (Docs d0 Hd0).
    unfold doc_ok in Docs. apply andb_true_iff in Docs as [D1 Hepi]. apply andb_true_iff in D1 as [D1 _]. apply andb_true_iff in D1 as [Hpro _].
    rewrite forallb_forall in Hpro, Hepi. unfold abs_doc, doc_sibs in Ht. apply in_app_or in Ht.
    destruct Ht as [Ht|Ht]; apply in_map_iff in Ht as (e & <- & He); [specialize (Hpro e He)|specialize (Hepi e He)];
      apply andb_true_iff in Hpro || apply andb_true_iff in Hepi.
    + destruct Hpro as [H1 H2]. apply negb_true_iff in H2. apply abs_nontag_leaf; assumption.
    + destruct Hepi as [H1 H2]. apply negb_true_iff in H2. apply abs_nontag_leaf; assumption.
  - intros q p ks Hn Hne. unfold node_of in Hn. apply lookup_some_in in Hn. unfold wflat, forest in Hn. cbn [abs_world docs loose] in Hn.
    rewrite flat_map_app in Hn. apply in_app_or in Hn. destruct Hn as [Hn|Hn].
    + apply in_flat_map in Hn as (t & Ht & Hin). apply in_flat_map in Ht as (d & Hdin & Ht). apply in_map_iff in Hdin as (d0 & <- & Hd0).
      specialize (Docs d0 Hd0). unfold doc_ok in Docs. apply andb_true_iff in Docs as [D1 Hepi]. apply andb_true_iff in D1 as [D1 _].
      apply andb_true_iff in D1 as [Hpro Hroot]. rewrite forallb_forall in Hpro, Hepi. unfold abs_doc, doc_nodes in Ht. apply in_app_or in Ht.
      destruct Ht as [Ht|[<-|Ht]].
      * apply in_map_iff in Ht as (e & <- & He). specialize (Hpro e He). apply andb_true_iff in Hpro as [H1 _]. unfold abs_top in Hin. apply (abs_entries_tags e [] H1 q p ks Hin Hne).
      * unfold abs_top in Hin. apply (abs_entries_tags _ [] Hroot q p ks Hin Hne).
      * apply in_map_iff in Ht as (e & <- & He). specialize (Hepi e He). apply andb_true_iff in Hepi as [H1 _]. unfold abs_top in Hin. apply (abs_entries_tags e [] H1 q p ks Hin Hne).
    + apply in_flat_map in Hn as (t & Ht & Hin). apply in_map_iff in Ht as (l & <- & Hlin). specialize (Hl l Hlin). destruct l as [e|t0].
      * cbn [abs_loose] in Hin. unfold abs_top in Hin. cbn [loose_ok] in Hl. apply (abs_entries_tags e [] Hl q p ks Hin Hne).
      * cbn [abs_loose atext flat flat_map map] in Hin. destruct Hin as [E|[]]. injection E as _ _ <-. contradiction.
  - intros d Hdin. cbn [abs_world docs] in Hdin. apply in_map_iff in Hdin as (d0 & <- & Hd0). specialize (Docs d0 Hd0).
    unfold doc_ok in Docs. apply andb_true_iff in Docs as [D1 _]. apply andb_true_iff in D1 as [_ Htag]. unfold abs_doc, doc_root, abs_top.
    destruct (d_root d0) as [i [] ? ? ?]; try discriminate. reflexivity.
Qed.

(* end to end: a successful call on the concrete model, seen through the abstraction, satisfies the relational
   specification of the call *)
Theorem step_edit_ok F c o c' : cwf c -> step_ok F c o = true -> run_fresh (script F o) (abs_world c) = true ->
  target_exists (abs_world c) o -> setitem_guard F (abs_world c) o ->
  cstep F c o = (c', ROk) -> edit_ok F (abs_world c) o (abs_world c').
Proof.
  intros Hc Hg Hf Ht Hs Hrun. destruct (abs_ainv c Hc) as [I R]. destruct (step_refines F c o (cwf_shape _ Hc) Hg) as [E _].
  rewrite Hrun in E. cbn [fst snd] in E. apply (astep_sound F _ o _ I R Ht Hf Hs E).
Qed.
