(* Identities and text on the concrete side: carried over from the plain tree through the refinement.
   Lemmas for Props/C01.v / C10.v. *)
From Coq Require Import Permutation.
From Delb.Base Require Import PyStr.
From Delb.Tree Require Import ATree ITree AOps AGuard AOpsFacts.
From Delb.Conc Require Import CTree COps CGuard Refine.

Lemma chain_ids_texts ch : chain_ok ch = true -> chain_ids ch = map t_id (chain_texts ch).
Proof.
  destruct ch as [[h|] [s|] a]; unfold chain_ok, chain_ids, chain_texts; cbn [ch_head ch_slot ch_app]; try discriminate.
  - reflexivity.
  - intros H. destruct a; [reflexivity|discriminate].
Qed.
Lemma ids_texts l : flat_map ids (map atext l) = map t_id l.
Proof. induction l as [|t r IH]; [reflexivity|]. cbn [map flat_map ids atext app]. rewrite IH. reflexivity. Qed.

Lemma cel_ids_abs e : el_ok e = true -> forall inh, cel_ids e = ids (abs_el inh e).
Proof.
  induction e as [i k own data kids IH] using cel_ind'. intros Hok inh. rewrite abs_el_eq. cbn [cel_ids ids].
  rewrite el_ok_eq in Hok. apply andb3 in Hok as (Hd & _ & Hkids). f_equal. unfold akids. rewrite flat_map_app, ids_texts.
  rewrite (chain_ids_texts _ Hd). f_equal. set (dns := in_scope inh own). clearbody dns.
  induction kids as [|[c t] r IHr]; [reflexivity|]. inversion IH as [|? ? Hc Hrest]; subst. cbn [fst] in Hc.
  cbn [forallb kid_ok] in Hkids. apply andb_true_iff in Hkids as [Hct Hr]. apply andb_true_iff in Hct as [Hcok Htok].
  cbn [flat_map akid]. rewrite flat_map_app. cbn [flat_map]. rewrite ids_texts.
  rewrite <- (Hc Hcok dns), <- (chain_ids_texts _ Htok), <- (IHr Hrest Hr). reflexivity.
Qed.

Lemma forallb_and {X} (p q : X -> bool) l : forallb (fun x => p x && q x)%bool l = true -> forallb p l = true.
Proof. induction l; cbn; [reflexivity|]. intros H. apply andb_true_iff in H as [H1 H2]. apply andb_true_iff in H1 as [H1 _]. rewrite H1. auto. Qed.

Lemma world_ids_abs w : shape_ok w = true -> world_ids w = world_ids_a (abs_world w).
Proof.
  intros Hs. destruct (shape_split _ Hs) as [Hd Hl]. unfold world_ids, world_ids_a, forest. cbn [abs_world docs loose].
  rewrite flat_map_app. f_equal.
  - induction (w_docs w) as [|d r IH]; [reflexivity|]. cbn [forallb] in Hd. apply andb_true_iff in Hd as [Hd1 Hr].
    cbn [map flat_map]. rewrite flat_map_app, (IH Hr). f_equal. unfold doc_ok in Hd1.
    apply andb_true_iff in Hd1 as [Hd1 Hepi]. apply andb_true_iff in Hd1 as [Hd1 _]. apply andb_true_iff in Hd1 as [Hpro Hroot].
    unfold doc_ids, abs_doc, doc_nodes. rewrite flat_map_app. cbn [flat_map].
    assert (F : forall l, forallb (fun e => el_ok e && negb (is_ktag (ckind_of e)))%bool l = true ->
                          flat_map cel_ids l = flat_map ids (map abs_top l)).
    { induction l as [|e l IHl]; [reflexivity|]. cbn [forallb]. intros H. apply andb_true_iff in H as [H1 H2].
      apply andb_true_iff in H1 as [H1 _]. cbn [map flat_map]. rewrite (cel_ids_abs _ H1 []), (IHl H2). reflexivity. }
    rewrite (F _ Hpro), (F _ Hepi), (cel_ids_abs _ Hroot []). reflexivity.
  - induction (w_loose w) as [|l r IH]; [reflexivity|]. cbn [forallb] in Hl. apply andb_true_iff in Hl as [Hl1 Hr].
    cbn [map flat_map]. rewrite (IH Hr). f_equal. destruct l as [e|t]; [apply (cel_ids_abs _ Hl1 [])|reflexivity].
Qed.

Lemma nodupb_spec l : nodupb l = true <-> NoDup l.
Proof.
  induction l as [|x r IH]; cbn [nodupb]; [split; [constructor|reflexivity]|]. rewrite andb_true_iff, negb_true_iff, IH.
  split.
  - intros [H1 H2]. constructor; [|exact H2]. intros Hin. assert (existsb (N.eqb x) r = true); [|congruence].
    apply existsb_exists. exists x. split; [exact Hin|apply N.eqb_refl].
  - intros H. inversion H as [|? ? Hn Hr]; subst. split; [|exact Hr]. destruct (existsb (N.eqb x) r) eqn:E; [|reflexivity].
    apply existsb_exists in E as [y [Hy E]]. apply N.eqb_eq in E. subst. contradiction.
Qed.
Lemma cwf_iff w : cwf w <-> NoDup (world_ids w) /\ shape_ok w = true.
Proof.
  unfold cwf, cwf_b, shape_ok. rewrite <- nodupb_spec. rewrite <- andb_assoc, andb_true_iff. reflexivity.
Qed.

(* well-formedness -- unique identities included -- is preserved when the objects a call creates are new *)
Theorem step_cwf F c o : cwf c -> step_ok F c o = true -> run_fresh (script F o) (abs_world c) = true ->
  cwf (fst (cstep F c o)).
Proof.
  intros Hc Hg Hf. apply cwf_iff in Hc as [N Hs]. destruct (step_refines F c o Hs Hg) as [E Hs'].
  apply cwf_iff. split; [|exact Hs']. rewrite (world_ids_abs _ Hs').
  assert (E' : abs_world (fst (cstep F c o)) = fst (astep F (abs_world c) o)) by (rewrite E; reflexivity).
  rewrite E'. unfold astep. apply run_nodup; [|exact Hf]. rewrite <- (world_ids_abs _ Hs). exact N.
Qed.
Theorem history_cwf ops : forall c, cwf c -> hist_ok c ops = true -> hist_fresh (abs_world c) ops = true ->
  cwf (fst (crun c ops)).
Proof.
  induction ops as [|[F o] r IH]; intros c Hc Hg Hf; cbn [crun hist_ok hist_fresh] in *; [exact Hc|].
  apply andb_true_iff in Hg as [Hg1 Hg2]. apply andb_true_iff in Hf as [Hf1 Hf2].
  pose proof (step_cwf F c o Hc Hg1 Hf1) as Hc1. apply cwf_iff in Hc as [_ Hs].
  destruct (step_refines F c o Hs Hg1) as [E _].
  assert (E' : fst (astep F (abs_world c) o) = abs_world (fst (cstep F c o))) by (rewrite E; reflexivity).
  rewrite E' in Hf2. destruct (cstep F c o) as [c1 res]. cbn [fst] in *.
  specialize (IH c1 Hc1 Hg2 Hf2). destruct (crun c1 r) as [c2 rs]. exact IH.
Qed.

(* no text is lost, duplicated or changed by a call that neither assigns content nor merges: the text nodes after
   the call are those before it plus the ones made from the strings offered *)
Theorem step_texts F c o : shape_ok c = true -> step_ok F c o = true ->
  run_structural (script F o) (abs_world c) = true ->
  Permutation (world_texts (abs_world (fst (cstep F c o))))
              (world_texts (abs_world c) ++ run_new_texts (script F o) (abs_world c)).
Proof.
  intros Hs Hg Hst. destruct (step_refines F c o Hs Hg) as [E _].
  assert (E' : abs_world (fst (cstep F c o)) = fst (astep F (abs_world c) o)) by (rewrite E; reflexivity).
  rewrite E'. unfold astep. apply run_texts, Hst.
Qed.
