(* Rejected calls: where a script can refuse, nothing has been changed yet.  Lemmas for Props/C09.v. *)
From Delb.Base Require Import PyStr.
From Delb.Gen Require Import GenValidators.
From Delb.Tree Require Import ATree ITree AOps.
From Delb.Conc Require Import CTree COps CGuard.

Definition is_rejected (r : result) : bool := match r with Rejected _ => true | _ => false end.

(* no refusal anywhere in p / every refusal in p comes before the first update *)
Fixpoint no_reject (p : prog) : Prop :=
  match p with
  | Ret r => is_rejected r = false
  | Upd _ k => no_reject k
  | Ask k => forall w, no_reject (k w)
  end.
Fixpoint clean (p : prog) : Prop :=
  match p with
  | Ret _ => True
  | Upd _ k => no_reject k
  | Ask k => forall w, clean (k w)
  end.

Lemma no_reject_clean p : no_reject p -> clean p.
Proof. induction p as [r|u k IH|k IH]; cbn; auto. Qed.
Lemma seal_no_reject p : no_reject (seal p).
Proof. induction p as [[| |]|u k IH|k IH]; cbn; auto. Qed.

Lemma no_reject_run_c p : forall c, no_reject p -> is_rejected (snd (run_c p c)) = false.
Proof. induction p as [r|u k IH|k IH]; cbn; intros c H; auto. Qed.
Lemma no_reject_run_a p : forall w, no_reject p -> is_rejected (snd (run_a p w)) = false.
Proof. induction p as [r|u k IH|k IH]; cbn; intros w H; auto. Qed.

Lemma clean_unchanged p : forall c c' e, clean p -> run_c p c = (c', Rejected e) -> c' = c.
Proof.
  induction p as [r|u k IH|k IH]; cbn [run_c clean]; intros c c' e H E.
  - injection E as <- _. reflexivity.
  - pose proof (no_reject_run_c k (apply_c u c) H) as N. rewrite E in N. discriminate.
  - eapply IH; [apply H|exact E].
Qed.
Lemma clean_agree p : forall c, clean p ->
  forall e, snd (run_c p c) = Rejected e <-> snd (run_a p (abs_world c)) = Rejected e.
Proof.
  induction p as [r|u k IH|k IH]; cbn [run_c run_a clean]; intros c H e.
  - reflexivity.
  - pose proof (no_reject_run_c k (apply_c u c) H) as N1.
    pose proof (no_reject_run_a k (apply_a u (abs_world c)) H) as N2.
    split; intros E; [rewrite E in N1|rewrite E in N2]; discriminate.
  - apply IH, H.
Qed.

(* ---- the scripts of single-node calls are clean ---- *)
Definition single_node (o : op) : bool :=
  match o with
  | OAddFollowing _ ns | OAddPreceding _ ns | OAppend _ ns | OPrepend _ ns | OInsert _ _ ns => Nat.leb (length ns) 1
  | _ => true
  end.

Lemma validate_opt_clean sib nk k : clean k -> clean (validate_opt sib nk k).
Proof.
  intros H. destruct sib as [x|]; [|exact H]. cbn. intros w. destruct (w_parent w x); [exact H|].
  destruct (is_cpik nk && (kind_is w x is_cpik || is_doc_root w x))%bool; exact I.
Qed.
Lemma prepare_clean ctx sib src k : (forall n, no_reject (k n)) -> clean (prepare ctx sib src k).
Proof.
  intros H. destruct src as [n|fresh s|fresh name]; cbn [prepare].
  - cbn [clean]. intros w. destruct (lone w n); [|exact I]. unfold no_cycle. cbn [clean]. intros w'.
    destruct (is_ancestor_or_self w' n ctx); [exact I|]. cbn [clean]. intros w''. destruct (w_kind w'' n); [|exact I].
    apply validate_opt_clean. apply no_reject_clean, H.
  - apply validate_opt_clean. cbn. apply H.
  - cbn. intros w. destruct (tagdef_ctx w ctx) as [[c ns]|]; [|exact I]. apply validate_opt_clean. cbn. apply H.
Qed.
Lemma add_preceding_one_nr F x n k : no_reject k -> no_reject (add_preceding_one F x n k).
Proof.
  intros H. cbn. intros w. destruct (kind_is w x is_textk); [exact H|].
  destruct (prev_visible F w x); [exact H|]. destruct (kind_is w n is_textk); [|exact H].
  destruct (w_parent w x); [|reflexivity]. destruct (first_is_text w (iid i)); [reflexivity|exact H].
Qed.
Lemma add_first_child_nr p n k : no_reject k -> no_reject (add_first_child p n k).
Proof. intros H. cbn. intros w. destruct (kind_is w n is_textk); exact H. Qed.
Lemma on_tag_clean p k : clean k -> clean (on_tag p k).
Proof. intros H. cbn. intros w. destruct (kind_is w p (nkind_eqb NTag)); [exact H|exact I]. Qed.
Lemma detach_all_nr l k : no_reject k -> no_reject (detach_all l k).
Proof. intros H. induction l; cbn; auto. Qed.

Lemma add_following_clean x src : clean (add_following x [src]).
Proof. cbn [add_following]. apply prepare_clean. intros n. cbn. reflexivity. Qed.
Lemma add_preceding_clean F x src : clean (add_preceding F x [src]).
Proof. cbn [add_preceding]. apply prepare_clean. intros n. apply add_preceding_one_nr. reflexivity. Qed.

Lemma detach_clean x r : clean (detach x r).
Proof.
  unfold detach. cbn [clean]. intros w. destruct (w_kind w x) as [[]|]; cbn [clean no_reject]; try exact I; try reflexivity.
  destruct (is_doc_root w x); [exact I|]. destruct (w_parent w x) as [t|]; [|destruct r; exact I].
  destruct r; cbn [clean no_reject]; [|reflexivity]. apply detach_all_nr.
  destruct (map iid (children_ids w x)); [reflexivity|apply seal_no_reject].
Qed.
Lemma replace_clean x src : clean (replace_with x src).
Proof.
  unfold replace_with. cbn [clean]. intros w. destruct (w_parent w x); [|exact I]. apply prepare_clean. intros n.
  cbn [no_reject]. apply seal_no_reject.
Qed.

Lemma insert_clean F p i src : clean (insert_children F p i [src]).
Proof.
  unfold insert_children. apply on_tag_clean. cbn [clean]. intros w. destruct (i <? 0)%Z; [exact I|].
  destruct (Nat.ltb (length (vis_children F w p)) (Z.to_nat i)); [exact I|].
  destruct (Z.to_nat i) as [|n'].
  - destruct (vis_children F w p) as [|y ?].
    + apply prepare_clean. intros m. apply add_first_child_nr. reflexivity.
    + apply prepare_clean. intros m. apply add_preceding_one_nr. reflexivity.
  - destruct (nth_vis F w p n'); [|exact I]. apply prepare_clean. intros m. reflexivity.
Qed.

Theorem script_clean F o : single_node o = true -> clean (script F o).
Proof.
  destruct o as [x ns|x ns|p ns|p ns|p i ns|x r|x n|p i n|p i|x s|p]; cbn [single_node script]; intros H.
  - destruct ns as [|src [|? ?]]; [exact I|apply add_following_clean|discriminate].
  - destruct ns as [|src [|? ?]]; [exact I|apply add_preceding_clean|discriminate].
  - unfold append_children. apply on_tag_clean. cbn [clean]. intros w. destruct ns as [|src [|? ?]]; [|  |discriminate].
    + destruct (rev (vis_children F w p)); exact I.
    + destruct (rev (vis_children F w p)); [|apply add_following_clean].
      apply prepare_clean. intros n. apply add_first_child_nr. reflexivity.
  - destruct ns as [|src [|? ?]]; [|apply insert_clean|discriminate].
    unfold insert_children. apply on_tag_clean. cbn [clean]. intros w. destruct (0 <? 0)%Z; [exact I|].
    destruct (Nat.ltb (length (vis_children F w p)) (Z.to_nat 0)); exact I.
  - destruct ns as [|src [|? ?]]; [|apply insert_clean|discriminate].
    unfold insert_children. apply on_tag_clean. cbn [clean]. intros w. destruct (i <? 0)%Z; [exact I|].
    destruct (Nat.ltb (length (vis_children F w p)) (Z.to_nat i)); exact I.
  - apply detach_clean.
  - apply replace_clean.
  - unfold set_item. apply on_tag_clean. cbn [clean]. intros w.
    destruct (Nat.eqb (length (vis_children F w p)) 0 && (i =? 0)%Z)%bool.
    + destruct n as [n|? ?|? ?]; try exact I. destruct (lone w n); [|exact I]. unfold no_cycle. cbn [clean]. intros w'.
      destruct (is_ancestor_or_self w' n p); [exact I|]. apply no_reject_clean, add_first_child_nr. reflexivity.
    + destruct ((i <? 0) || (Z.of_nat (length (vis_children F w p)) <=? i))%Z%bool; [exact I|].
      destruct (resolve_index F w p i); [apply replace_clean|exact I].
  - unfold del_item. apply on_tag_clean. cbn [clean]. intros w. destruct (resolve_index F w p i); [apply detach_clean|exact I].
  - cbn [clean]. intros w. destruct (kind_is w x is_textk); [reflexivity|exact I].
  - apply on_tag_clean. cbn [clean no_reject]. reflexivity.
Qed.

Theorem reject_unchanged F c o c' e : single_node o = true -> cstep F c o = (c', Rejected e) -> c' = c.
Proof. intros H. apply clean_unchanged, script_clean, H. Qed.
Theorem reject_agrees F c o e : single_node o = true ->
  snd (cstep F c o) = Rejected e <-> snd (astep F (abs_world c) o) = Rejected e.
Proof. intros H. apply clean_agree, script_clean, H. Qed.

(* ---- validators (generated from the source) ---- *)
Lemma comment_refused_iff s :
  comment_content_refused s = true <-> py_contains s [45%N; 45%N] = true \/ py_endswith s [45%N] = true.
Proof. unfold comment_content_refused. rewrite orb_true_iff. reflexivity. Qed.
Lemma pi_target_refused_iff s :
  pi_target_refused s = true <-> s = [] \/ py_lower_eq lower_pre s [120%N; 109%N; 108%N] = true.
Proof.
  unfold pi_target_refused, py_bool_str. rewrite orb_true_iff. destruct s; cbn; split; intros [H|H]; auto; discriminate.
Qed.
(* "xml" in any of its spellings is refused, ordinary names are not *)
Lemma pi_target_examples :
  pi_target_refused [88; 109; 76]%N = true /\ pi_target_refused [120; 109; 108]%N = true /\
  pi_target_refused [] = true /\ pi_target_refused [120; 109; 108; 45]%N = false /\ pi_target_refused [116]%N = false.
Proof. repeat split; reflexivity. Qed.

(* ---- when exactly a single-node sibling call is refused (on the specification side; `reject_agrees` carries it
   over to the concrete model) ---- *)
Definition offered_attached (w : world) (src : nsrc) : bool :=
  match src with SNode n => negb (lone w n) | _ => false end.
Definition root_refuses (w : world) (x : nid) (nk : nkind) : option exn :=
  match w_parent w x with
  | Some _ => None
  | None => if (is_cpik nk && (kind_is w x is_cpik || is_doc_root w x))%bool then None
            else Some (if kind_is w x (nkind_eqb NTag) then ETypeError else EInvalidOperation)
  end.
(* offered node attached (or a document's root) -> InvalidOperation; offered node is the target or one of its ancestors
   -> InvalidOperation; tag() next to a parentless text, comment or PI -> InvalidOperation; text / tag (or anything next
   to a parentless text or tag) as sibling of a root -> InvalidOperation, TypeError when the root is a tag node *)
Definition sibling_refusal (w : world) (x : nid) (src : nsrc) : option exn :=
  match src with
  | SNode n => if lone w n
               then if is_ancestor_or_self w n x then Some EInvalidOperation
                    else match w_kind w n with Some nk => root_refuses w x nk | None => None end
               else Some EInvalidOperation
  | SStr _ _ => root_refuses w x NText
  | STag _ _ => match tagdef_ctx w x with Some _ => root_refuses w x NTag | None => Some EInvalidOperation end
  end.

Lemma validate_opt_run x nk k w : no_reject k ->
  forall e, snd (run_a (validate_opt (Some x) nk k) w) = Rejected e <-> root_refuses w x nk = Some e.
Proof.
  intros Hk e. cbn [validate_opt validate_sibling run_a]. unfold root_refuses.
  destruct (w_parent w x).
  - pose proof (no_reject_run_a k w Hk) as N. split; intros E; [rewrite E in N|]; discriminate.
  - destruct (is_cpik nk && (kind_is w x is_cpik || is_doc_root w x))%bool; cbn [run_a snd].
    + split; discriminate.
    + split; intros E; injection E as <-; reflexivity.
Qed.

Lemma sibling_call_refused w x src (k : nid -> prog) : (forall n, no_reject (k n)) ->
  forall e, snd (run_a (prepare x (Some x) src k) w) = Rejected e <-> sibling_refusal w x src = Some e.
Proof.
  intros Hk e. destruct src as [n|fresh s|fresh name]; cbn [prepare sibling_refusal run_a].
  - destruct (lone w n); cbn [run_a snd]; [|split; intros E; injection E as <-; reflexivity].
    unfold no_cycle. cbn [run_a]. destruct (is_ancestor_or_self w n x); cbn [run_a snd];
      [split; intros E; injection E as <-; reflexivity|].
    destruct (w_kind w n) as [nk|]; cbn [run_a snd]; [|split; discriminate].
    apply validate_opt_run. apply Hk.
  - apply validate_opt_run. cbn. apply Hk.
  - destruct (tagdef_ctx w x) as [[c ns]|]; cbn [run_a snd]; [|split; intros E; injection E as <-; reflexivity].
    apply validate_opt_run. cbn. apply Hk.
Qed.

Theorem add_following_refused_iff F w x src e :
  snd (astep F w (OAddFollowing x [src])) = Rejected e <-> sibling_refusal w x src = Some e.
Proof. unfold astep. cbn [script add_following]. apply sibling_call_refused. intros n. reflexivity. Qed.
Theorem add_preceding_refused_iff F w x src e :
  snd (astep F w (OAddPreceding x [src])) = Rejected e <-> sibling_refusal w x src = Some e.
Proof.
  unfold astep. cbn [script add_preceding]. apply sibling_call_refused. intros n. apply add_preceding_one_nr. reflexivity.
Qed.
Theorem replace_refused_iff F w x src e :
  snd (astep F w (OReplace x src)) = Rejected e <->
  match w_parent w x with None => e = EInvalidOperation | Some _ => sibling_refusal w x src = Some e end.
Proof.
  unfold astep. cbn [script]. unfold replace_with. cbn [run_a]. destruct (w_parent w x) eqn:E.
  - apply sibling_call_refused. intros n. cbn [no_reject]. apply seal_no_reject.
  - cbn [run_a snd]. split; [intros H; injection H as <-; reflexivity|intros ->; reflexivity].
Qed.
Theorem detach_refused_iff F w x r e :
  snd (astep F w (ODetach x r)) = Rejected e <->
  e = EInvalidOperation /\ w_kind w x = Some NTag /\
  (is_doc_root w x = true \/ (is_doc_root w x = false /\ w_parent w x = None /\ r = true)).
Proof.
  unfold astep. cbn [script]. unfold detach. cbn [run_a].
  destruct (w_kind w x) as [[]|]; cbn [run_a snd]; try (split; [discriminate|intros (_ & H & _); discriminate]).
  destruct (is_doc_root w x); cbn [run_a snd].
  - split; [intros H; injection H as <-; auto|intros (-> & _); reflexivity].
  - destruct (w_parent w x) as [t|].
    + destruct r; cbn [run_a].
      * pose proof (no_reject_run_a
                      (detach_all (map iid (children_ids w x))
                         match map iid (children_ids w x) with
                         | [] => Ret ROk
                         | _ :: _ => seal (insert_children fall (iid t) (Z.of_nat (index_of x (ikids t)))
                                             (map SNode (map iid (children_ids w x))))
                         end) (apply_a (UDetach x) w)) as N.
        split; [intros H; rewrite H in N; discriminate N|intros (_ & _ & [H|(_ & H & _)]); discriminate H].
        apply detach_all_nr. destruct (map iid (children_ids w x)); [reflexivity|apply seal_no_reject].
      * cbn [snd]. split; [discriminate|intros (_ & _ & [H|(_ & H & _)]); discriminate H].
    + destruct r; cbn [run_a snd].
      * split; [intros H; injection H as <-; auto 6|intros (-> & _); reflexivity].
      * split; [discriminate|intros (_ & _ & [H|(_ & _ & H)]); discriminate H].
Qed.

(* ---- closed formulas for the calls that add children, assign and delete items ---- *)
(* _prepare_new_relative alone (no sibling is involved): attached / document root / own ancestor / tag() without a
   tag context *)
Definition first_refusal (w : world) (ctx : nid) (src : nsrc) : option exn :=
  match src with
  | SNode n => if lone w n then (if is_ancestor_or_self w n ctx then Some EInvalidOperation else None)
               else Some EInvalidOperation
  | SStr _ _ => None
  | STag _ _ => match tagdef_ctx w ctx with Some _ => None | None => Some EInvalidOperation end
  end.
Definition replace_refusal (w : world) (x : nid) (src : nsrc) : option exn :=
  match w_parent w x with None => Some EInvalidOperation | Some _ => sibling_refusal w x src end.
Definition detach_refusal (w : world) (x : nid) (r : bool) : option exn :=
  match w_kind w x with
  | Some NTag => if is_doc_root w x then Some EInvalidOperation
                 else match w_parent w x with
                      | None => if r then Some EInvalidOperation else None
                      | Some _ => None
                      end
  | _ => None
  end.
Definition append_refusal (F : filt) (w : world) (p : nid) (src : nsrc) : option exn :=
  if kind_is w p (nkind_eqb NTag)
  then match rev (vis_children F w p) with l :: _ => sibling_refusal w l src | [] => first_refusal w p src end
  else None.
Definition insert_refusal (F : filt) (w : world) (p : nid) (i : Z) (src : nsrc) : option exn :=
  if kind_is w p (nkind_eqb NTag)
  then if (i <? 0)%Z then Some EValueError
       else if Nat.ltb (length (vis_children F w p)) (Z.to_nat i) then Some EIndexError
            else match Z.to_nat i with
                 | O => match vis_children F w p with y :: _ => sibling_refusal w y src | [] => first_refusal w p src end
                 | S n' => match nth_vis F w p n' with Some y => sibling_refusal w y src | None => None end
                 end
  else None.
Definition setitem_refusal (F : filt) (w : world) (p : nid) (i : Z) (src : nsrc) : option exn :=
  if kind_is w p (nkind_eqb NTag)
  then let cc := length (vis_children F w p) in
       if (Nat.eqb cc 0 && (i =? 0)%Z)%bool
       then match src with
            | SNode n => if lone w n then (if is_ancestor_or_self w n p then Some EInvalidOperation else None)
                         else Some EInvalidOperation
            | _ => None
            end
       else if ((i <? 0) || (Z.of_nat cc <=? i))%Z%bool then Some EIndexError
            else match resolve_index F w p i with Some y => replace_refusal w y src | None => None end
  else None.
Definition delitem_refusal (F : filt) (w : world) (p : nid) (i : Z) : option exn :=
  if kind_is w p (nkind_eqb NTag)
  then match resolve_index F w p i with Some y => detach_refusal w y false | None => Some EIndexError end
  else None.

Lemma rejected_inj e e' : Rejected e = Rejected e' <-> Some e = Some e'.
Proof. split; intros H; injection H as <-; reflexivity. Qed.
Lemma not_rejected_none r e : is_rejected r = false -> (r = Rejected e <-> @None exn = Some e).
Proof. intros H. split; [intros ->; discriminate|discriminate]. Qed.

Lemma child_call_refused w ctx src (k : nid -> prog) : (forall n, no_reject (k n)) ->
  forall e, snd (run_a (prepare ctx None src k) w) = Rejected e <-> first_refusal w ctx src = Some e.
Proof.
  intros Hk e. destruct src as [n|fresh s|fresh name]; cbn [prepare first_refusal run_a validate_opt].
  - destruct (lone w n); cbn [run_a snd]; [|apply rejected_inj].
    unfold no_cycle. cbn [run_a]. destruct (is_ancestor_or_self w n ctx); cbn [run_a snd]; [apply rejected_inj|].
    apply not_rejected_none. destruct (w_kind w n); cbn [run_a snd]; [|reflexivity]. apply no_reject_run_a, Hk.
  - apply not_rejected_none. apply (no_reject_run_a (Upd (UNewText fresh s) (k fresh))). cbn. apply Hk.
  - destruct (tagdef_ctx w ctx) as [[c ns]|]; cbn [run_a snd]; [|apply rejected_inj].
    apply not_rejected_none. apply (no_reject_run_a (Upd (UNewTag c fresh ns name) (k fresh))). cbn. apply Hk.
Qed.
Lemma replace_run w x src e : snd (run_a (replace_with x src) w) = Rejected e <-> replace_refusal w x src = Some e.
Proof.
  pose proof (replace_refused_iff fall w x src e) as H. unfold astep in H. cbn [script] in H. rewrite H.
  unfold replace_refusal. destruct (w_parent w x); [reflexivity|]. split; [intros ->; reflexivity|intros E; injection E as <-; reflexivity].
Qed.
Lemma detach_run w x r e : snd (run_a (detach x r) w) = Rejected e <-> detach_refusal w x r = Some e.
Proof.
  pose proof (detach_refused_iff fall w x r e) as H. unfold astep in H. cbn [script] in H. rewrite H.
  unfold detach_refusal. destruct (w_kind w x) as [[]|]; try (split; [intros (_ & E & _); discriminate|discriminate]).
  destruct (is_doc_root w x).
  - split; [intros (-> & _); reflexivity|intros E; injection E as <-; auto].
  - destruct (w_parent w x); [split; [intros (_ & _ & [E|(_ & E & _)]); discriminate|discriminate]|].
    destruct r.
    + split; [intros (-> & _); reflexivity|intros E; injection E as <-; auto 6].
    + split; [intros (_ & _ & [E|(_ & _ & E)]); discriminate|discriminate].
Qed.

Theorem append_refused_iff F w p src e :
  snd (astep F w (OAppend p [src])) = Rejected e <-> append_refusal F w p src = Some e.
Proof.
  unfold astep. cbn [script]. unfold append_children, on_tag, append_refusal. cbn [run_a].
  destruct (kind_is w p (nkind_eqb NTag)); cbn [run_a snd]; [|split; discriminate].
  destruct (rev (vis_children F w p)) as [|l ?].
  - apply child_call_refused. intros n. apply add_first_child_nr. reflexivity.
  - cbn [add_following]. apply sibling_call_refused. intros n. reflexivity.
Qed.
Theorem insert_refused_iff F w p i src e :
  snd (astep F w (OInsert p i [src])) = Rejected e <-> insert_refusal F w p i src = Some e.
Proof.
  unfold astep. cbn [script]. unfold insert_children, on_tag, insert_refusal. cbn [run_a].
  destruct (kind_is w p (nkind_eqb NTag)); cbn [run_a snd]; [|split; discriminate].
  destruct (i <? 0)%Z; cbn [run_a snd]; [apply rejected_inj|].
  destruct (Nat.ltb (length (vis_children F w p)) (Z.to_nat i)); cbn [run_a snd]; [apply rejected_inj|].
  destruct (Z.to_nat i) as [|n'].
  - destruct (vis_children F w p) as [|y ?].
    + apply child_call_refused. intros m. apply add_first_child_nr. reflexivity.
    + apply sibling_call_refused. intros m. apply add_preceding_one_nr. reflexivity.
  - destruct (nth_vis F w p n'); cbn [run_a snd]; [|split; discriminate].
    apply sibling_call_refused. intros m. reflexivity.
Qed.
Theorem prepend_refused_iff F w p src e :
  snd (astep F w (OPrepend p [src])) = Rejected e <-> insert_refusal F w p 0%Z src = Some e.
Proof. apply (insert_refused_iff F w p 0%Z src e). Qed.
Theorem setitem_refused_iff F w p i src e :
  snd (astep F w (OSetItem p i src)) = Rejected e <-> setitem_refusal F w p i src = Some e.
Proof.
  unfold astep. cbn [script]. unfold set_item, on_tag, setitem_refusal. cbn [run_a].
  destruct (kind_is w p (nkind_eqb NTag)); cbn [run_a snd]; [|split; discriminate].
  destruct (Nat.eqb (length (vis_children F w p)) 0 && (i =? 0)%Z)%bool.
  - destruct src as [n|? ?|? ?]; cbn [run_a snd]; try (split; discriminate).
    destruct (lone w n); cbn [run_a snd]; [|apply rejected_inj]. unfold no_cycle. cbn [run_a].
    destruct (is_ancestor_or_self w n p); cbn [run_a snd]; [apply rejected_inj|].
    apply not_rejected_none. apply (no_reject_run_a (add_first_child p n (Ret ROk))). apply add_first_child_nr. reflexivity.
  - destruct ((i <? 0) || (Z.of_nat (length (vis_children F w p)) <=? i))%Z%bool; cbn [run_a snd]; [apply rejected_inj|].
    destruct (resolve_index F w p i); cbn [run_a snd]; [apply replace_run|split; discriminate].
Qed.
Theorem delitem_refused_iff F w p i e :
  snd (astep F w (ODelItem p i)) = Rejected e <-> delitem_refusal F w p i = Some e.
Proof.
  unfold astep. cbn [script]. unfold del_item, on_tag, delitem_refusal. cbn [run_a].
  destruct (kind_is w p (nkind_eqb NTag)); cbn [run_a snd]; [|split; discriminate].
  destruct (resolve_index F w p i); cbn [run_a snd]; [apply detach_run|apply rejected_inj].
Qed.

(* ---- the value-level setters: comment content, PI target, PI content, attribute names ---- *)
From Delb.Base Require Import PySplit.
From Delb.Gen Require Import GenNsValidators GenNames GenAttr GenAttrKey.
From Delb.Conc Require Import Setters.

Theorem setter_reject_unchanged w st w' e : csetter w st = (w', Rejected e) -> w' = w.
Proof.
  unfold csetter. destruct (cw_rw (f_assign st) w) as [[w1 []]|]; try discriminate; [intros H; injection H as <- _; reflexivity|].
  destruct (first_sib st w) as [e0|]; [|discriminate]. destruct (f_assign st [] e0) as [[e1 []]|]; try discriminate.
  intros H. injection H as <- _. reflexivity.
Qed.
Theorem setter_reject_class w st e : snd (csetter w st) = Rejected e -> e = EValueError.
Proof.
  unfold csetter. destruct (cw_rw (f_assign st) w) as [[w1 []]|]; cbn [snd]; try discriminate; [intros H; injection H as <-; reflexivity|].
  destruct (first_sib st w) as [e0|]; [|discriminate]. destruct (f_assign st [] e0) as [[e1 []]|]; cbn [snd]; try discriminate.
  intros H. injection H as <-. reflexivity.
Qed.
(* at the node the call is addressed to: refused exactly when the generated validator refuses the value (for an
   attribute: the key that is going to be stored), and then the node is returned as it was *)
Theorem setter_refused_at st inh i k own data kids :
  f_assign st inh (CEl i k own data kids) = Some (CEl i k own data kids, Refused) <->
  i = setter_target st /\ refused_at st (in_scope inh own) k = Some true.
Proof.
  cbn [f_assign]. destruct (N.eqb_spec i (setter_target st)) as [E|E].
  - destruct (refused_at st (in_scope inh own) k) as [[]|]; destruct (assign st (in_scope inh own) k); split; intros H;
      first [discriminate H | (destruct H as [_ H]; discriminate H) | (split; [exact E|reflexivity]) | reflexivity].
  - split; [discriminate|intros [H _]; contradiction].
Qed.
Theorem setter_assigned_only_if_accepted st inh e e' : f_assign st inh e = Some (e', Done) ->
  refused_at st (in_scope inh (cown_dns e)) (ckind_of e) = Some false.
Proof.
  destruct e as [i k own data kids]. cbn [f_assign cown_dns ckind_of]. destruct (N.eqb i (setter_target st)); [|discriminate].
  destruct (refused_at st (in_scope inh own) k) as [[]|]; destruct (assign st (in_scope inh own) k); try discriminate; reflexivity.
Qed.

Lemma str_eqb_eq a b : str_eqb a b = true <-> a = b.
Proof.
  revert b. induction a as [|x a IH]; intros [|y b]; cbn [str_eqb]; try (split; [discriminate|discriminate]); [split; reflexivity|].
  rewrite andb_true_iff, N.eqb_eq, IH. split; [intros [-> ->]; reflexivity|intros H; injection H as -> ->; auto].
Qed.
Lemma attribute_name_refused_iff ns name :
  attribute_name_refused ns name = true <-> name = [120; 109; 108; 110; 115]%N \/ ns = xmlns_ns.
Proof. unfold attribute_name_refused. rewrite orb_true_iff, !str_eqb_eq. reflexivity. Qed.
Lemma pi_content_refused_iff s :
  pi_content_refused s = true <-> exists c r, s = c :: r /\ (c = 32 \/ c = 9 \/ c = 10 \/ c = 13)%N.
Proof.
  unfold pi_content_refused, py_startswith. destruct s as [|c r]; cbn [py_prefix].
  - split; [discriminate|intros (c & r & H & _); discriminate].
  - rewrite !andb_true_r, !orb_true_iff, !N.eqb_eq. split.
    + intros H. exists c, r. split; [reflexivity|]. destruct H as [[[H|H]|H]|H]; subst; auto.
    + intros (c' & r' & E & H). injection E as <- _. destruct H as [H|[H|[H|H]]]; subst; auto.
Qed.

(* for a name without Clark notation in it the stored key is validated like the qualified name itself (the default
   namespace is never the xmlns namespace) *)
Fixpoint no_char (c : char) (s : str) : bool := match s with [] => true | x :: r => negb (N.eqb x c) && no_char c r end.
Lemma split1_built ns n : no_char RB ns = true -> py_split1 (ns ++ RB :: n) RB = Some (ns, n).
Proof.
  induction ns as [|x r IH]; cbn [app py_split1 no_char]; intros H; [rewrite N.eqb_refl; reflexivity|].
  apply andb_true_iff in H as [H1 H2]. apply negb_true_iff in H1. rewrite H1, (IH H2). reflexivity.
Qed.
Lemma decon_built ns n : no_char RB ns = true -> deconstruct_clark_notation ([LB] ++ ns ++ [RB] ++ n) None = Ok (Some ns, n).
Proof.
  intros H. unfold deconstruct_clark_notation. change ([LB] ++ ns ++ [RB] ++ n) with ((LB :: ns) ++ RB :: n). change 125%N with RB.
  rewrite split1_built by (cbn [no_char]; rewrite H; reflexivity). reflexivity.
Qed.
Lemma decon_plain n : match n with x :: _ => N.eqb x LB = false | [] => True end -> deconstruct_clark_notation n None = Ok (None, n).
Proof.
  intros H. unfold deconstruct_clark_notation, py_startswith. destruct n as [|x r]; [reflexivity|]. cbn [py_prefix].
  unfold LB in H. rewrite N.eqb_sym in H. rewrite H. reflexivity.
Qed.
Theorem attr_refused_plain dns attrs ns name :
  no_char RB ns = true -> no_char RB dns = true -> match name with x :: _ => N.eqb x LB = false | [] => True end ->
  str_eqb dns xmlns_ns = false -> (null ns = false -> str_eqb ns dns = true -> str_eqb ns xmlns_ns = false) ->
  attr_refused dns attrs ns name = attribute_name_refused ns name.
Proof.
  intros Hns Hdns Hname Hd Hnd. unfold xmlns_ns in Hd, Hnd. unfold attr_refused, stored_pair, etree_key_gen.
  set (dopt := if null dns then None else Some dns).
  destruct (py_bool_str ns && (negb (optstr_eqb dopt (Some ns)) || py_in_keys ([123%N] ++ ns ++ [125%N] ++ name) (map store_key attrs)))%bool eqn:E1.
  - change ([123%N] ++ ns ++ [125%N] ++ name) with ([LB] ++ ns ++ [RB] ++ name). rewrite (decon_built ns name Hns). reflexivity.
  - destruct (negb (py_bool_str ns) && py_bool_optstr dopt && negb (py_in_keys name (map store_key attrs))
              && py_in_keys ([123%N] ++ py_str_optstr dopt ++ [125%N] ++ name) (map store_key attrs))%bool eqn:E2.
    + (* no namespace given, the default namespace's entry is addressed *)
      apply andb_true_iff in E2 as [E2 _]. apply andb_true_iff in E2 as [E2 _]. apply andb_true_iff in E2 as [En Ed].
      unfold py_bool_str in En. apply negb_true_iff, negb_false_iff in En. destruct ns; [|discriminate].
      unfold dopt in *. destruct (null dns) eqn:Edn; [discriminate|]. cbn [py_str_optstr].
      change ([123%N] ++ dns ++ [125%N] ++ name) with ([LB] ++ dns ++ [RB] ++ name). rewrite (decon_built dns name Hdns).
      unfold attribute_name_refused. rewrite Hd. cbn [str_eqb]. reflexivity.
    + rewrite (decon_plain name Hname). unfold attribute_name_refused. cbn [str_eqb]. rewrite orb_false_r.
      (* the namespace given is empty or the default namespace *)
      destruct (null ns) eqn:En.
      * destruct ns; [|discriminate]. cbn [str_eqb]. rewrite orb_false_r. reflexivity.
      * assert (Eq : str_eqb ns dns = true).
        { unfold py_bool_str in E1. rewrite En in E1. cbn [negb andb] in E1. apply orb_false_iff in E1 as [E1 _]. apply negb_false_iff in E1.
          unfold dopt in E1. destruct (null dns); [discriminate|]. cbn [optstr_eqb] in E1. rewrite str_eqb_eq in E1. rewrite str_eqb_eq. congruence. }
        rewrite (Hnd eq_refl Eq), orb_false_r. reflexivity.
Qed.

(* the validator regenerated from the source is the stated rule *)
From Delb.Conc Require Import SetterSpec.
Lemma comment_rule_generated s : comment_content_refused s = comment_rule s.
Proof. reflexivity. Qed.
