(* C05 - every navigation routine of the concrete model equals a function of the ONE abstract tree `abs_el inh c`.
   Hypotheses: the concrete tree is well-formed (`el_ok`: slot and head object agree, no empty text object, comments
   and PIs are leaves) and identities are unique (`NoDup (cel_ids c)`).  The fuel the routines are run with
   (`c_fuel_h`) is proved sufficient: every result is `Ok _`. *)
From Coq Require Import List NArith ZArith Bool Lia.
From Delb.Base Require Import PyStr.
From Delb.Tree Require Import ATree ITree ANav ANavFacts ANavOrderFacts.
From Delb.Conc Require Import CTree CNav CHeapFacts CWalkFacts.
Import ListNotations.

Section Concrete.
  Variable c : cel.
  Variable inh : str.
  Hypothesis Hok : el_ok c = true.
  Hypothesis Hnd : NoDup (cel_ids c).
  Local Notation t := (abs_el inh c).
  Local Notation h := (heap_top c).
  Local Notation fu := (c_fuel_h (heap_top c)).

  Lemma heap_size : length h = length (cel_ids c).
  Proof. rewrite <- (map_length fst). unfold heap_top. rewrite heap_keys. reflexivity. Qed.
  Lemma fu_ok : length (cel_ids c) + 2 <= fu.
  Proof. unfold c_fuel_h. rewrite heap_size. lia. Qed.
  Lemma fu_walk : 2 * length (ids t) + 1 < fu.
  Proof. rewrite (t_size c inh Hok). unfold c_fuel_h. rewrite heap_size. lia. Qed.
  Lemma Tnd : NoDup (ids t).
  Proof. exact (t_nodup c inh Hok Hnd). Qed.
  Lemma root_obj : lookup h (cid c) = Some (el_obj c no_chain None None None).
  Proof. apply (h_lookup c Hnd). apply heap_el_head. Qed.
  Lemma root_parent : a_parent t (cid c) = None.
  Proof. rewrite <- (abs_iid inh c). apply a_parent_root. exact Tnd. Qed.

  (* the pointer primitives agree with the abstract tree *)
  Lemma P_next n : In n (ids t) -> c_next_raw fu h n = Ok (a_next_sibling t n).
  Proof.
    intros Hn. destruct (ids_abs_place c inh n Hn) as [->|[e [He Hin]]].
    - unfold c_next_raw. rewrite root_obj. cbn. unfold a_next_sibling, a_fsibs, a_siblings. rewrite root_parent. reflexivity.
    - destruct (prims_at c Hok Hnd fu fu_ok e n He Hin) as [l1 [l2 [E [Hx _]]]].
      destruct (subel_subtree c inh e He) as [inh' Hs]. rewrite Hx.
      rewrite (place_next t Tnd (abs_el inh' e) l1 l2 n Hs); [reflexivity|rewrite abs_kid_ids; exact E].
  Qed.
  Lemma P_prev n : In n (ids t) -> c_prev_cand fu h n = Ok (a_prev_sibling t n).
  Proof.
    intros Hn. destruct (ids_abs_place c inh n Hn) as [->|[e [He Hin]]].
    - unfold c_prev_cand. rewrite root_obj. cbn. unfold a_prev_sibling, a_psibs, a_siblings. rewrite root_parent. reflexivity.
    - destruct (prims_at c Hok Hnd fu fu_ok e n He Hin) as [l1 [l2 [E [_ [Hx _]]]]].
      destruct (subel_subtree c inh e He) as [inh' Hs]. rewrite Hx.
      rewrite (place_prev t Tnd (abs_el inh' e) l1 l2 n Hs); [reflexivity|rewrite abs_kid_ids; exact E].
  Qed.
  Lemma P_parent n : In n (ids t) -> c_parent fu h n = Ok (a_parent t n).
  Proof.
    intros Hn. destruct (ids_abs_place c inh n Hn) as [->|[e [He Hin]]].
    - unfold c_parent. rewrite root_obj. cbn. rewrite root_parent. reflexivity.
    - destruct (prims_at c Hok Hnd fu fu_ok e n He Hin) as [l1 [l2 [E [_ [_ Hx]]]]].
      destruct (subel_subtree c inh e He) as [inh' Hs]. rewrite Hx.
      rewrite (place_parent t Tnd (abs_el inh' e) l1 l2 n Hs); [rewrite abs_iid; reflexivity|rewrite abs_kid_ids; exact E].
  Qed.
  Lemma el_children e : In e (c_subels c) -> a_children t (cid e) = c_items e.
  Proof.
    intros He. destruct (subel_subtree c inh e He) as [inh' Hs]. rewrite <- (abs_iid inh' e).
    rewrite (a_children_in t Tnd _ Hs). apply abs_kid_ids.
  Qed.
  Lemma P_first n : In n (ids t) -> h_is_tag h n = true -> c_first_raw h n = Ok (a_first_child t n).
  Proof.
    intros Hn Htag. destruct (node_kind c inh Hok Hnd n Hn) as [[e [He <-]]|[[o Ho] _]].
    - destruct (subel_obj c Hnd e He) as [up [nx [pv [tl Hobj]]]]. unfold c_first_raw. rewrite Hobj.
      cbn [el_obj e_data_exists e_data_node e_first_el]. unfold a_first_child. rewrite (el_children e He). unfold c_items.
      destruct (el_ok_parts e (subel_ok c e Hok He)) as [Hd _].
      destruct (chain_cases _ Hd) as [[E1 [E2 E3]]|[hid [s [E1 [E2 _]]]]]; unfold ch_exists, chain_texts;
        destruct (cdata e) as [thd tsl tap]; cbn [ch_slot ch_head ch_app] in *; subst thd tsl.
      + cbn [map app]. rewrite hd_flat_kitem. reflexivity.
      + reflexivity.
    - unfold h_is_tag in Htag. rewrite Ho in Htag. discriminate.
  Qed.
  Lemma P_leaf n : In n (ids t) -> h_is_tag h n = false -> a_children t n = [].
  Proof.
    intros Hn Htag. destruct (node_kind c inh Hok Hnd n Hn) as [[e [He <-]]|[_ [tb [Hs <-]]]].
    - destruct (subel_obj c Hnd e He) as [up [nx [pv [tl Hobj]]]]. unfold h_is_tag in Htag. rewrite Hobj in Htag.
      cbn [el_obj e_tag] in Htag. rewrite (el_children e He).
      destruct (el_ok_parts e (subel_ok c e Hok He)) as [_ [_ Hl]]. exact (Hl Htag).
    - change (t_id tb) with (iid (atext tb)). rewrite (a_children_in t Tnd _ Hs). reflexivity.
  Qed.

  Ltac walk L :=
    cbv zeta; eapply L;
    try exact Tnd; try exact fu_walk; try exact P_first; try exact P_next; try exact P_prev; try exact P_parent;
    try exact P_leaf; try assumption.

  (* ---- children, length, indexed access, first / last child, index ---- *)
  Theorem c_children_abs D F n : In n (ids t) ->
    c_iterate_children c D F n = Ok (filter (fand D F) (a_children t n)).
  Proof. intros Hn. unfold c_iterate_children, h_iterate_children. walk children_spec. Qed.
  Theorem c_len_abs D n : In n (ids t) -> c_len c D n = Ok (length (filter D (a_children t n))).
  Proof. intros Hn. unfold c_len, h_len. walk len_spec. Qed.
  Theorem c_first_child_abs D n : In n (ids t) -> c_first_child c D n = Ok (hd_error (filter D (a_children t n))).
  Proof. intros Hn. unfold c_first_child, h_first_child. walk first_child_spec. Qed.
  Theorem c_last_child_abs D n : In n (ids t) -> c_last_child c D n = Ok (last_error (filter D (a_children t n))).
  Proof. intros Hn. unfold c_last_child, h_last_child. walk last_child_spec. Qed.
  Theorem c_getitem_abs D n i : In n (ids t) ->
    c_getitem c D n i = match py_index (filter D (a_children t n)) i with Some x => Ok x | None => Crash IndexError end.
  Proof. intros Hn. unfold c_getitem, h_getitem. walk getitem_spec. Qed.
  Theorem c_getslice_abs D n a b : In n (ids t) ->
    c_getslice c D n a b = Ok (py_slice (filter D (a_children t n)) a b).
  Proof. intros Hn. unfold c_getslice, h_getslice. walk getslice_spec. Qed.
  Theorem c_index_abs D n : In n (ids t) ->
    c_index c D n = match a_parent t n with
                    | None => Ok None
                    | Some _ => match index_of n (filter D (a_siblings t n)) with
                                | Some i => Ok (Some i)
                                | None => Crash InvalidCodePath
                                end
                    end.
  Proof. intros Hn. unfold c_index, h_index. walk index_spec. Qed.
  Theorem c_index_unfiltered n : In n (ids t) -> c_index c ftrue n = Ok (a_index t n).
  Proof. intros Hn. unfold c_index, h_index. walk index_spec_unfiltered. Qed.
  Theorem c_parent_abs n : In n (ids t) -> c_parent_of c n = Ok (a_parent t n).
  Proof. intros Hn. unfold c_parent_of, h_parent. cbv zeta. apply P_parent. exact Hn. Qed.

  (* ---- siblings ---- *)
  Theorem c_fetch_following_sibling_abs D F n : In n (ids t) ->
    c_fetch_following_sibling c D F n = Ok (hd_error (filter (fand D F) (a_fsibs t n))).
  Proof. intros Hn. unfold c_fetch_following_sibling, h_fetch_following_sibling. walk fetch_following_sibling_spec. Qed.
  Theorem c_iterate_following_siblings_abs D F n : In n (ids t) ->
    c_iterate_following_siblings c D F n = Ok (filter (fand D F) (a_fsibs t n)).
  Proof. intros Hn. unfold c_iterate_following_siblings, h_iterate_following_siblings. walk iterate_following_siblings_spec. Qed.
  Theorem c_fetch_preceding_sibling_abs D F n : In n (ids t) ->
    c_fetch_preceding_sibling c D F n = Ok (hd_error (filter (fand D F) (a_psibs t n))).
  Proof. intros Hn. unfold c_fetch_preceding_sibling, h_fetch_preceding_sibling. walk fetch_preceding_sibling_spec. Qed.
  Theorem c_iterate_preceding_siblings_abs D F n : In n (ids t) ->
    c_iterate_preceding_siblings c D F n = Ok (filter (fand D F) (a_psibs t n)).
  Proof. intros Hn. unfold c_iterate_preceding_siblings, h_iterate_preceding_siblings. walk iterate_preceding_siblings_spec. Qed.

  (* ---- descendants: the explicit-stack loop is the strict pre-order ---- *)
  Theorem c_descendants_abs D F n : In n (ids t) ->
    c_iterate_descendants c D F n = Ok (filter (fand D F) (a_descendants t n)).
  Proof. intros Hn. unfold c_iterate_descendants, h_iterate_descendants. walk descendants_spec. Qed.
  Theorem c_traverse_df_ttb_abs D F n : In n (ids t) ->
    c_traverse_df_ttb c D F n = Ok (n :: filter (fand D F) (a_descendants t n)).
  Proof.
    intros Hn. unfold c_traverse_df_ttb, h_traverse_df_ttb, w_traverse_df_ttb. cbv zeta.
    pose proof (c_descendants_abs D F n Hn) as H. unfold c_iterate_descendants, h_iterate_descendants in H. cbv zeta in H.
    rewrite H. reflexivity.
  Qed.

  (* ---- ancestors are the parent chain, depth is its length (no filter is consulted) ---- *)
  Theorem c_ancestors_abs D F n : In n (ids t) -> c_iterate_ancestors c D F n = Ok (filter F (a_ancestors t n)).
  Proof. intros Hn. unfold c_iterate_ancestors, h_iterate_ancestors. walk ancestors_spec. Qed.
  Theorem c_depth_abs D n : In n (ids t) -> c_depth c D n = Ok (a_depth t n).
  Proof. intros Hn. unfold c_depth, h_depth. walk depth_spec. Qed.

  (* ---- kinds and text content ---- *)
  Lemma abs_not_text inh' e : is_text_tree (abs_el inh' e) = false.
  Proof. destruct e as [i k own data kids]. cbn [abs_el]. unfold is_text_tree. cbn [ipayload]. destruct k; reflexivity. Qed.
  Lemma P_is_text n : In n (ids t) -> h_is_text h n = a_is_text t n.
  Proof.
    intros Hn. destruct (node_kind_content c inh Hok Hnd n Hn) as [[e [inh' [He [<- Hs]]]]|[tb [o [Ho [_ [Hs <-]]]]]].
    - destruct (subel_obj c Hnd e He) as [up [nx [pv [tl Hobj]]]]. unfold h_is_text. rewrite Hobj.
      unfold a_is_text. rewrite <- (abs_iid inh' e), (a_sub_in t Tnd _ Hs), abs_not_text. reflexivity.
    - unfold h_is_text. rewrite Ho. unfold a_is_text. change (t_id tb) with (iid (atext tb)). rewrite (a_sub_in t Tnd _ Hs). reflexivity.
  Qed.
  Lemma P_content n : In n (ids t) -> h_is_text h n = true -> h_content h n = a_text t n.
  Proof.
    intros Hn Htx. destruct (node_kind_content c inh Hok Hnd n Hn) as [[e [inh' [He [<- Hs]]]]|[tb [o [Ho [Hc [Hs <-]]]]]].
    - destruct (subel_obj c Hnd e He) as [up [nx [pv [tl Hobj]]]]. unfold h_is_text in Htx. rewrite Hobj in Htx. discriminate.
    - unfold h_content. rewrite Ho, Hc. unfold a_text. change (t_id tb) with (iid (atext tb)). rewrite (a_sub_in t Tnd _ Hs). reflexivity.
  Qed.

  (* ---- document order: following (under the guard), preceding, partition ---- *)
  Lemma fu_ge : length (ids t) <= fu.
  Proof. pose proof fu_walk. lia. Qed.
  Theorem c_following_abs D F n : up_closed_b D t = true -> In n (ids t) ->
    c_iterate_following c D F n = Ok (filter (fand D F) (a_following t n)).
  Proof. intros Hg Hn. unfold c_iterate_following, h_iterate_following. walk following_spec. exact fu_ge. Qed.
  Theorem c_preceding_abs D F n : In n (ids t) -> c_iterate_preceding c D F n = Ok (filter F (a_preceding t n)).
  Proof. intros Hn. unfold c_iterate_preceding, h_iterate_preceding. walk preceding_spec. pose proof fu_walk. lia. Qed.
  Lemma up_closed_ftrue : up_closed_b ftrue t = true.
  Proof. unfold up_closed_b. apply forallb_forall. intros s _. reflexivity. Qed.
  (* what the two walks return around a node is the whole tree, in document order *)
  Theorem c_partition n : In n (ids t) ->
    exists p f, c_iterate_preceding c ftrue ftrue n = Ok p /\ c_iterate_following c ftrue ftrue n = Ok f
                /\ rev p ++ n :: f = cel_ids c.
  Proof.
    intros Hn. exists (a_preceding t n), (a_following t n).
    rewrite (c_preceding_abs ftrue ftrue n Hn), (c_following_abs ftrue ftrue n up_closed_ftrue Hn), filter_ftrue.
    rewrite (filter_ext (fand ftrue ftrue) ftrue) by reflexivity. rewrite filter_ftrue.
    split; [reflexivity|split; [reflexivity|]]. rewrite (partition t n Hn). apply abs_ids. exact Hok.
  Qed.

  Theorem c_fetch_following_abs D F n : up_closed_b D t = true -> In n (ids t) ->
    c_fetch_following c D F n = Ok (hd_error (filter (fand D F) (a_following t n))).
  Proof.
    intros Hg Hn. pose proof (c_following_abs D F n Hg Hn) as H. unfold c_iterate_following, h_iterate_following in H.
    unfold c_fetch_following, h_fetch_following, w_fetch_following. cbv zeta in *. rewrite H. reflexivity.
  Qed.
  Theorem c_fetch_preceding_abs D F n : In n (ids t) -> c_fetch_preceding c D F n = Ok (hd_error (filter F (a_preceding t n))).
  Proof.
    intros Hn. pose proof (c_preceding_abs D F n Hn) as H. unfold c_iterate_preceding, h_iterate_preceding in H.
    unfold c_fetch_preceding, h_fetch_preceding, w_fetch_preceding. cbv zeta in *. rewrite H. reflexivity.
  Qed.

  (* ---- full_text: the content of the visible text descendants, concatenated in document order ---- *)
  Theorem c_full_text_abs D n : In n (ids t) ->
    c_full_text c D n = Ok (if a_is_text t n then a_text t n else a_text_concat t (filter D (a_descendants t n))).
  Proof.
    intros Hn. unfold c_full_text, h_full_text. walk full_text_spec; try exact P_is_text; try exact P_content.
    intros Htag. unfold h_is_tag in Htag. unfold h_is_text. destruct (lookup h n) as [[o|o]|]; [reflexivity|discriminate|discriminate].
  Qed.
  Corollary c_full_text_unfiltered n : In n (ids t) -> c_full_text c ftrue n = Ok (a_full_text t n).
  Proof. intros Hn. rewrite (c_full_text_abs ftrue n Hn), filter_ftrue. reflexivity. Qed.

  (* ---- last_descendant ---- *)
  Theorem c_last_descendant_abs D n : up_closed_b D t = true -> In n (ids t) ->
    c_last_descendant c D n = Ok (last_error (filter D (a_descendants t n))).
  Proof. intros Hg Hn. unfold c_last_descendant, h_last_descendant. walk last_descendant_spec. exact (fun _ => []). Qed.
  Corollary c_last_descendant_unfiltered n : In n (ids t) -> c_last_descendant c ftrue n = Ok (a_last_descendant t n).
  Proof. intros Hn. rewrite (c_last_descendant_abs ftrue n up_closed_ftrue Hn), filter_ftrue. reflexivity. Qed.

  (* ---- the contributed traversers enumerate the subtree in their documented orders ---- *)
  Theorem c_traverse_bf_abs F n : In n (ids t) -> c_traverse_bf c ftrue F n = Ok (filter F (a_bf_ttb t n)).
  Proof. intros Hn. unfold c_traverse_bf, h_traverse_bf. walk traverse_bf_spec. pose proof fu_walk. lia. Qed.
  Theorem c_traverse_df_btt_abs F n : In n (ids t) ->
    c_traverse_df_btt c ftrue F n = Ok (filter (fun x => N.eqb x n || F x) (a_df_btt t n)).
  Proof. intros Hn. unfold c_traverse_df_btt, h_traverse_df_btt. walk traverse_df_btt_spec. exact fu_ge. Qed.

  Theorem c_sort_ambient D l : (forall n, In n l -> In n (ids t) /\ h_is_tag h n = true) ->
    (forall x, In x (flat_map subtrees (ikids t)) -> D (iid x) = false -> forall n, In n l -> ~ In n (ids x)) ->
    c_sort c D l = Ok (a_doc_sort t l).
  Proof. intros H Hh. unfold c_sort, h_sort. walk sort_ambient_spec. exact (fun _ => []). Qed.
  Theorem c_traverse_bf_ambient D F n : In n (ids t) ->
    exists d, lvg (vis_children t D) d (vis_children t D n) = lvg (vis_children t D) (S d) (vis_children t D n)
      /\ c_traverse_bf c D F n = Ok ((if F n then [n] else []) ++ filter F (lvg (vis_children t D) d (vis_children t D n))).
  Proof. intros Hn. unfold c_traverse_bf, h_traverse_bf. walk traverse_bf_ambient_spec. pose proof fu_walk. lia. Qed.
  Theorem c_traverse_df_btt_ambient D F n : In n (ids t) ->
    c_traverse_df_btt c D F n = Ok (filter (fun x => N.eqb x n || F x) (a_post_vis t D n)).
  Proof. intros Hn. unfold c_traverse_df_btt, h_traverse_df_btt. walk traverse_df_btt_ambient_spec. exact fu_ge. Qed.

  (* ---- the sorter: the offered tag nodes, each once, in document order ---- *)
  Theorem c_sort_abs l : (forall n, In n l -> In n (ids t) /\ h_is_tag h n = true) -> c_sort c ftrue l = Ok (a_doc_sort t l).
  Proof. intros H. unfold c_sort, h_sort. walk sort_spec. Qed.

  (* ---- passed filters only (no ambient restriction): the axes are exactly the restriction, no guard needed ---- *)
  Theorem c_following_passed F n : In n (ids t) -> c_iterate_following c ftrue F n = Ok (filter F (a_following t n)).
  Proof.
    intros Hn. rewrite (c_following_abs ftrue F n up_closed_ftrue Hn). reflexivity.
  Qed.

  (* every routine is a function of the one tree `t` *)
  Theorem c_nav_one_tree D F n : In n (ids t) ->
    c_iterate_children c D F n = Ok (filter (fand D F) (a_children t n))
    /\ c_len c D n = Ok (length (filter D (a_children t n)))
    /\ c_first_child c D n = Ok (hd_error (filter D (a_children t n)))
    /\ c_last_child c D n = Ok (last_error (filter D (a_children t n)))
    /\ (forall i, c_getitem c D n i = match py_index (filter D (a_children t n)) i with Some x => Ok x | None => Crash IndexError end)
    /\ (forall a b, c_getslice c D n a b = Ok (py_slice (filter D (a_children t n)) a b))
    /\ c_index c ftrue n = Ok (a_index t n)
    /\ c_parent_of c n = Ok (a_parent t n)
    /\ c_fetch_following_sibling c D F n = Ok (hd_error (filter (fand D F) (a_fsibs t n)))
    /\ c_iterate_following_siblings c D F n = Ok (filter (fand D F) (a_fsibs t n))
    /\ c_fetch_preceding_sibling c D F n = Ok (hd_error (filter (fand D F) (a_psibs t n)))
    /\ c_iterate_preceding_siblings c D F n = Ok (filter (fand D F) (a_psibs t n))
    /\ c_iterate_descendants c D F n = Ok (filter (fand D F) (a_descendants t n))
    /\ c_traverse_df_ttb c D F n = Ok (n :: filter (fand D F) (a_descendants t n)).
  Proof.
    intros Hn. repeat split; intros;
      auto using c_children_abs, c_len_abs, c_first_child_abs, c_last_child_abs, c_getitem_abs, c_getslice_abs,
                 c_index_unfiltered, c_parent_abs, c_fetch_following_sibling_abs, c_iterate_following_siblings_abs,
                 c_fetch_preceding_sibling_abs, c_iterate_preceding_siblings_abs, c_descendants_abs, c_traverse_df_ttb_abs.
  Qed.
End Concrete.

(* the guard of the following-axis theorem cannot be dropped: <r><x>c</x></r> under an ambient filter that accepts
   only the text node: `first_child` of r is None, so the walk never enters x *)
Definition refute_tree : cel :=
  CEl 0%N (KTag [] [114%N] []) None no_chain
      [(CEl 1%N (KTag [] [120%N] []) None {| ch_head := Some 2%N; ch_slot := Some [99%N]; ch_app := [] |} [], no_chain)].
Lemma following_unguarded_refuted : exists c D n,
  el_ok c = true /\ nodupb (cel_ids c) = true /\ In n (ids (abs_el [] c)) /\
  c_iterate_following c D ftrue n <> Ok (filter (fand D ftrue) (a_following (abs_el [] c) n)).
Proof.
  exists refute_tree, (fun i => N.eqb i 2), 0%N. split; [reflexivity|]. split; [reflexivity|]. split; [left; reflexivity|].
  vm_compute. discriminate.
Qed.

(* regression (finding C05-depth-parentless-childless, repaired in 50b8568): a parentless comment has depth 0 *)
Lemma depth_parentless_comment : c_depth (CEl 0%N (KComment []) None no_chain []) ftrue 0%N = Ok 0%nat.
Proof. reflexivity. Qed.

(* regression (finding C05-df-btt-prunes, repaired in b0bcfbb): <r><a>x</a></r>, filter "text nodes": root and x *)
Lemma df_btt_filtered_regression : c_traverse_df_btt refute_tree ftrue (fun i => N.eqb i 2) 0%N = Ok [2; 0]%N.
Proof. vm_compute. reflexivity. Qed.
